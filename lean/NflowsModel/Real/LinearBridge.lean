import NflowsModel.Core.LinearFamily
import NflowsModel.Lemmas.LinearFamily
import NflowsModel.Lemmas.LFIndex
import NflowsModel.Lemmas.LFTriSolve
import Mathlib.Tactic
/-!
# Real/LinearBridge — the executable list model of the linear family, run at `realOps`, IS the Mathlib matrix algebra

`ofMat A` is the list-of-rows form of a matrix; every well-shaped list matrix is `ofMat (toMat n M)`.  Each
executable primitive of `Core/LinearFamily` (`dot`, `matVec`, `transpose`, `matMul`, `eye`, `diagM`, `hhApply`,
`hhSeq`, `hhForward`, `hhInverse`, `hhMatrix`, the LU / QR / SVD accessors) is rewritten into the corresponding
Mathlib term, so the theorems of `Lemmas/LinearFamily`, `Lemmas/LU`, `Lemmas/Householder` are statements about
the very definitions the driver runs.
-/
open NF.LF DualSound Matrix

namespace LinearBridge
variable {n : ℕ}

/-! ## vectors -/

theorem zipWith_ofFn {β γ δ : Type} (f : β → γ → δ) (x : Fin n → β) (y : Fin n → γ) :
    List.zipWith f (List.ofFn x) (List.ofFn y) = List.ofFn (fun i => f (x i) (y i)) := by
  apply List.ext_getElem
  · simp
  · intro i h1 h2
    simp

theorem sum_ofFn (x : Fin n → ℝ) : sum realOps (List.ofFn x) = ∑ i, x i := by
  rw [LFTriSolve.sum_real, List.sum_ofFn]

theorem dot_ofFn (x y : Fin n → ℝ) : dot realOps (List.ofFn x) (List.ofFn y) = x ⬝ᵥ y := by
  unfold dot
  rw [zipWith_ofFn, sum_ofFn]
  rfl

theorem addV_ofFn (x y : Fin n → ℝ) : addV realOps (List.ofFn x) (List.ofFn y) = List.ofFn (x + y) := by
  unfold addV; rw [zipWith_ofFn]; rfl

theorem subV_ofFn (x y : Fin n → ℝ) : subV realOps (List.ofFn x) (List.ofFn y) = List.ofFn (x - y) := by
  unfold subV; rw [zipWith_ofFn]; rfl

theorem list_eq_ofFn' (xs : List ℝ) (h : xs.length = n) : xs = List.ofFn (fun i : Fin n => xs.getD i 0) := by
  apply List.ext_getElem
  · simp [h]
  · intro i h1 h2
    simp [List.getD_eq_getElem?_getD, h1]

theorem addV_list (x : Fin n → ℝ) (b : List ℝ) (hb : b.length = n) :
    addV realOps (List.ofFn x) b = List.ofFn (x + fun i : Fin n => b.getD i 0) := by
  conv_lhs => rw [list_eq_ofFn' b hb]
  exact addV_ofFn _ _

theorem subV_list (x : Fin n → ℝ) (b : List ℝ) (hb : b.length = n) :
    subV realOps (List.ofFn x) b = List.ofFn (x - fun i : Fin n => b.getD i 0) := by
  conv_lhs => rw [list_eq_ofFn' b hb]
  exact subV_ofFn _ _

/-- **one Householder step, as executed** (orthogonal.py:83-86) is `Householder.hhApply` -/
theorem hhApply_executed (v x : Fin n → ℝ) :
    hhApply realOps (List.ofFn v) (List.ofFn x) = List.ofFn (Householder.hhApply v x) := by
  unfold hhApply
  simp only [List.map_ofFn]
  rw [zipWith_ofFn, dot_ofFn]
  have hsq : sum realOps (List.ofFn ((fun a => realOps.mul a a) ∘ v)) = v ⬝ᵥ v := by
    rw [sum_ofFn]; rfl
  rw [hsq]
  congr 1
  funext i
  simp only [Householder.hhApply, Function.comp, LFTriSolve.two_real, Pi.sub_apply, Pi.smul_apply, smul_eq_mul]
  show x i - (x ⬝ᵥ v) * (2 / (v ⬝ᵥ v) * v i) = _
  ring

/-- **a Householder sequence, as executed** (orthogonal.py:81-86) is `Householder.hhSeq` -/
theorem hhSeq_executed (vs : List (Fin n → ℝ)) (x : Fin n → ℝ) :
    hhSeq realOps (vs.map List.ofFn) (List.ofFn x) = List.ofFn (Householder.hhSeq vs x) := by
  induction vs generalizing x with
  | nil => simp [hhSeq, Householder.hhSeq]
  | cons v vs ih =>
    simp only [hhSeq, Householder.hhSeq, List.map_cons, List.foldl_cons] at ih ⊢
    rw [hhApply_executed]
    exact ih _

/-! ## matrices -/

/-- list-of-rows form of a matrix -/
def ofMat (A : Matrix (Fin n) (Fin n) ℝ) : List (List ℝ) := List.ofFn (fun i => List.ofFn (A i))

/-- well-shaped `n × n` list matrix -/
def WF (n : ℕ) (M : List (List ℝ)) : Prop := M.length = n ∧ ∀ r ∈ M, r.length = n

theorem wf_ofMat (A : Matrix (Fin n) (Fin n) ℝ) : WF n (ofMat A) := by
  refine ⟨by simp [ofMat], ?_⟩
  intro r hr
  simp only [ofMat, List.mem_ofFn] at hr
  obtain ⟨i, rfl⟩ := hr
  simp

theorem toMat_ofMat (A : Matrix (Fin n) (Fin n) ℝ) : LFIndex.toMat n (ofMat A) = A := by
  funext i j
  simp [LFIndex.toMat, LFTriSolve.entry_real, ofMat, List.getD_eq_getElem?_getD]

theorem ofMat_toMat {M : List (List ℝ)} (h : WF n M) : ofMat (LFIndex.toMat n M) = M := by
  obtain ⟨hl, hr⟩ := h
  apply List.ext_getElem
  · simp [ofMat, hl]
  · intro i h1 h2
    have hi : i < n := by simpa [ofMat] using h1
    have hrow : (M[i]).length = n := hr _ (List.getElem_mem h2)
    apply List.ext_getElem
    · simp [ofMat, hrow]
    · intro j h3 h4
      have hj : j < n := by simpa [ofMat] using h3
      simp [ofMat, LFIndex.toMat, LFTriSolve.entry_real, List.getD_eq_getElem?_getD, h2, hrow, hj]

theorem ofMat_injective {A B : Matrix (Fin n) (Fin n) ℝ} (h : ofMat A = ofMat B) : A = B := by
  rw [← toMat_ofMat A, ← toMat_ofMat B, h]

theorem wf_tab2 (f : ℕ → ℕ → ℝ) : WF n (tab2 n f) := ⟨LFIndex.tab2_length n f, LFIndex.tab2_row_length n f⟩

theorem tab2_eq_ofMat (f : ℕ → ℕ → ℝ) : tab2 n f = ofMat (fun i j : Fin n => f i j) := by
  rw [← ofMat_toMat (wf_tab2 f)]
  congr 1
  funext i j
  exact LFIndex.entry_tab2 realOps n f i.2 j.2

theorem col_ofMat (A : Matrix (Fin n) (Fin n) ℝ) (j : Fin n) : NF.LF.col realOps (ofMat A) j = List.ofFn (Aᵀ j) := by
  unfold NF.LF.col ofMat
  rw [List.map_ofFn]
  congr 1
  funext i
  simp [Function.comp, List.getD_eq_getElem?_getD]

theorem transpose_ofMat (A : Matrix (Fin n) (Fin n) ℝ) : NF.LF.transpose realOps n (ofMat A) = ofMat Aᵀ := by
  unfold NF.LF.transpose
  apply List.ext_getElem
  · simp [ofMat]
  · intro j h1 h2
    have hj : j < n := by simpa using h1
    simp only [List.getElem_map, List.getElem_range]
    have := col_ofMat A ⟨j, hj⟩
    simp only at this
    rw [this]
    simp [ofMat]

theorem matVec_ofMat (A : Matrix (Fin n) (Fin n) ℝ) (x : Fin n → ℝ) :
    matVec realOps (ofMat A) (List.ofFn x) = List.ofFn (A *ᵥ x) := by
  unfold matVec ofMat
  rw [List.map_ofFn]
  congr 1
  funext i
  simp [Function.comp, dot_ofFn, Matrix.mulVec]

theorem matMul_ofMat (A B : Matrix (Fin n) (Fin n) ℝ) : matMul realOps n (ofMat A) (ofMat B) = ofMat (A * B) := by
  unfold matMul
  rw [transpose_ofMat]
  simp only [ofMat, List.map_ofFn]
  congr 1
  funext i
  simp only [Function.comp]
  congr 1
  funext j
  simp only [Function.comp, dot_ofFn]
  rfl

theorem eye_eq (n : ℕ) : eye realOps n = ofMat (1 : Matrix (Fin n) (Fin n) ℝ) := by
  unfold eye
  rw [tab2_eq_ofMat]
  congr 1
  funext i j
  simp [Matrix.one_apply, Fin.ext_iff]

theorem diagM_ofFn (d : Fin n → ℝ) : diagM realOps (List.ofFn d) = ofMat (Matrix.diagonal d) := by
  unfold diagM
  simp only [List.length_ofFn]
  rw [tab2_eq_ofMat]
  congr 1
  funext i j
  by_cases h : i = j
  · subst h; simp [List.getD_eq_getElem?_getD]
  · have : (i : ℕ) ≠ j := fun hh => h (Fin.ext hh)
    simp [h, this]

theorem map_ofMat (g : List ℝ → List ℝ) (h : (Fin n → ℝ) → (Fin n → ℝ)) (hg : ∀ x, g (List.ofFn x) = List.ofFn (h x))
    (A : Matrix (Fin n) (Fin n) ℝ) : (ofMat A).map g = ofMat (Matrix.of fun i => h (A i)) := by
  unfold ofMat
  rw [List.map_ofFn]
  congr 1
  funext i
  simp only [Function.comp, hg]
  rfl

/-- `F.linear(X, W)` on the rows of a matrix -/
theorem linear0_ofMat (W X : Matrix (Fin n) (Fin n) ℝ) :
    linear0 realOps (ofMat W) (ofMat X) = ofMat (Matrix.of fun i => W *ᵥ X i) :=
  map_ofMat _ _ (matVec_ofMat W) X

/-- **`HouseholderSequence.forward` on the rows of a matrix, as executed** -/
theorem hhForward_ofMat (vs : List (Fin n → ℝ)) (A : Matrix (Fin n) (Fin n) ℝ) :
    hhForward realOps (vs.map List.ofFn) (ofMat A) = ofMat (Matrix.of fun i => Householder.hhSeq vs (A i)) :=
  map_ofMat _ _ (hhSeq_executed vs) A

/-- **`HouseholderSequence.inverse` on the rows of a matrix, as executed** -/
theorem hhInverse_ofMat (vs : List (Fin n → ℝ)) (A : Matrix (Fin n) (Fin n) ℝ) :
    hhInverse realOps (vs.map List.ofFn) (ofMat A) = ofMat (Matrix.of fun i => Householder.hhSeq vs.reverse (A i)) := by
  unfold hhInverse
  rw [← List.map_reverse]
  exact map_ofMat _ _ (hhSeq_executed vs.reverse) A

/-- **`matrix()`, as executed, is `Q`** -/
theorem hhMatrix_executed (vs : List (Fin n → ℝ)) :
    hhMatrix realOps n (vs.map List.ofFn) = ofMat (LinearFamily.Q vs) := by
  unfold hhMatrix
  rw [eye_eq, hhInverse_ofMat, LinearFamily.matrix_eq]

/-! ## the constructor's initial q-vectors -/

section init
variable {α : Type} (o : Ops α)

theorem flatMap_pair_getD {β : Type} (a : List β) (r : ℕ) (d : β) :
    (a.flatMap (fun x => [x, x])).getD r d = a.getD (r / 2) d := by
  induction a generalizing r with
  | nil => simp
  | cons x a ih =>
    simp only [List.flatMap_cons, List.cons_append, List.nil_append]
    match r with
    | 0 => simp
    | 1 => simp
    | r + 2 =>
      have : (r + 2) / 2 = r / 2 + 1 := by omega
      rw [this]
      simp only [List.getD_cons_succ]
      exact ih r

theorem tile2_eq (a : List (List α)) : tile2 a = a.flatMap (fun r => [r, r]) := by
  unfold tile2 orderIndex
  simp only [List.map_flatMap, List.map_cons, List.map_nil]
  have key : ∀ i < a.length, (a ++ a).getD i [] = a.getD i [] ∧ (a ++ a).getD (a.length + i) [] = a.getD i [] := by
    intro i hi
    constructor
    · simp [List.getD_eq_getElem?_getD, List.getElem?_append_left hi]
    · simp [List.getD_eq_getElem?_getD, List.getElem?_append_right (Nat.le_add_right _ _)]
  have h1 : (List.range a.length).flatMap (fun i => [(a ++ a).getD i [], (a ++ a).getD (a.length + i) []])
      = (List.range a.length).flatMap (fun i => [a.getD i [], a.getD i []]) := by
    apply List.flatMap_congr
    intro i hi
    rw [List.mem_range] at hi
    rw [(key i hi).1, (key i hi).2]
  rw [h1]
  have h2 : a = (List.range a.length).map (fun i => a.getD i []) := by
    apply List.ext_getElem
    · simp
    · intro i h1 h2
      simp [List.getD_eq_getElem?_getD, h1]
  conv_rhs => rw [h2]
  rw [List.flatMap_map]

theorem hhInitQ_length (features num : ℕ) : (hhInitQ o features num).length = num := by
  unfold hhInitQ
  simp only [tile2_eq]
  have hl : ∀ (a : List (List α)), (a.flatMap (fun r => [r, r])).length = 2 * a.length := by
    intro a
    induction a with
    | nil => simp
    | cons x a ih => simp only [List.flatMap_cons, List.length_append, ih]; simp; omega
  split
  · rename_i h
    simp only [bne_iff_ne, ne_eq] at h
    simp [hl]; omega
  · rename_i h
    simp only [bne_iff_ne, ne_eq, not_not] at h
    simp [hl]; omega

/-- row `r` of the initial `q_vectors` is the basis row `(r / 2) mod features` -/
theorem hhInitQ_row (features num r : ℕ) (hr : r < num) :
    (hhInitQ o features num).getD r [] = basisRow o features (r / 2) := by
  unfold hhInitQ
  simp only [tile2_eq]
  have hl : ∀ (a : List (List α)), (a.flatMap (fun r => [r, r])).length = 2 * a.length := by
    intro a
    induction a with
    | nil => simp
    | cons x a ih => simp only [List.flatMap_cons, List.length_append, ih]; simp; omega
  have hmain : ∀ r, r / 2 < num / 2 →
      (((List.range (num / 2)).map (basisRow o features)).flatMap (fun r => [r, r])).getD r [] = basisRow o features (r / 2) := by
    intro r hr2
    rw [flatMap_pair_getD]
    simp [List.getD_eq_getElem?_getD, hr2]
  split
  · rename_i h
    simp only [bne_iff_ne, ne_eq] at h
    by_cases hlt : r / 2 < num / 2
    · rw [List.getD_eq_getElem?_getD, List.getElem?_append_left (by rw [hl]; simp; omega), ← List.getD_eq_getElem?_getD]
      exact hmain r hlt
    · have hr' : r = 2 * (num / 2) := by omega
      rw [List.getD_eq_getElem?_getD, List.getElem?_append_right (by rw [hl]; simp; omega)]
      have : r - (((List.range (num / 2)).map (basisRow o features)).flatMap (fun r => [r, r])).length = 0 := by
        rw [hl]; simp; omega
      rw [this]
      have h2 : r / 2 = num / 2 := by omega
      simp [basisRow, h2]
  · rename_i h
    simp only [bne_iff_ne, ne_eq, not_not] at h
    exact hmain r (by omega)

theorem basisRow_length (features k : ℕ) : (basisRow o features k).length = features := by simp [basisRow]

theorem basisRow_getD (features k j : ℕ) (hj : j < features) :
    (basisRow o features k).getD j (zero o) = if j = k % features then one o else zero o := by
  simp [basisRow, List.getD_eq_getElem?_getD, hj]

end init

theorem basisRow_real (features k : ℕ) (hf : 0 < features) :
    basisRow realOps features k = List.ofFn (Pi.single (⟨k % features, Nat.mod_lt _ hf⟩ : Fin features) (1 : ℝ)) := by
  apply List.ext_getElem
  · simp [basisRow]
  · intro j h1 h2
    have hj : j < features := by simpa [basisRow] using h1
    simp only [basisRow, List.getElem_map, List.getElem_range, List.getElem_ofFn, Pi.single_apply, Fin.ext_iff,
      LFTriSolve.one_real, LFTriSolve.zero_real]

/-- every initial q-vector has squared norm one over the reals (hence is non-zero and `2 / |q|²` is finite) -/
theorem basisRow_real_sqnorm (features k : ℕ) (hf : 0 < features) :
    dot realOps (basisRow realOps features k) (basisRow realOps features k) = 1 := by
  rw [basisRow_real features k hf, dot_ofFn]
  simp

/-! ## triangular solves on matrices -/

theorem list_eq_ofFn (xs : List ℝ) (h : xs.length = n) : xs = List.ofFn (fun i : Fin n => xs.getD i 0) := by
  apply List.ext_getElem
  · simp [h]
  · intro i h1 h2
    simp [List.getD_eq_getElem?_getD, h1]

theorem entry_ofMat (A : Matrix (Fin n) (Fin n) ℝ) (i j : Fin n) : entry realOps (ofMat A) i j = A i j :=
  congrFun (congrFun (toMat_ofMat A) i) j

theorem mulVec_getD (A : Matrix (Fin n) (Fin n) ℝ) (xs : List ℝ) (i : Fin n) :
    (A *ᵥ (fun j : Fin n => xs.getD j 0)) i = ∑ j ∈ Finset.range n, entry realOps (ofMat A) i j * xs.getD j 0 := by
  rw [← Fin.sum_univ_eq_sum_range (fun j => entry realOps (ofMat A) i j * xs.getD j 0) n]
  simp only [Matrix.mulVec, dotProduct]
  apply Finset.sum_congr rfl
  intro j _
  rw [entry_ofMat]

/-- **back substitution, as executed, solves `U x = b`** for upper-triangular `U` with non-zero diagonal -/
theorem solveUpper_ofMat (U : Matrix (Fin n) (Fin n) ℝ) (hU : ∀ i j : Fin n, j < i → U i j = 0) (hd : ∀ i, U i i ≠ 0)
    (b : Fin n → ℝ) :
    ∃ x : Fin n → ℝ, solveUpper realOps (ofMat U) (List.ofFn b) = List.ofFn x ∧ U *ᵥ x = b := by
  obtain ⟨hl, hrow⟩ := wf_ofMat U
  obtain ⟨hlen, hsum⟩ := LFTriSolve.solveUpper_correct n (ofMat U) (List.ofFn b) hl hrow (by simp)
    (by intro i hi; have := entry_ofMat U ⟨i, hi⟩ ⟨i, hi⟩; simp only at this; rw [this]; exact hd _)
  refine ⟨fun i => (solveUpper realOps (ofMat U) (List.ofFn b)).getD i 0, list_eq_ofFn _ hlen, ?_⟩
  funext i
  rw [mulVec_getD, ← Finset.sum_range_add_sum_Ico _ (le_of_lt i.2)]
  have hz : ∑ j ∈ Finset.range (i : ℕ), entry realOps (ofMat U) i j *
      (solveUpper realOps (ofMat U) (List.ofFn b)).getD j 0 = 0 := by
    apply Finset.sum_eq_zero
    intro j hj
    rw [Finset.mem_range] at hj
    have := entry_ofMat U i ⟨j, lt_trans hj i.2⟩
    simp only at this
    rw [this, hU i ⟨j, lt_trans hj i.2⟩ (by exact hj), zero_mul]
  rw [hz, zero_add, hsum i i.2]
  simp [List.getD_eq_getElem?_getD]

/-- **forward substitution, as executed, solves `L x = b`** for the unit-lower-triangular `L = mkLower lo` -/
theorem solveLowerUnit_ofMat (lo : Fin n → Fin n → ℝ) (b : Fin n → ℝ) :
    ∃ x : Fin n → ℝ, solveLowerUnit realOps (ofMat (LU.mkLower lo)) (List.ofFn b) = List.ofFn x ∧ LU.mkLower lo *ᵥ x = b := by
  obtain ⟨hl, hrow⟩ := wf_ofMat (LU.mkLower lo)
  obtain ⟨hlen, hsum⟩ := LFTriSolve.solveLowerUnit_correct n (ofMat (LU.mkLower lo)) (List.ofFn b) hl hrow (by simp)
  refine ⟨fun i => (solveLowerUnit realOps (ofMat (LU.mkLower lo)) (List.ofFn b)).getD i 0, list_eq_ofFn _ hlen, ?_⟩
  funext i
  rw [mulVec_getD, ← Finset.sum_range_add_sum_Ico _ (le_of_lt i.2), Finset.sum_eq_sum_Ico_succ_bot i.2]
  have hdiag : entry realOps (ofMat (LU.mkLower lo)) i i = 1 := by
    rw [entry_ofMat]; simp [LU.mkLower]
  have hz : ∑ j ∈ Finset.Ico ((i : ℕ) + 1) n, entry realOps (ofMat (LU.mkLower lo)) i j *
      (solveLowerUnit realOps (ofMat (LU.mkLower lo)) (List.ofFn b)).getD j 0 = 0 := by
    apply Finset.sum_eq_zero
    intro j hj
    rw [Finset.mem_Ico] at hj
    have := entry_ofMat (LU.mkLower lo) i ⟨j, hj.2⟩
    simp only at this
    have hij : i < (⟨j, hj.2⟩ : Fin n) := by
      rw [Fin.lt_def]; exact hj.1
    rw [this]
    simp [LU.mkLower, not_lt.mpr hij.le, hij.ne]
  rw [hz, add_zero, hdiag, one_mul]
  have := hsum i i.2
  simp only [List.getD_eq_getElem?_getD, List.getElem?_ofFn, i.2] at this ⊢
  simpa using this

/-- the matrix whose rows are the solutions of `U x = e_j` is the transpose of a right inverse of `U` -/
theorem solve_columns (U : Matrix (Fin n) (Fin n) ℝ) (g : List ℝ → List ℝ)
    (hg : ∀ b : Fin n → ℝ, ∃ x : Fin n → ℝ, g (List.ofFn b) = List.ofFn x ∧ U *ᵥ x = b) :
    ∃ C : Matrix (Fin n) (Fin n) ℝ, NF.LF.transpose realOps n ((eye realOps n).map g) = ofMat C ∧ U * C = 1 := by
  choose sol hsol using hg
  refine ⟨(Matrix.of fun j => sol ((1 : Matrix (Fin n) (Fin n) ℝ) j))ᵀ, ?_, ?_⟩
  · rw [eye_eq, map_ofMat g sol (fun b => (hsol b).1), transpose_ofMat]
  · ext i j
    have := congrFun (hsol ((1 : Matrix (Fin n) (Fin n) ℝ) j)).2 i
    simp only [Matrix.mulVec, dotProduct] at this
    simp only [Matrix.mul_apply, Matrix.transpose_apply, Matrix.of_apply]
    rw [this, Matrix.one_apply, Matrix.one_apply]
    simp [eq_comm]

/-! ## the accessors, as executed -/

/-- real twins of the parameters: the entry scattered at `(i, j)` by the `tril` / `triu` index lists -/
noncomputable def loFn (n : ℕ) (lo : List ℝ) : Fin n → Fin n → ℝ := fun i j => (lookupIdx (trilIndices n) lo i j).getD 0
noncomputable def upFn (n : ℕ) (up : List ℝ) : Fin n → Fin n → ℝ := fun i j => (lookupIdx (triuIndices n) up i j).getD 0
def vecFn (n : ℕ) (d : List ℝ) : Fin n → ℝ := fun i => d.getD i 0

theorem luLower_executed (n : ℕ) (lo : List ℝ) : luLower realOps n lo = ofMat (LU.mkLower (loFn n lo)) := by
  have := LFIndex.toMat_luLower n lo
  unfold loFn
  rw [← this]
  exact (ofMat_toMat (wf_tab2 _)).symm

theorem mkUpper_executed (n : ℕ) (up d : List ℝ) : mkUpper realOps n up d = ofMat (LU.mkUpper (upFn n up) (vecFn n d)) := by
  have := LFIndex.toMat_mkUpper n up d
  unfold upFn vecFn
  rw [← this]
  exact (ofMat_toMat (wf_tab2 _)).symm

theorem sum_list (xs : List ℝ) (h : xs.length = n) : sum realOps xs = ∑ i : Fin n, vecFn n xs i := by
  conv_lhs => rw [list_eq_ofFn xs h]
  rw [sum_ofFn]; rfl

theorem vecFn_map (g : ℝ → ℝ) (xs : List ℝ) (h : xs.length = n) (i : Fin n) : vecFn n (xs.map g) i = g (vecFn n xs i) := by
  have hi : (i : ℕ) < xs.length := h ▸ i.2
  simp [vecFn, List.getD_eq_getElem?_getD, hi]

/-! ### LULinear -/

/-- the LU weight of parameters `p`, as a Mathlib matrix -/
noncomputable def luW (p : LUParams ℝ) : Matrix (Fin p.n) (Fin p.n) ℝ :=
  LU.mkLower (loFn p.n p.lower) * LU.mkUpper (upFn p.n p.upper) (vecFn p.n (posDiag realOps p.eps p.udiag))

theorem luWeight_executed (p : LUParams ℝ) : luWeight realOps p = ofMat (luW p) := by
  unfold luWeight luL luU luW
  rw [luLower_executed, mkUpper_executed, matMul_ofMat]

theorem luDiag_pos (p : LUParams ℝ) (hlen : p.udiag.length = p.n) (heps : 0 ≤ p.eps) (i : Fin p.n) :
    0 < vecFn p.n (posDiag realOps p.eps p.udiag) i :=
  LFIndex.posDiag_getD_pos p.eps heps p.udiag (by rw [hlen]; exact i.2)

theorem luLogabsdet_executed (p : LUParams ℝ) (hlen : p.udiag.length = p.n) (heps : 0 ≤ p.eps) :
    luLogabsdet realOps p = Real.log |(luW p).det| := by
  unfold luLogabsdet sumLog luW
  have hl : (posDiag realOps p.eps p.udiag).length = p.n := by rw [LFIndex.posDiag_length, hlen]
  rw [sum_list _ (by rw [List.length_map, hl]), ← LU.lu_logabsdet _ _ _ (luDiag_pos p hlen heps)]
  apply Finset.sum_congr rfl
  intro i _
  rw [vecFn_map _ _ hl]; rfl

theorem luForward_executed (p : LUParams ℝ) (hb : p.bias.length = p.n) (x : Fin p.n → ℝ) :
    luForward realOps p [List.ofFn x] = [List.ofFn (luW p *ᵥ x + vecFn p.n p.bias)] := by
  unfold luForward linear linear0 luL luU luW
  rw [luLower_executed, mkUpper_executed]
  simp only [List.map_cons, List.map_nil]
  rw [matVec_ofMat, matVec_ofMat, addV_list _ _ hb, Matrix.mulVec_mulVec]
  rfl

theorem luWeightInverse_executed (p : LUParams ℝ) (hlen : p.udiag.length = p.n) (heps : 0 ≤ p.eps) :
    ∃ Winv : Matrix (Fin p.n) (Fin p.n) ℝ, luWeightInverse realOps p = ofMat Winv ∧ Winv * luW p = 1 ∧ luW p * Winv = 1 := by
  have hsolve : ∀ b : Fin p.n → ℝ, ∃ x : Fin p.n → ℝ,
      solveUpper realOps (luU realOps p) (solveLowerUnit realOps (luL realOps p) (List.ofFn b)) = List.ofFn x ∧ luW p *ᵥ x = b := by
    intro b
    unfold luL luU
    rw [luLower_executed, mkUpper_executed]
    obtain ⟨y, hy, hLy⟩ := solveLowerUnit_ofMat (loFn p.n p.lower) b
    obtain ⟨x, hx, hUx⟩ := solveUpper_ofMat (LU.mkUpper (upFn p.n p.upper) (vecFn p.n (posDiag realOps p.eps p.udiag)))
      (fun i j hji => LU.mkUpper_upper _ _ hji) (fun i => by simp [LU.mkUpper]; exact (luDiag_pos p hlen heps i).ne') y
    refine ⟨x, by rw [hy, hx], ?_⟩
    unfold luW
    rw [← Matrix.mulVec_mulVec, hUx, hLy]
  obtain ⟨C, hC, hWC⟩ := solve_columns (luW p)
    (fun e => solveUpper realOps (luU realOps p) (solveLowerUnit realOps (luL realOps p) e)) hsolve
  exact ⟨C, hC, mul_eq_one_comm.mp hWC, hWC⟩

theorem luInverse_executed (p : LUParams ℝ) (hlen : p.udiag.length = p.n) (heps : 0 ≤ p.eps) (hb : p.bias.length = p.n)
    (x : Fin p.n → ℝ) : luInverse realOps p (luForward realOps p [List.ofFn x]) = [List.ofFn x] := by
  rw [luForward_executed p hb]
  unfold luInverse luL luU
  rw [luLower_executed, mkUpper_executed]
  simp only [List.map_cons, List.map_nil]
  rw [subV_list _ _ hb]
  obtain ⟨y, hy, hLy⟩ := solveLowerUnit_ofMat (loFn p.n p.lower) (luW p *ᵥ x + vecFn p.n p.bias - fun i : Fin p.n => p.bias.getD i 0)
  obtain ⟨z, hz, hUz⟩ := solveUpper_ofMat (LU.mkUpper (upFn p.n p.upper) (vecFn p.n (posDiag realOps p.eps p.udiag)))
    (fun i j hji => LU.mkUpper_upper _ _ hji) (fun i => by simp [LU.mkUpper]; exact (luDiag_pos p hlen heps i).ne') y
  rw [hy, hz]
  have hWz : luW p *ᵥ z = luW p *ᵥ x := by
    unfold luW
    rw [← Matrix.mulVec_mulVec, hUz, hLy]
    funext i; simp [vecFn, luW]
  have hunit : IsUnit (luW p).det := LU.lu_isUnit _ _ _ (luDiag_pos p hlen heps)
  have : z = x := by
    have h1 := congrArg (fun v => (luW p)⁻¹ *ᵥ v) hWz
    simp only [Matrix.mulVec_mulVec, Matrix.nonsing_inv_mul _ hunit, Matrix.one_mulVec] at h1
    exact h1
  rw [this]

/-! ### QRLinear -/

/-- the upper factor `R` of parameters `p` (diagonal `exp(log_upper_diag)`), as a Mathlib matrix -/
noncomputable def qrRm (p : QRParams ℝ) : Matrix (Fin p.n) (Fin p.n) ℝ :=
  LU.mkUpper (upFn p.n p.upper) (fun i => Real.exp (vecFn p.n p.logDiag i))

/-- the QR weight `Q R`, `Q = H_K ⋯ H_1` -/
noncomputable def qrW (p : QRParams ℝ) (vs : List (Fin p.n → ℝ)) : Matrix (Fin p.n) (Fin p.n) ℝ :=
  LinearFamily.Q vs * qrRm p

theorem qrR_executed (p : QRParams ℝ) (hl : p.logDiag.length = p.n) : qrR realOps p = ofMat (qrRm p) := by
  unfold qrR qrRm
  rw [mkUpper_executed]
  congr 2
  funext i
  exact vecFn_map _ _ hl i

theorem hhForward_single (vs : List (Fin n → ℝ)) (x : Fin n → ℝ) :
    hhForward realOps (vs.map List.ofFn) [List.ofFn x] = [List.ofFn (Householder.hhSeq vs x)] := by
  simp [hhForward, hhSeq_executed]

theorem hhInverse_single (vs : List (Fin n → ℝ)) (x : Fin n → ℝ) :
    hhInverse realOps (vs.map List.ofFn) [List.ofFn x] = [List.ofFn (Householder.hhSeq vs.reverse x)] := by
  unfold hhInverse
  rw [← List.map_reverse]
  simp only [List.map_cons, List.map_nil, hhSeq_executed]

theorem qrWeight_executed (p : QRParams ℝ) (vs : List (Fin p.n → ℝ)) (hq : p.qs = vs.map List.ofFn)
    (hl : p.logDiag.length = p.n) : qrWeight realOps p = ofMat (qrW p vs) := by
  unfold qrWeight qrW
  rw [qrR_executed p hl, hq, transpose_ofMat, hhForward_ofMat, transpose_ofMat, LinearFamily.qr_weight]

theorem qrLogabsdet_executed (p : QRParams ℝ) (vs : List (Fin p.n → ℝ)) (hv : ∀ v ∈ vs, v ⬝ᵥ v ≠ 0)
    (hl : p.logDiag.length = p.n) : qrLogabsdet realOps p = Real.log |(qrW p vs).det| := by
  unfold qrLogabsdet qrW qrRm
  rw [sum_list _ hl]
  exact LinearFamily.qr_logabsdet vs hv _ _

theorem qrForward_executed (p : QRParams ℝ) (vs : List (Fin p.n → ℝ)) (hq : p.qs = vs.map List.ofFn)
    (hl : p.logDiag.length = p.n) (hb : p.bias.length = p.n) (x : Fin p.n → ℝ) :
    qrForward realOps p [List.ofFn x] = [List.ofFn (qrW p vs *ᵥ x + vecFn p.n p.bias)] := by
  unfold qrForward linear0 qrW
  rw [qrR_executed p hl, hq]
  simp only [List.map_cons, List.map_nil]
  rw [matVec_ofMat, hhForward_single]
  simp only [List.map_cons, List.map_nil]
  rw [addV_list _ _ hb]
  congr 2
  exact LinearFamily.qr_forward vs (qrRm p) _ x

theorem qrRm_upper (p : QRParams ℝ) : ∀ i j : Fin p.n, j < i → qrRm p i j = 0 :=
  fun _ _ hji => LU.mkUpper_upper _ _ hji

theorem qrRm_diag (p : QRParams ℝ) (i : Fin p.n) : qrRm p i i ≠ 0 := by
  simp [qrRm, LU.mkUpper]

theorem qrWeightInverse_executed (p : QRParams ℝ) (vs : List (Fin p.n → ℝ)) (hq : p.qs = vs.map List.ofFn)
    (hv : ∀ v ∈ vs, v ⬝ᵥ v ≠ 0) (hl : p.logDiag.length = p.n) :
    ∃ Winv : Matrix (Fin p.n) (Fin p.n) ℝ, qrWeightInverse realOps p = ofMat Winv ∧ Winv * qrW p vs = 1 ∧ qrW p vs * Winv = 1 := by
  obtain ⟨C, hC, hRC⟩ := solve_columns (qrRm p) (solveUpper realOps (ofMat (qrRm p)))
    (solveUpper_ofMat (qrRm p) (qrRm_upper p) (qrRm_diag p))
  have hCR : C * qrRm p = 1 := mul_eq_one_comm.mp hRC
  have h1 := LinearFamily.qr_weight_inverse vs hv (qrRm p) C hCR
  refine ⟨_, ?_, h1, mul_eq_one_comm.mp h1⟩
  unfold qrWeightInverse
  simp only
  rw [qrR_executed p hl, hC, hq, hhForward_ofMat]

theorem qrInverse_executed (p : QRParams ℝ) (vs : List (Fin p.n → ℝ)) (hq : p.qs = vs.map List.ofFn)
    (hv : ∀ v ∈ vs, v ⬝ᵥ v ≠ 0) (hl : p.logDiag.length = p.n) (hb : p.bias.length = p.n) (x : Fin p.n → ℝ) :
    qrInverse realOps p (qrForward realOps p [List.ofFn x]) = [List.ofFn x] := by
  rw [qrForward_executed p vs hq hl hb]
  unfold qrInverse
  rw [qrR_executed p hl, hq]
  simp only [List.map_cons, List.map_nil]
  rw [subV_list _ _ hb, hhInverse_single]
  simp only [List.map_cons, List.map_nil]
  obtain ⟨z, hz, hRz⟩ := solveUpper_ofMat (qrRm p) (qrRm_upper p) (qrRm_diag p)
    (Householder.hhSeq vs.reverse (qrW p vs *ᵥ x + vecFn p.n p.bias - fun i : Fin p.n => p.bias.getD i 0))
  rw [hz]
  have hy : Householder.hhSeq vs.reverse (qrW p vs *ᵥ x + vecFn p.n p.bias - fun i : Fin p.n => p.bias.getD i 0)
      = qrRm p *ᵥ x := by
    have : qrW p vs *ᵥ x + vecFn p.n p.bias - (fun i : Fin p.n => p.bias.getD i 0) = Householder.hhSeq vs (qrRm p *ᵥ x) := by
      rw [show (fun i : Fin p.n => p.bias.getD i 0) = vecFn p.n p.bias from rfl, add_sub_cancel_right, qrW,
        ← Matrix.mulVec_mulVec, ← LinearFamily.forward_eq_mulVec]
    rw [this, Householder.hhSeq_inverse vs hv]
  rw [hy] at hRz
  have hunit : IsUnit (qrRm p).det := by
    rw [qrRm, LinearFamily.mkUpper_det, isUnit_iff_ne_zero]
    exact (Finset.prod_pos (fun i _ => Real.exp_pos _)).ne'
  have : z = x := by
    have h1 := congrArg (fun v => (qrRm p)⁻¹ *ᵥ v) hRz
    simp only [Matrix.mulVec_mulVec, Matrix.nonsing_inv_mul _ hunit, Matrix.one_mulVec] at h1
    exact h1
  rw [this]

/-! ### SVDLinear -/

/-- the positive diagonal `eps + softplus(u)` of parameters `p` -/
noncomputable def svdD (p : SVDParams ℝ) : Fin p.n → ℝ := vecFn p.n (svdDiag realOps p)

/-- the SVD weight `Q₁ D Q₂` -/
noncomputable def svdW (p : SVDParams ℝ) (vs1 vs2 : List (Fin p.n → ℝ)) : Matrix (Fin p.n) (Fin p.n) ℝ :=
  LinearFamily.Q vs1 * Matrix.diagonal (svdD p) * LinearFamily.Q vs2

theorem svdDiag_length (p : SVDParams ℝ) : (svdDiag realOps p).length = p.udiag.length := by simp [svdDiag]

theorem svdDiag_eq (p : SVDParams ℝ) (hl : p.udiag.length = p.n) : svdDiag realOps p = List.ofFn (svdD p) :=
  list_eq_ofFn _ (by rw [svdDiag_length, hl])

theorem svdD_pos (p : SVDParams ℝ) (hl : p.udiag.length = p.n) (heps : 0 ≤ p.eps) (i : Fin p.n) : 0 < svdD p i := by
  have hi : (i : ℕ) < p.udiag.length := by rw [hl]; exact i.2
  simp only [svdD, vecFn, svdDiag, List.getD_eq_getElem?_getD, List.getElem?_map, List.getElem?_eq_getElem hi,
    Option.map_some, Option.getD_some]
  have := LFIndex.softplus_real_pos (p.udiag[(i : ℕ)])
  show 0 < p.eps + softplus realOps p.udiag[(i : ℕ)]
  linarith

theorem svdWeight_executed (p : SVDParams ℝ) (vs1 vs2 : List (Fin p.n → ℝ)) (h1 : p.qs1 = vs1.map List.ofFn)
    (h2 : p.qs2 = vs2.map List.ofFn) (hl : p.udiag.length = p.n) : svdWeight realOps p = ofMat (svdW p vs1 vs2) := by
  unfold svdWeight svdW
  simp only
  rw [svdDiag_eq p hl, diagM_ofFn, h1, h2, hhInverse_ofMat, transpose_ofMat, hhForward_ofMat, transpose_ofMat,
    LinearFamily.svd_weight]

theorem svdLogabsdet_executed (p : SVDParams ℝ) (vs1 vs2 : List (Fin p.n → ℝ)) (hv1 : ∀ v ∈ vs1, v ⬝ᵥ v ≠ 0)
    (hv2 : ∀ v ∈ vs2, v ⬝ᵥ v ≠ 0) (hl : p.udiag.length = p.n) (heps : 0 ≤ p.eps) :
    svdLogabsdet realOps p = Real.log |(svdW p vs1 vs2).det| := by
  unfold svdLogabsdet sumLog svdW
  rw [← LinearFamily.svd_logabsdet vs1 vs2 hv1 hv2 (svdD p) (svdD_pos p hl heps),
    sum_list _ (by rw [List.length_map, svdDiag_length, hl])]
  apply Finset.sum_congr rfl
  intro i _
  rw [vecFn_map _ _ (by rw [svdDiag_length, hl])]; rfl

theorem svdWeightInverse_executed (p : SVDParams ℝ) (vs1 vs2 : List (Fin p.n → ℝ)) (h1 : p.qs1 = vs1.map List.ofFn)
    (h2 : p.qs2 = vs2.map List.ofFn) (hv1 : ∀ v ∈ vs1, v ⬝ᵥ v ≠ 0) (hv2 : ∀ v ∈ vs2, v ⬝ᵥ v ≠ 0)
    (hl : p.udiag.length = p.n) (heps : 0 ≤ p.eps) :
    ∃ Winv : Matrix (Fin p.n) (Fin p.n) ℝ, svdWeightInverse realOps p = ofMat Winv ∧ Winv * svdW p vs1 vs2 = 1 ∧
      svdW p vs1 vs2 * Winv = 1 := by
  have hw := LinearFamily.svd_weight_inverse vs1 vs2 hv1 hv2 (svdD p) (fun i => (svdD_pos p hl heps i).ne')
  refine ⟨_, ?_, hw, mul_eq_one_comm.mp hw⟩
  unfold svdWeightInverse
  simp only
  have hinv : (svdDiag realOps p).map (fun d => realOps.div (one realOps) d) = List.ofFn (fun j => (svdD p j)⁻¹) := by
    rw [svdDiag_eq p hl, List.map_ofFn]
    congr 1
    funext j
    simp only [Function.comp, LFTriSolve.one_real]
    show 1 / svdD p j = _
    rw [one_div]
  rw [hinv, diagM_ofFn, h1, h2, hhForward_ofMat, transpose_ofMat, hhInverse_ofMat, transpose_ofMat]

theorem svdForward_executed (p : SVDParams ℝ) (vs1 vs2 : List (Fin p.n → ℝ)) (h1 : p.qs1 = vs1.map List.ofFn)
    (h2 : p.qs2 = vs2.map List.ofFn) (hl : p.udiag.length = p.n) (hb : p.bias.length = p.n) (x : Fin p.n → ℝ) :
    svdForward realOps p [List.ofFn x] = [List.ofFn (svdW p vs1 vs2 *ᵥ x + vecFn p.n p.bias)] := by
  unfold svdForward svdW
  simp only
  rw [svdDiag_eq p hl, h1, h2, hhForward_single]
  simp only [List.map_cons, List.map_nil]
  rw [zipWith_ofFn, hhForward_single]
  simp only [List.map_cons, List.map_nil]
  rw [addV_list _ _ hb]
  congr 2
  exact LinearFamily.svd_forward vs1 vs2 (svdD p) _ x

theorem svdInverse_executed (p : SVDParams ℝ) (vs1 vs2 : List (Fin p.n → ℝ)) (h1 : p.qs1 = vs1.map List.ofFn)
    (h2 : p.qs2 = vs2.map List.ofFn) (hv1 : ∀ v ∈ vs1, v ⬝ᵥ v ≠ 0) (hv2 : ∀ v ∈ vs2, v ⬝ᵥ v ≠ 0)
    (hl : p.udiag.length = p.n) (heps : 0 ≤ p.eps) (hb : p.bias.length = p.n) (x : Fin p.n → ℝ) :
    svdInverse realOps p (svdForward realOps p [List.ofFn x]) = [List.ofFn x] := by
  rw [svdForward_executed p vs1 vs2 h1 h2 hl hb]
  unfold svdInverse
  simp only
  rw [svdDiag_eq p hl, h1, h2]
  simp only [List.map_cons, List.map_nil]
  rw [subV_list _ _ hb, hhInverse_single]
  simp only [List.map_cons, List.map_nil]
  rw [zipWith_ofFn, hhInverse_single]
  congr 2
  have hW : svdW p vs1 vs2 *ᵥ x + vecFn p.n p.bias
      = Householder.hhSeq vs1 (fun i => Householder.hhSeq vs2 x i * svdD p i) + vecFn p.n p.bias :=
    (LinearFamily.svd_forward vs1 vs2 (svdD p) _ x).symm
  rw [hW]
  exact LinearFamily.svd_inverse_pass vs1 vs2 hv1 hv2 (svdD p) (vecFn p.n p.bias) x (fun i => (svdD_pos p hl heps i).ne')

/-! ### the freshly constructed Householder sequence -/

/-- real twins of the initial q-vectors: `e_{(r / 2) mod features}` for `r = 0 … num - 1` -/
noncomputable def initVs (features num : ℕ) (hf : 0 < features) : List (Fin features → ℝ) :=
  (List.range num).map (fun r => Pi.single (⟨(r / 2) % features, Nat.mod_lt _ hf⟩ : Fin features) (1 : ℝ))

theorem hhInitQ_real (features num : ℕ) (hf : 0 < features) :
    hhInitQ realOps features num = (initVs features num hf).map List.ofFn := by
  apply List.ext_getElem
  · simp [hhInitQ_length, initVs]
  · intro r h1 h2
    have hr : r < num := by simpa [hhInitQ_length] using h1
    have := hhInitQ_row realOps features num r hr
    rw [List.getD_eq_getElem?_getD, List.getElem?_eq_getElem h1, Option.getD_some] at this
    rw [this, basisRow_real features (r / 2) hf]
    simp [initVs]

theorem initVs_unit (features num : ℕ) (hf : 0 < features) : ∀ v ∈ initVs features num hf, v ⬝ᵥ v = 1 := by
  intro v hv
  simp only [initVs, List.mem_map, List.mem_range] at hv
  obtain ⟨r, _, rfl⟩ := hv
  simp

end LinearBridge
