import NflowsModel.Core.Driver
import NflowsModel.Core.DriverOps
open Lean NF

partial def loop (hIn hOut : IO.FS.Stream) : IO Unit := do
  let line ← hIn.getLine
  if line.isEmpty then return ()
  let out := match Json.parse line with
    | .error e => (Json.mkObj [("e", Json.str ("bad-json: " ++ e))]).compress
    | .ok j =>
      let r := Req.ofJson j
      (dispatchAll r).toJson.compress
  hOut.putStrLn out
  loop hIn hOut

def main : IO Unit := do
  let hIn ← IO.getStdin
  let hOut ← IO.getStdout
  loop hIn hOut
  hOut.flush
