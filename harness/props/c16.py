"""C16 — log_prob and transforms are differentiable with correct gradients (PARTIAL: autograd is trusted for compositions).

Theorems: Properties.C16 (evalDual_sound: forward-mode AD over Expr is sound away from kinks; smoothness of the
executed spline terms in the interior of a bin).  Correspondence: for every modelled transform the gradient autograd
returns w.r.t. the inputs and w.r.t. the conditioner outputs / the layer's own parameters (made leaves) is compared,
along random directions, with the derivative the Lean model computes by dual numbers (`dualX floatX`, precision tag
d64) of the SAME definitions; plus: every trainable parameter receives a gradient, backward succeeds twice."""
import math
import torch
from harness.common import registry as R, tcorr, leandriver, bits, oracles

PROPERTY = 'C16'
LEVEL = 'proof'
REQUIRED_THEOREMS = ['Properties.C16.evalDual_sound', 'Properties.C16.rq_interior_smooth', 'Properties.C16.rq_executed_derivative_is_dual', 'Properties.C16.dual_primitives_sound', 'Properties.C16.tanh_forward_dual', 'Properties.C16.sigmoid_forward_dual', 'Properties.C16.affine_dual', 'Properties.C16.nonlin_dual_value', 'Properties.C16.rq_program_dual',
                     'Properties.C16.rqSpline_inverse_dual', 'Properties.C16.rqSpline_inverse_tangent', 'Properties.C16.rqSpline_param_dual', 'Properties.C16.quadSpline_dual',
                     'Properties.C16.quadSpline_dual_tails_shape', 'Properties.C16.linSpline_dual',
                     'Properties.C16.rqSpline_inverse_param_dual', 'Properties.C16.linSpline_param_dual', 'Properties.C16.quadSpline_param_dual',
                     'Properties.C16.quadSpline_param_dual_tails_shape', 'Properties.C16.coupling_layer_dual', 'Properties.C16.coupling_layer_inverse_dual',
                     'Properties.C16.cubicSpline_dual_whole_open_box', 'Properties.C16.quadSpline_inverse_dual', 'Properties.C16.linSpline_inverse_dual',
                     'Properties.C16.rqTails_dual_every_non_knot', 'Properties.C16.rqTails_inverse_dual_every_non_knot', 'Properties.C16.cubicTails_dual_every_non_junction',
                     'Properties.C16.cubic_inverse_dual_parameter_gradient_wrong',
    "Properties.C16.lu_forward_dual_sound", "Properties.C16.lu_logabsdet_dual_sound", "Properties.C16.lu_logabsdet_dual_sound'", "Properties.C16.lu_forward_not_differentiable_at_threshold", "Properties.C16.batchnorm_eval_dual_sound", "Properties.C16.actnorm_dual_sound", "Properties.C16.actnorm_dual_sound_d2", "Properties.C16.lu_inverse_dual_sound_input",
    "Properties.C16.hh_forward_dual_sound", "Properties.C16.hh_inverse_dual_sound", "Properties.C16.hh_forward_not_differentiable_at_zero_q", "Properties.C16.hh_matrix_dual_sound", "Properties.C16.qr_forward_dual_sound", "Properties.C16.qr_logabsdet_dual_sound", "Properties.C16.qr_inverse_dual_sound", "Properties.C16.qr_weight_dual_sound", "Properties.C16.qr_weight_inverse_dual_sound", "Properties.C16.svd_forward_dual_sound", "Properties.C16.svd_logabsdet_dual_sound", "Properties.C16.svd_inverse_dual_sound", "Properties.C16.svd_forward_not_differentiable_at_threshold", "Properties.C16.svd_weight_dual_sound", "Properties.C16.svd_weight_inverse_dual_sound", "Properties.C16.conv_forward_dual_sound", "Properties.C16.conv_inverse_dual_sound", "Properties.C16.lu_weight_dual_sound", "Properties.C16.lu_weight_inverse_dual_sound",
    "Properties.C16.standard_normal_logprob_dual_sound", "Properties.C16.diagNormal_logprob_dual_sound", "Properties.C16.dualSound_compStage", "Properties.C16.dualSound_luStage", "Properties.C16.dualSound_actStage", "Properties.C16.dualSound_bnEvalStage", "Properties.C16.dualSound_qrStage", "Properties.C16.dualSound_svdStage", "Properties.C16.flowLogProbExec_dual_curve", "Properties.C16.flow_logprob_dual_sound", "Properties.C16.flow_act_lu_logprob_dual_sound", "Properties.C16.flow_act_lu_accepted",
    "Properties.C16.nonlinApply_poly", "Properties.C16.dualSound_nonlinStage_affine", "Properties.C16.dualSound_nonlinStage_exp", "Properties.C16.dualSound_nonlinStage_leakyRelu", "Properties.C16.dualSound_nonlinStage_tanh", "Properties.C16.dualSound_nonlinStage_sigmoid", "Properties.C16.leakyStage_not_dual_sound_at_kink", "Properties.C16.dualSoundOn_compStage", "Properties.C16.dualSoundNet_affNet", "Properties.C16.dualSound_couplingStage_of_el", "Properties.C16.dualSound_couplingStage_affine", "Properties.C16.dualSound_couplingStage_additive", "Properties.C16.flow_glow_block_logprob_dual_sound", "Properties.C16.flow_glow_block_accepted", "Properties.C16.dualSoundNear_compStage", "Properties.C16.flow_logprob_dual_sound_near", "Properties.C16.dualSoundNear_nonlinStage_exp_inv", "Properties.C16.expInvStage_not_dual_sound",
    "Properties.C16.dualSoundOn_couplingStage_of_el", "Properties.C16.rqSplineTails_dual_param_curve", "Properties.C16.dualSound_couplingStage_rqTails", "Properties.C16.flow_logprob_dual_sound_on", "Properties.C16.flow_rq_coupling_logprob_dual_sound", "Properties.C16.couplingAdm_example",]
RULE = ("registry x regimes x directions; leaves = inputs, the recorded conditioner output (replaced by a fresh leaf through a forward hook) or the layer's own "
        "parameters; random cotangents r, r' and 2 random directions per case; compare <autograd grad, direction> with the dual-number tangent of "
        "sum(out*r)+sum(ld*r') from the Lean model; distinct = (entry, regime, direction, dir index); non-trivial = derivative non-zero")
EXPLANATION = "soundness of dual-number evaluation proved once over Expr; the same model definitions are run on dual numbers and compared with torch.autograd on the real code"
ASSUMPTIONS = ["PyTorch autograd is trusted for compositions of built-in ops (structural part of the property)",
               "dual rules of tanh/atan/tan/sin/cos/atan2/abs outside Expr are standard and not covered by evalDual_sound",
               "inputs are drawn away from kinks almost surely; atoms on tail bounds are excluded here"]

M64 = (1 << 64)


def pair_bits(v, t):
    vb = bits.tensor_bits(v.double())
    tb = bits.tensor_bits(t.double())
    return [a + M64 * b for a, b in zip(vb, tb)]


def unpair(ns):
    vals = [bits.bits_f64(n % M64) for n in ns]
    tans = [bits.bits_f64(n // M64) for n in ns]
    return vals, tans


def leaves_job(e, t, x, c, inverse, gen):
    """run the implementation with x and the parameters as leaves; return everything needed for the comparison"""
    x = x.clone().requires_grad_(True)
    cond = R.conditioner_of(t)
    holder = {}
    h = None
    own = []
    if cond is not None:
        def hook(mod, inp, out):
            leaf = out.detach().clone().requires_grad_(True)
            holder.setdefault('p', []).append(leaf)
            holder.setdefault('inp', []).append(inp[0].detach().clone())
            return leaf
        h = cond.register_forward_hook(hook)
    else:
        own = [(n, p) for n, p in t.named_parameters()]
    try:
        f = t.inverse if inverse else t.forward
        if not t.training:
            # an evaluation without autograd comes first (sampling / validation before the training step): whatever it leaves behind
            # must not cut the parameters out of the graph of the next call
            with torch.no_grad():
                f(x.detach().clone(), c) if c is not None else f(x.detach().clone())
            holder.clear()
        y, ld = f(x, c) if c is not None else f(x)
    except Exception as ex:
        if h: h.remove()
        return None
    if h: h.remove()
    r = torch.randn(y.shape, generator=gen, dtype=y.dtype)
    r2 = torch.randn(ld.shape, generator=gen, dtype=ld.dtype)
    L = (y * r).sum() + (ld * r2).sum()
    wrt = [x] + ([holder['p'][-1]] if cond is not None else [p for _, p in own])
    grads = torch.autograd.grad(L, wrt, allow_unused=True)
    return dict(x=x.detach(), y=y.detach(), ld=ld.detach(), r=r, r2=r2, grads=grads, p=(holder['p'][-1].detach() if cond is not None else None),
                own=own, npass=len(holder.get('p', [])))


class FakeRec:
    def __init__(self, p):
        self.calls = [([None], p)]


def correspondence(ctx):
    """thorough tier: several independent generator seeds (the quick tier runs one)"""
    for rep in range(1 if ctx.quick() else 6):
        _correspondence_once(ctx, rep)
        if ctx.elapsed() > 1500:
            break


def _correspondence_once(ctx, rep=0):
    gen = torch.Generator().manual_seed(ctx.seed * 16001 + 16 + 104729 * rep)
    E = R.entries('quick' if ctx.quick() else 'full')
    reqs, metas = [], []
    for e in E:
        for regime in ('fresh', 'normal'):
            t = tcorr.build(e, gen, torch.float64, regime)
            for inverse in (False, True):
                x = R.make_inputs(e, 2, gen, torch.float64, inverse)
                if e.spline.get('B'):
                    # keep away from the tail junction (a kink): resample atoms placed on the bound
                    x = torch.where((x.abs() - e.spline['B']).abs() < 1e-6, x * 0.37, x)
                if not (e.kind == 'nonlin' and e.extra['cls'] == 'LeakyReLU') and (e.dom_inv if inverse else e.dom_fwd) is None and not e.spline:
                    x.view(-1)[0] = 0.0     # exactly zero: a smooth point, but a classic NaN-gradient trap for masked/where code
                c = R.make_context(e, 2, gen, torch.float64)
                J = leaves_job(e, t, x, c, inverse, gen)
                if J is None:
                    continue
                base = R.model_request(e, t, x, c, inverse, FakeRec(J['p']) if J['p'] is not None else None, pass_index=0)
                for d in range(2):
                    dx = torch.randn(x.shape, generator=gen, dtype=torch.float64)
                    if J['p'] is not None:
                        dp = torch.randn(J['p'].shape, generator=gen, dtype=torch.float64)
                        gdot = (J['grads'][0] * dx).sum().item() + ((J['grads'][1] * dp).sum().item() if J['grads'][1] is not None else 0.0)
                    elif e.kind == 'cdf':
                        names = [n for n, _ in J['own']]
                        dps = [torch.randn(p.shape, generator=gen, dtype=torch.float64) for _, p in J['own']]
                        gdot = (J['grads'][0] * dx).sum().item() + sum((g * q).sum().item() for g, q in zip(J['grads'][1:], dps) if g is not None)
                    elif e.kind == 'nonlin' and J['own']:
                        # the layer's own trainable parameters (Sigmoid with learn_temperature)
                        dps = [torch.randn(p.shape, generator=gen, dtype=torch.float64) for _, p in J['own']]
                        gdot = (J['grads'][0] * dx).sum().item()
                        for g, q, (nm, _) in zip(J['grads'][1:], dps, J['own']):
                            if g is None:
                                gdot = float('nan')   # a parameter that influences the result received no gradient
                            else:
                                gdot += (g * q).sum().item()
                    else:
                        dps = []
                        gdot = (J['grads'][0] * dx).sum().item()
                    req = dict(base)
                    req['p'] = 'd64'
                    f = list(base['f'])
                    f[0] = pair_bits(x, dx)
                    if J['p'] is not None:
                        f[1] = pair_bits(J['p'], dp)
                        for k in range(2, len(f)):
                            f[k] = list(f[k])   # mask etc.: zero tangent
                    elif e.kind == 'cdf':
                        import numpy as np
                        from harness.common import splines as S
                        n = int(np.prod(e.in_shape))
                        order = S.PARAM_NAMES[e.spline['fam']]
                        byname = dict(zip([nm for nm, _ in J['own']], dps))
                        P = torch.cat([getattr(t, nm).detach().reshape(n, -1) for nm in order], -1)
                        dP = torch.cat([byname[nm].reshape(n, -1) for nm in order], -1)
                        f[1] = pair_bits(P, dP)
                    elif e.kind == 'nonlin' and J['own'] and e.extra['cls'] == 'Sigmoid' and len(f) > 1 and f[1]:
                        f[1] = pair_bits(t.temperature.detach().reshape(1), dps[0].reshape(1))
                    elif len(f) > 1 and f[1]:
                        f[1] = list(f[1])   # constants of the layer (no trainable parameter): zero tangent
                    req['f'] = f
                    reqs.append(req)
                    metas.append((e, regime, inverse, d, J, gdot))
    resps = leandriver.call(reqs)
    for (e, regime, inverse, d, J, gdot), resp in zip(metas, resps):
        case = {'entry': e.name, 'regime': regime, 'inverse': inverse, 'dir': d, 'x': J['x'].reshape(-1).tolist()[:8]}
        if resp.get('s') and resp['s'][0]:
            ctx.disagree('C16/' + e.kind, case, 'ok', resp['s'][0], 'model raised on an input the implementation accepted')
            continue
        ov, ot = unpair(resp['f'][0])
        lv, lt = unpair(resp['f'][1])
        r = J['r'].reshape(-1).tolist(); r2 = J['r2'].reshape(-1).tolist()
        mdot = sum(a * b for a, b in zip(r, ot)) + sum(a * b for a, b in zip(r2, lt))
        # value agreement first (otherwise the derivative comparison is meaningless)
        yl = J['y'].reshape(-1).tolist()
        vals_ok = len(ov) == len(yl) and all(tcorr.close(a, b, 1e-6, 1e-6) for a, b in zip(yl, ov))
        kap = math.exp(min(40.0, max([abs(v) for v in J['ld'].reshape(-1).tolist()] + [0.0])))
        tol = 1e-6 * (1 + abs(gdot)) + 1e-12 * kap * kap
        if e.spline.get('fam') == 'cubic' and inverse:
            tol = max(tol, 1e-3 * (1 + abs(gdot)))
        if vals_ok and not math.isfinite(mdot) and not math.isfinite(gdot):
            # implementation and model agree that the derivative is not finite: the model mirrors the code, and the
            # property (finite gradients) fails at this input on both -> a concrete failing input, not a disagreement
            ctx.case(key=(e.name, regime, inverse, d, 'nonfinite'), branch='nonfinite-gradient-both', nontrivial=True, n=int(J['x'].numel()))
            ctx.fail('gradient is not finite (autograd and the dual-number model agree)', case,
                     match={'class': e.name.split('/')[0], 'family': e.spline.get('fam'), 'inverse': inverse, 'symptom': 'grad-nonfinite'})
            continue
        ok = vals_ok and math.isfinite(mdot) and abs(mdot - gdot) <= tol
        ctx.case(key=(e.name, regime, inverse, d), branch='%s/%s/%s' % (e.kind, e.name.split('/')[0], 'inv' if inverse else 'fwd'),
                 nontrivial=abs(gdot) > 1e-12,
                 sample=dict(case, autograd=gdot, model_dual=mdot) if len(ctx.samples) < 6 else None, n=int(J['x'].numel()))
        if not ok:
            ctx.disagree('C16/' + e.kind, case, gdot, mdot, 'directional derivative: autograd %r vs dual-number model %r' % (gdot, mdot))
    structural(ctx, gen)
    train_mode_grads(ctx, gen)
    cached_linear_grads(ctx, gen)
    sample_grads(ctx, gen)
    ar_inverse_grads(ctx, gen)


def ar_inverse_grads(ctx, gen, report=None):
    """the D-pass inverse of the autoregressive transforms (each pass re-runs the conditioner on the previous pass's outputs): the
    gradient autograd returns for inputs AND conditioner parameters against central finite differences of the implementation —
    the dual-number model is fed recorded conditioner outputs pass by pass and cannot see a dependence cut between passes"""
    seen = set()
    for e in R.entries('quick'):
        fam = e.spline.get('fam') or e.extra.get('akind')
        if e.kind != 'ar' or (fam, e.ctx is None) in seen or e.spline.get('fam') == 'cubic':
            continue
        seen.add((fam, e.ctx is None))
        t = tcorr.build(e, gen, torch.float64, 'normal')
        y = R.make_inputs(e, 2, gen, torch.float64, True)
        if e.spline.get('B'):
            y = torch.where((y.abs() - e.spline['B']).abs() < 1e-2, y * 0.37, y)
        c = R.make_context(e, 2, gen, torch.float64)
        call = (lambda a: t.inverse(a, c)) if c is not None else (lambda a: t.inverse(a))
        why = ''
        try:
            yg = y.clone().requires_grad_(True)
            x, ld = call(yg)
            r = torch.randn(x.shape, generator=gen, dtype=x.dtype); r2 = torch.randn(ld.shape, generator=gen, dtype=ld.dtype)
            ps = [p for p in t.parameters() if p.requires_grad]
            grads = torch.autograd.grad((x * r).sum() + (ld * r2).sum(), [yg] + ps, allow_unused=True)
            dy = torch.randn(y.shape, generator=gen, dtype=y.dtype); h = 1e-6
            with torch.no_grad():
                xp, lp = call(y + h * dy); xm, lm = call(y - h * dy)
            fd = (((xp - xm) * r).sum() + ((lp - lm) * r2).sum()).item() / (2 * h)
            an = (grads[0] * dy).sum().item() if grads[0] is not None else float('nan')
            if not abs(fd - an) <= 1e-4 * (1 + abs(fd)):
                why = 'input gradient of the inverse: autograd %r vs finite differences %r' % (an, fd)
            else:
                # one random direction in parameter space
                ds = [torch.randn(p.shape, generator=gen, dtype=p.dtype) for p in ps]
                def L():
                    with torch.no_grad():
                        xx, ll = call(y)
                    return ((xx * r).sum() + (ll * r2).sum()).item()
                with torch.no_grad():
                    for p, d in zip(ps, ds): p.add_(h * d)
                    lpv = L()
                    for p, d in zip(ps, ds): p.sub_(2 * h * d)
                    lmv = L()
                    for p, d in zip(ps, ds): p.add_(h * d)
                fdp = (lpv - lmv) / (2 * h)
                anp = sum((g * d).sum().item() for g, d in zip(grads[1:], ds) if g is not None)
                if not abs(fdp - anp) <= 1e-4 * (1 + abs(fdp)):
                    why = 'parameter gradient of the inverse: autograd %r vs finite differences %r' % (anp, fdp)
        except Exception as ex:
            why = 'raised %r' % (ex,)
        case = {'entry': e.name, 'inverse': True, 'x': y.reshape(-1).tolist()[:8]}
        if report is None:
            ctx.case(key=('ar-inverse-grads', e.name), branch='structural/ar-inverse-grads', nontrivial=True, n=int(y.numel()))
            if why:
                ctx.disagree('C16/structural', case, why, 'autograd gradient = finite differences', why)
        elif why:
            report('autoregressive inverse of %s: %s' % (e.name, why), case, {'class': e.name.split('/')[0], 'symptom': 'ar-inverse-grad'})


def sample_grads(ctx, gen, report=None):
    """differentiable sampling (reparameterised draws of a conditional base, alone and under a flow): the gradient of the
    draws with respect to the context equals the gradient of the closed form `mean + std * noise` built from the same noise —
    for 1, 2 and 5 draws per context row (1 is where `repeat_rows` returns a view)"""
    from nflows.distributions import normal
    from nflows.flows.base import Flow
    import nflows.transforms as T
    for shape in ([2], [3]):
        D = shape[0]
        for wrap in ('base', 'flow'):
            for n in (1, 2, 5):
                base = normal.ConditionalDiagonalNormal(shape)
                obj = base if wrap == 'base' else Flow(T.PointwiseAffineTransform(shift=0.5, scale=2.0), base)
                c = torch.randn(3, 2 * D, generator=gen, dtype=torch.float64).requires_grad_(True)
                seed = int(torch.randint(0, 2 ** 31 - 1, (1,), generator=gen))
                why = ''
                try:
                    torch.manual_seed(seed)
                    s = obj.sample(n, c)
                    w = torch.randn(s.shape, generator=gen, dtype=torch.float64)
                    g, = torch.autograd.grad((s * w).sum(), c)
                    c2 = c.detach().clone().requires_grad_(True)
                    torch.manual_seed(seed)
                    noise = torch.randn(3 * n, D, dtype=torch.float64)
                    mean, logstd = c2[:, :D], c2[:, D:]
                    ref = (mean.repeat_interleave(n, 0) + torch.exp(logstd).repeat_interleave(n, 0) * noise).reshape(3, n, D)
                    if wrap == 'flow':
                        ref = (ref - 0.5) / 2.0          # Flow.sample applies the inverse transform
                    if not torch.allclose(s.detach(), ref.detach(), rtol=1e-9, atol=1e-11):
                        raise RuntimeError('reference draw differs (noise stream changed)')   # then only finiteness is checked
                    g2, = torch.autograd.grad((ref * w).sum(), c2)
                    if not torch.isfinite(g).all():
                        why = 'gradient of the draws w.r.t. the context is not finite'
                    elif not torch.allclose(g, g2, rtol=1e-8, atol=1e-10):
                        why = 'gradient of the draws w.r.t. the context differs from that of mean + std * noise (max diff %.3g)' % (g - g2).abs().max().item()
                except RuntimeError as ex:
                    if 'reference draw differs' in str(ex):
                        why = ''
                    else:
                        why = 'raised %r' % (ex,)
                except Exception as ex:
                    why = 'raised %r' % (ex,)
                case = {'class': 'ConditionalDiagonalNormal', 'wrap': wrap, 'num_samples': n, 'event': shape}
                if report is None:
                    ctx.case(key=('sample-grads', wrap, n, D), branch='structural/sample-grads', nontrivial=True)
                    if why:
                        ctx.disagree('C16/structural', case, why, 'gradient of mean + std * noise', why)
                elif why:
                    report('sample(%d, context) of %s: %s' % (n, wrap, why), case, {'class': 'ConditionalDiagonalNormal', 'symptom': 'sample-grad', 'num_samples': n})


STRUCT_EXTRAS = ('ActNormFresh/3', 'BatchNormFresh/3', 'ActNorm/2', 'BatchNorm/2', 'LULinear/2', 'QRLinear/2', 'SVDLinear/2', 'NaiveLinear/2',
                 'Householder/2', 'OneByOneConvolution', 'Composite', 'CompositeTiedParts', 'LULinear/4', 'SVDLinear/4')


def structural(ctx, gen, report=None):
    """every trainable parameter that influences the result receives a gradient ON EVERY CALL — the very first training-mode call of a
    fresh layer, a call that follows an evaluation under torch.no_grad() ('eval+warm': sampling / validation before the training step) —
    backward succeeds twice; gradients are finite and, the inputs and parameters being the same, equal on both calls"""
    ents = [e for e in R.entries('quick') if not (ctx.quick() and (hash(e.name) % 3))]
    ents += [e for e in oracles.extra_entries() if e.name in STRUCT_EXTRAS]
    for e in ents:
        for mode in ('train', 'eval', 'eval+warm'):
            t = tcorr.build(e, gen, torch.float64, 'normal')
            t.train(mode == 'train')
            x = R.make_inputs(e, 4, gen, torch.float64, False).requires_grad_(True)
            c = R.make_context(e, 4, gen, torch.float64)
            ok = True; why = ''
            try:
                if mode == 'eval+warm':
                    with torch.no_grad():
                        t(x.detach().clone(), c) if c is not None else t(x.detach().clone())
                        if hasattr(t, 'inverse') and e.kind != 'ar':
                            try:
                                t.inverse(x.detach().clone(), c) if c is not None else t.inverse(x.detach().clone())
                            except Exception:
                                pass
                seen = []
                held = [(n, p) for n, p in t.named_parameters() if p.requires_grad]     # as an optimiser built before the first call holds them
                for rep in range(2):
                    t.zero_grad(); x.grad = None
                    for _, p in held:
                        p.grad = None
                    torch.manual_seed(4242)          # same dropout masks on both calls
                    y, ld = t(x, c) if c is not None else t(x)
                    (y.sum() + ld.sum()).backward()
                    missing = [n for n, p in t.named_parameters() if p.requires_grad and p.grad is None]
                    missing += ['%s (the parameter object held since before the first call)' % n for n, p in held if p.grad is None and (n + ' ') not in ' '.join(missing) + ' ']
                    nonfinite = [n for n, p in t.named_parameters() if p.grad is not None and not torch.isfinite(p.grad).all()]
                    if missing or nonfinite or x.grad is None or not torch.isfinite(x.grad).all():
                        ok = False; why = 'call %d: missing grads %s non-finite %s' % (rep + 1, missing[:4], nonfinite[:4]); break
                    seen.append({n: p.grad.detach().clone() for n, p in t.named_parameters() if p.grad is not None})
                if ok and len(seen) == 2:
                    for n in seen[0]:
                        if n in seen[1] and not torch.allclose(seen[0][n], seen[1][n], rtol=1e-7, atol=1e-9):
                            ok = False; why = 'gradient of %s on the first call (%s) differs from the second call on the same inputs (%s)' % (
                                n, seen[0][n].reshape(-1)[:3].tolist(), seen[1][n].reshape(-1)[:3].tolist()); break
            except Exception as ex:
                ok = False; why = 'backward raised %r' % (ex,)
            case = {'entry': e.name, 'mode': mode, 'x': x.detach().reshape(-1).tolist()[:12]}
            if report is None:
                ctx.case(key=('structural', e.name, mode), branch='structural/' + mode, nontrivial=True)
                if not ok:
                    ctx.disagree('C16/structural', case, why, 'all parameters receive finite gradients on every call, backward twice', why)
            elif not ok:
                report('%s (%s): %s' % (e.name, mode, why), case, {'class': e.name.split('/')[0], 'symptom': 'structural', 'mode': mode})


def train_mode_grads(ctx, gen, report=None):
    """training mode: the batch statistics of a normalisation layer are part of the function being differentiated — gradients w.r.t.
    the inputs (and hence w.r.t. every earlier layer's parameters) flow through the batch mean and variance.  autograd vs central finite
    differences of the same training-mode call, float64"""
    import nflows.transforms as T
    from nflows.flows.realnvp import SimpleRealNVP
    def rnvp():
        f = SimpleRealNVP(features=3, hidden_features=6, num_layers=2, num_blocks_per_layer=1, batch_norm_between_layers=True)
        return f._transform
    for name, mk, shape in (('BatchNorm', lambda: T.BatchNorm(3), (6, 3)), ('BatchNorm/momentum', lambda: T.BatchNorm(2, momentum=0.5, affine=True), (5, 2)),
                            ('SimpleRealNVP(batch_norm_between_layers)', rnvp, (6, 3)),
                            ('Composite[LULinear, BatchNorm]', lambda: T.CompositeTransform([T.LULinear(3, identity_init=False), T.BatchNorm(3)]), (6, 3))):
        torch.manual_seed(int(torch.randint(0, 2 ** 31 - 1, (1,), generator=gen)))
        t = mk().double()
        R.perturb(t, 'normal', gen)
        t.train()
        x = (1.5 * torch.randn(shape, generator=gen, dtype=torch.float64) + 0.7)
        r = torch.randn(shape, generator=gen, dtype=torch.float64); r2 = torch.randn(shape[0], generator=gen, dtype=torch.float64)
        def L(a):
            y, ld = t(a)
            return (y * r).sum() + (ld * r2).sum()
        why = None
        try:
            xg = x.clone().requires_grad_(True)
            g, = torch.autograd.grad(L(xg), xg)
            d = torch.randn(shape, generator=gen, dtype=torch.float64)
            h = 1e-6
            with torch.no_grad():
                fd = (L(x + h * d).item() - L(x - h * d).item()) / (2 * h)
            an = float((g * d).sum())
            if not abs(fd - an) <= 1e-5 * (1 + abs(fd)):
                why = 'training-mode gradient w.r.t. the inputs: autograd %.9g vs central finite difference %.9g' % (an, fd)
        except Exception as ex:
            why = 'raised %r' % (ex,)
        case = {'class': name, 'mode': 'train', 'x': x.reshape(-1).tolist()[:12]}
        if report is None:
            ctx.case(key=('train-grads', name), branch='structural/train-mode-grads', nontrivial=True)
            if why:
                ctx.disagree('C16/structural', case, why, 'autograd = finite differences', why)
        elif why:
            report('%s: %s' % (name, why), case, {'class': name.split('(')[0].split('/')[0], 'symptom': 'train-mode-grad!=fd'})


def cached_linear_grads(ctx, gen):
    """linear family in eval mode with the weight cache on: parameter gradients through the cached path (first cached call
    = inverse, then forward in a fresh cache epoch) must equal those of the uncached path"""
    import copy
    import nflows.transforms as T
    for name, build in (('LULinear', lambda: T.LULinear(3, identity_init=False)), ('QRLinear', lambda: T.QRLinear(3, num_householder=2)),
                        ('SVDLinear', lambda: T.SVDLinear(3, num_householder=2, identity_init=False)), ('NaiveLinear', lambda: T.NaiveLinear(3))):
        torch.manual_seed(int(torch.randint(0, 2 ** 31 - 1, (1,), generator=gen)))
        t = build().double()
        with torch.no_grad():
            for p in t.parameters():
                p.add_(0.3 * torch.randn(p.shape, generator=gen, dtype=p.dtype))
        ref = copy.deepcopy(t)
        x = torch.randn(4, 3, generator=gen, dtype=torch.float64)
        for first in ('inverse', 'forward'):
            t.train(); t.eval(); t.use_cache(True); ref.eval(); ref.use_cache(False)
            t.zero_grad(); ref.zero_grad()
            why = ''
            try:
                ya, la = (t.inverse(x) if first == 'inverse' else t(x))
                (ya.sum() + la.sum()).backward()
                yb, lb = (ref.inverse(x) if first == 'inverse' else ref(x))
                (yb.sum() + lb.sum()).backward()
                for (n, p), (_, q) in zip(t.named_parameters(), ref.named_parameters()):
                    if q.grad is not None and q.grad.abs().max() > 0:
                        if p.grad is None:
                            why = 'parameter %s receives no gradient through the cached %s' % (n, first); break
                        if not torch.allclose(p.grad, q.grad, rtol=1e-8, atol=1e-10):
                            why = 'gradient of %s through the cached %s differs from the uncached one' % (n, first); break
            except Exception as ex:
                why = 'raised %r' % (ex,)
            ctx.case(key=('cached-grads', name, first), branch='structural/cached-linear', nontrivial=True)
            if why:
                ctx.disagree('C16/structural', {'class': name, 'first_cached_call': first}, why, 'same parameter gradients as the uncached transform', why)


def search(ctx):
    """central finite differences of the implementation in float64 away from kinks"""
    sample_grads(ctx, torch.Generator().manual_seed(ctx.seed + 161), report=lambda what, case, match: ctx.fail(what, case, match=match))
    ar_inverse_grads(ctx, torch.Generator().manual_seed(ctx.seed + 162), report=lambda what, case, match: ctx.fail(what, case, match=match))
    train_mode_grads(ctx, torch.Generator().manual_seed(ctx.seed + 164), report=lambda what, case, match: ctx.fail(what, case, match=match))
    seen_st = set()
    structural(ctx, torch.Generator().manual_seed(ctx.seed + 163),
               report=lambda what, case, match: (ctx.fail(what, case, match=match), seen_st.add(match['class'])) if match['class'] not in seen_st else None)
    gen = torch.Generator().manual_seed(ctx.seed + 1616)
    for e in oracles.all_entries('quick'):
        try:
            t = tcorr.build(e, gen, torch.float64, 'normal')
            for inverse in (False, True):
                if inverse and (e.name.startswith('Squeeze') or 'UMNN' in e.name):
                    continue
                x = R.make_inputs(e, 2, gen, torch.float64, inverse)
                if e.spline.get('B'):
                    x = torch.where((x.abs() - e.spline['B']).abs() < 1e-3, x * 0.37, x)
                if e.kind == 'nonlin' and e.extra.get('cls') != 'LeakyReLU' and (e.dom_inv if inverse else e.dom_fwd) is None:
                    x.view(-1)[0] = 0.0     # exactly zero: a smooth point of these maps, and the classic NaN-gradient trap of where()/masked code
                c = R.make_context(e, 2, gen, torch.float64)
                f = t.inverse if inverse else t.forward
                call = (lambda a: f(a, c)) if c is not None else (lambda a: f(a))
                xg = x.clone().requires_grad_(True)
                try:
                    y, ld = call(xg)
                except Exception:
                    continue
                r = torch.randn(y.shape, generator=gen, dtype=y.dtype); r2 = torch.randn(ld.shape, generator=gen, dtype=ld.dtype)
                L = (y * r).sum() + (ld * r2).sum()
                g, = torch.autograd.grad(L, xg, allow_unused=True)
                cls = e.name.split('/')[0]
                case = {'entry': e.name, 'inverse': inverse, 'x': x.reshape(-1).tolist()[:12]}
                if g is None or not torch.isfinite(g).all():
                    ctx.fail('gradient w.r.t. inputs missing or non-finite', case, match={'class': cls, 'family': e.spline.get('fam'), 'inverse': inverse, 'symptom': 'grad-nonfinite'}); continue
                dx = torch.randn(x.shape, generator=gen, dtype=x.dtype)
                h = 1e-6
                with torch.no_grad():
                    yp, lp = call(x + h * dx); ym, lm = call(x - h * dx)
                fd = (((yp - ym) * r).sum() + ((lp - lm) * r2).sum()).item() / (2 * h)
                an = (g * dx).sum().item()
                if abs(fd - an) > 1e-4 * (1 + abs(an)) + (1e-2 if e.spline.get('fam') == 'cubic' else 0) + (0.15 * (1 + abs(an)) if 'UMNN' in e.name else 0):  # UMNN: third-party quadrature, Leibniz-rule gradient of a 30-step rule
                    ctx.fail('gradient differs from central finite difference: autograd %r vs fd %r' % (an, fd), case, match={'class': cls, 'symptom': 'grad!=fd'})
        except Exception as ex:
            ctx.notes.append('C16 oracle on %s raised %r' % (e.name, ex))
        if len(ctx.failing) >= 6 or ctx.elapsed() > 900:
            break
    # gradients w.r.t. the layers' own trainable parameters against central finite differences
    for e in oracles.all_entries('quick'):
        if R.conditioner_of(e.build()) is not None or e.extra.get('big') or 'UMNN' in e.name:
            continue
        try:
            t = tcorr.build(e, gen, torch.float64, 'normal')
            ps = [p for p in t.parameters() if p.requires_grad]
            if not ps:
                continue
            x = R.make_inputs(e, 2, gen, torch.float64, False)
            if e.spline.get('B'):
                x = torch.where((x.abs() - e.spline['B']).abs() < 1e-3, x * 0.37, x)
            c = R.make_context(e, 2, gen, torch.float64)
            def L():
                # a fresh cache epoch for every evaluation: finite differences move the parameters between calls (in a training step the
                # framework does that through train()); the gradient itself still goes through the cached path of that epoch
                for sub in t.modules():
                    if hasattr(sub, 'cache') and hasattr(sub.cache, 'invalidate'):
                        sub.cache.invalidate()
                y, ld = t(x, c) if c is not None else t(x)
                return y.sum() + 0.7 * ld.sum()
            t.zero_grad()
            with torch.no_grad():
                L()                       # an evaluation without autograd first
            grads = torch.autograd.grad(L(), ps, allow_unused=True)
            for p, g in zip(ps, grads):
                d = torch.randn(p.shape, generator=gen, dtype=p.dtype)
                h = 1e-6
                with torch.no_grad():
                    p.add_(h * d); lp = L().item(); p.sub_(2 * h * d); lm = L().item(); p.add_(h * d)
                fd = (lp - lm) / (2 * h)
                an = (g * d).sum().item() if g is not None else 0.0
                if abs(fd - an) > 1e-4 * (1 + abs(fd)) + (1e-2 if e.spline.get('fam') == 'cubic' else 0):
                    ctx.fail('gradient w.r.t. a trainable parameter differs from finite differences: autograd %r vs fd %r' % (an, fd),
                             {'entry': e.name, 'x': x.reshape(-1).tolist()[:8]}, match={'class': e.name.split('/')[0], 'symptom': 'param-grad!=fd'})
                    break
        except Exception as ex:
            ctx.notes.append('C16 parameter oracle on %s raised %r' % (e.name, ex))
        if len(ctx.failing) >= 8 or ctx.elapsed() > 1200:
            break
    # cached linear family: parameter gradients through the cached path
    class _C:   # collect as failing inputs instead of disagreements
        pass
    before = len(ctx.disagreements)
    cached_linear_grads(ctx, gen)
    for dgr in ctx.disagreements[before:]:
        ctx.fail(dgr['why'], dgr['case'], match={'class': dgr['case'].get('class'), 'symptom': 'cached-param-grad'})
    del ctx.disagreements[before:]


def replay_finding(ctx, f):
    return oracles.replay_transform_finding(ctx, f)
