"""C09 — spline transformers are increasing bijections of their box, identity in tails.

Theorems: Properties.C09 (knots valid, bin search, per-bin monotone/end-points for the executed Expr terms,
K-bin assembly strictly increasing with pinned end-points, tails identity on the executable model).
Correspondence: the four families x K x boxes / tail bounds x parameter regimes, inputs concentrated on knots,
their nextafter neighbours, end-points and the tail junction; observable = outputs."""
import math, itertools
import torch
from harness.common import splines as S, leandriver, bits

PROPERTY = 'C09'
LEVEL = 'proof'
REQUIRED_THEOREMS = ['Properties.C09.exec_knots_valid', 'Properties.C09.knots_valid', 'Properties.C09.binSearch_spec', 'Properties.C09.spline_strictMonoOn',
                     'Properties.C09.spline_maps_endpoints', 'Properties.C09.spline_mapsTo_box',
                     'Properties.C09.rq_executed_strictMonoOn', 'Properties.C09.tails_identity', 'Properties.C09.exec_linear_cdf_valid', 'Properties.C09.exec_unit_locs_valid', 'Properties.C09.rq_program_strictMonoOn', 'Properties.C09.rq_program_endpoints', 'Properties.C09.rq_program_mapsTo', 'Properties.C09.rq_program_inverse_bijection', 'Properties.C09.cubic_program_bijection', 'Properties.C09.quad_program_bijection', 'Properties.C09.quad_tails_program_bijection', 'Properties.C09.rq_tails_program_whole_line', 'Properties.C09.quad_tails_program_whole_line', 'Properties.C09.cubic_tails_program_whole_line', 'Properties.C09.quad_program_inverse_bijection', 'Properties.C09.cubic_program_inverse_bijection', 'Properties.C09.linear_program_bijection']
RULE = ("cases = (family, tails, K, parameter regime, box/tail bound, atom kind) with per-element parameter rows; "
        "atoms: every knot (independent torch recomputation), nextafter neighbours, end-points, tail junction +-1ulp, far tails, "
        "random interior; a case is non-trivial when the model output differs from the input (not the identity) and distinct by "
        "(family, tails, K, regime, atom kind, direction)")
EXPLANATION = "proof over the reals of monotonicity/end-points/tails for every K and parameter value; tie = differential run of the same Lean definitions against the spline functions"
ASSUMPTIONS = ["inputs are finite floats; NaN inputs are not generated"]


def _atoms(fam, params, tails, box, B, gen, dtype):
    """-> x [R, A] and atom kinds [A]"""
    R = params[0].shape[0]
    kn = S.knots_x(fam, params, tails, box, B)            # [R, K+1]
    K1 = kn.shape[1]
    inf = torch.tensor(float('inf'), dtype=dtype)
    cols, kinds = [], []
    lo, hi = (-B, B) if tails else (box[0], box[1])
    for k in range(K1):
        c = kn[:, k].clamp(lo, hi)
        cols.append(c); kinds.append('knot')
        cols.append(torch.nextafter(c, inf).clamp(lo, hi)); kinds.append('knot+')
        cols.append(torch.nextafter(c, -inf).clamp(lo, hi)); kinds.append('knot-')
    for v, kd in ((lo, 'left'), (hi, 'right')):
        cols.append(torch.full((R,), v, dtype=dtype)); kinds.append(kd)
    for _ in range(4):
        cols.append(lo + (hi - lo) * torch.rand(R, dtype=dtype, generator=gen)); kinds.append('interior')
    if tails:
        b = torch.tensor(B, dtype=dtype)
        for v, kd in ((torch.nextafter(b, inf), 'junction+'), (-torch.nextafter(b, inf), 'junction-'),
                      (b + 1, 'tail'), (-b - 1, 'tail'), (b * 1000, 'fartail')):
            cols.append(v.expand(R).clone()); kinds.append(kd)
    return torch.stack(cols, 1), kinds


def configs(ctx):
    Ks = [1, 2, 3, 5, 10] if ctx.quick() else [1, 2, 3, 4, 5, 8, 10, 16]
    regimes = ['zeros', 'normal', 'wide', 'onehot']
    boxes = [(0.0, 1.0, 0.0, 1.0), (-1.5, 2.0, 0.25, 4.0)] if ctx.quick() else \
        [(0.0, 1.0, 0.0, 1.0), (-1.5, 2.0, 0.25, 4.0), (-100.0, 100.0, -1e-2, 1e-2), (3.0, 3.5, -7.0, -2.0)]
    tbs = [1.0, 3.0] if ctx.quick() else [0.5, 1.0, 3.0, 10.0, 100.0]
    for fam in S.FAMS:
        for K in Ks:
            for regime in regimes:
                for box in boxes:
                    yield fam, False, K, regime, box, None, None
                for B in tbs:
                    yield fam, True, K, regime, None, B, None
    # non-default minimal widths / heights / derivatives (the exported functions accept them)
    for fam in ('rq', 'quad', 'cubic'):
        for K in (2, 5):
            for regime in ('normal', 'onehot', 'wide'):
                for mins in ({'min_bin_width': 0.02, 'min_bin_height': 0.05}, {'min_bin_width': 0.1, 'min_bin_height': 1e-3}):
                    ex = dict(mins)
                    if fam == 'rq':
                        ex['min_derivative'] = 0.05
                    yield fam, False, K, regime, boxes[1], None, ex
                    yield fam, True, K, regime, None, tbs[-1], ex
    for K in (2, 5):
        for regime in ('zeros', 'normal', 'steep'):
            yield 'rq', True, K, regime, None, 1.0, {'enable_identity_init': True}
        yield 'rq', True, K, 'steep', None, 3.0, None
        yield 'rq', False, K, 'steep', (-1.5, 2.0, 0.25, 4.0), None, None
    # the constructor-level guard `min_bin_* x num_bins <= 1` is about the NORMALISED bins, whatever the size of the box: just above it
    # every call is refused (ValueError), just below it accepted — on wide boxes, on boxes narrower than one, with tails
    for fam in ('rq', 'quad', 'cubic'):
        for (K, mw, mh) in ((12, 0.1, 1e-3), (12, 1e-3, 0.1), (5, 0.19, 0.19), (4, 0.25, 0.25), (5, 0.21, 1e-3)):
            ex = {'min_bin_width': mw, 'min_bin_height': mh}
            for box in ((-3.0, 3.0, -3.0, 3.0), (0.0, 0.5, 0.0, 0.25), (0.0, 1.0, 0.0, 1.0)):
                yield fam, False, K, 'normal', box, None, dict(ex)
            yield fam, True, K, 'normal', None, 3.0, dict(ex)
            yield fam, True, K, 'zeros', None, 0.4, dict(ex)


def run_config(ctx, fam, tails, K, regime, box, B, gen, dtype=torch.float64, R=3, directions=(False, True), extra=None):
    params = S.make_params(fam, R, K, tails, regime, dtype, gen)
    x, kinds = _atoms(fam, params, tails, box, B, gen, dtype)
    A = x.shape[1]
    flatp = [p.repeat_interleave(A, 0) for p in params]
    xf = x.reshape(-1)
    out = []
    for inverse in directions:
        if inverse:
            # in-range inputs of the inverse: push the forward atoms through the implementation
            kind, y, _ = S.impl_call(fam, xf, flatp, False, tails, box, B, extra=extra)
            if kind != 'ok':
                continue
            lo, hi = (-B, B) if tails else (box[2], box[3])
            xin = y.detach().clone()
            if not tails:
                xin = xin.clamp(lo, hi)
        else:
            xin = xf
        out.append((inverse, xin, flatp, kinds, A))
    return out


def tol(y, fam=None, inverse=False):
    # the cubic inverse (trigonometric / Cardano roots) is only accurate to ~sqrt(ulp) near a vanishing
    # discriminant, in the implementation and in the model alike (libm differences are amplified)
    if fam == 'cubic' and inverse:
        return 2e-6 * (1.0 + abs(y))
    return 2e-9 * (1.0 + abs(y))


def correspondence(ctx):
    """thorough tier: several independent generator seeds (the quick tier runs one)"""
    for rep in range(1 if ctx.quick() else 6):
        _correspondence_once(ctx, rep)
        if ctx.elapsed() > 1500:
            break


def _correspondence_once(ctx, rep=0):
    gen = torch.Generator().manual_seed(ctx.seed * 7919 + 9 + 104729 * rep)
    reqs, metas = [], []
    if rep == 0:
        long_grids(ctx, gen, count=True)
    for (fam, tails, K, regime, box, B, extra) in configs(ctx):
        cfg = S.defaults(fam, tails)
        if extra:
            cfg.update(extra)
        refused = fam != 'lin' and (cfg.get('min_bin_width', 0) * K > 1.0 or cfg.get('min_bin_height', 0) * K > 1.0)   # documented: ValueError
        if not refused and not S.side_conditions(fam, tails, K, cfg):
            ctx.proof_broken.append('side conditions of Properties.C09.knots_valid fail for the defaults read from the code: %s %s' % (fam, cfg))
        for (inverse, xin, flatp, kinds, A) in run_config(ctx, fam, tails, K, regime, box, B, gen, extra=extra):
            # usage order: a single-precision call with the same bin count comes first (state kept between calls must not leak a dtype)
            k32, y32, _ = S.impl_call(fam, xin.float(), [p.float() for p in flatp], inverse, tails,
                                      box, B, extra=extra)
            if k32 == 'ok' and y32.dtype != torch.float32:
                ctx.disagree('spline/' + fam, {'fam': fam, 'tails': tails, 'K': K, 'inverse': inverse}, str(y32.dtype), 'float32', 'float32 inputs returned another dtype')
            kind, y, ld = S.impl_call(fam, xin, flatp, inverse, tails, box, B, extra=extra)
            # same values as a dense non-contiguous 2-D tensor: same function
            if kind == 'ok' and A > 1 and xin.numel() // A > 1:
                xn = xin.reshape(-1, A).t().contiguous().t()
                pn = [q.reshape(xn.shape[0], A, -1) for q in flatp]
                kn_, yn, ldn = S.impl_call(fam, xn, pn, inverse, tails, box, B, extra=extra)
                bad = kn_ != 'ok'
                if not bad:
                    cnd = 1e-12 * torch.exp(ld.abs().clamp(max=60)) * (1 + xin.abs())
                    fin = torch.isfinite(y) & torch.isfinite(ld)
                    bad = tuple(yn.shape) != tuple(xn.shape) or bool((((yn.reshape(-1) - y).abs() > 2e-9 * (1 + y.abs()) + cnd) & fin).any()) \
                        or bool((((ldn.reshape(-1) - ld).abs() > 1e-6 * (1 + ld.abs()) + 1e3 * cnd) & fin).any())
                if bad:
                    ctx.disagree('spline/' + fam, {'fam': fam, 'tails': tails, 'K': K, 'regime': regime, 'inverse': inverse, 'layout': 'noncontiguous'},
                                 kn_, kind, 'the same values passed as a dense non-contiguous tensor give a different result')
            reqs.append(S.model_req(fam, xin, flatp, inverse, tails, box, B, cfg=extra))
            metas.append((fam, tails, K, regime, (box, tuple(sorted((extra or {}).items()))), B, inverse, xin, kinds, A, kind, y))
    resps = leandriver.call(reqs)
    for meta, resp in zip(metas, resps):
        fam, tails, K, regime, box, B, inverse, xin, kinds, A, kind, y = meta
        my, mld, merr, alts = S.model_result(resp, 'f64')
        n = xin.numel()
        box, extra_items = box
        case = {'fam': fam, 'tails': tails, 'K': K, 'regime': regime, 'box': box, 'tail_bound': B, 'inverse': inverse, 'extra': dict(extra_items)}
        if kind != 'ok':
            bad = [e for e in merr if e]
            ctx.case(key=('err', fam, tails, K, regime, inverse, kind), branch='error:' + kind, n=n, sample=dict(case, impl=kind))
            if not bad or any(e != kind for e in bad):
                ctx.disagree('spline/' + fam, case, kind, sorted(set(merr)), 'implementation raised, model did not (or different kind)')
            continue
        yl = y.tolist()
        xl = xin.tolist()
        for i in range(n):
            kd = kinds[i % A]
            if merr[i]:
                ctx.disagree('spline/' + fam, dict(case, x=xl[i], atom=kd), yl[i], merr[i], 'model raised, implementation returned a value')
                ctx.case(n=1, branch='disagree')
                continue
            cands = [my[i]] + (alts[i] if i < len(alts) else [])
            # conditioning: one ulp of the input moves the output by ulp * |dy/dx| = ulp * exp(logabsdet) (the model reports it)
            kap = 1e-15 * math.exp(min(60.0, abs(mld[i]))) * (1.0 + abs(xl[i])) if math.isfinite(mld[i]) else float('inf')
            if inverse and kd.startswith('knot'):
                # at a knot the two sides may pick neighbouring bins (inputs within an ulp of the knot); the inverse is only as
                # continuous there as the flatter neighbour allows: use the worst conditioning among the adjacent atoms
                for jn in range(max(0, i - 3), min(n, i + 4)):
                    if math.isfinite(mld[jn]):
                        kap = max(kap, 1e-15 * math.exp(min(60.0, abs(mld[jn]))) * (1.0 + abs(xl[i])))
                    else:
                        kap = float('inf')
            ok = any(abs(c - yl[i]) <= tol(yl[i], fam, inverse) + kap or (math.isnan(c) and math.isnan(yl[i])) for c in cands)
            nontrivial = abs(yl[i] - xl[i]) > 1e-12
            ctx.case(key=(fam, tails, K, regime, kd, inverse, extra_items), branch='%s/%s/%s' % (fam, 'tails' if tails else 'box', kd),
                     nontrivial=nontrivial,
                     sample=dict(case, x=xl[i], atom=kd, impl=yl[i], model=my[i]) if i == 3 and len(ctx.samples) < 6 else None)
            if not ok:
                ctx.disagree('spline/' + fam, dict(case, x=xl[i], x_bits=bits.f64_bits(xl[i]), atom=kd, row=i), yl[i], my[i],
                             'outputs differ by %.3e' % abs(my[i] - yl[i]))


# ---- the property's own oracle, used only to search for a failing input once something broke ----------------
def oracle_config(ctx, fam, tails, K, regime, box, B, extra, gen, npts=64):
    dtype = torch.float64
    params = S.make_params(fam, 1, K, tails, regime, dtype, gen)
    lo, hi = (-B, B) if tails else (box[0], box[1])
    bot, top = (-B, B) if tails else (box[2], box[3])
    kn = S.knots_x(fam, params, tails, box, B)[0].clamp(lo, hi)
    inf = torch.tensor(float('inf'), dtype=dtype)
    grid = torch.cat([torch.linspace(lo, hi, npts, dtype=dtype), kn, torch.nextafter(kn, inf).clamp(lo, hi),
                      torch.nextafter(kn, -inf).clamp(lo, hi)])
    grid = torch.sort(grid).values
    fl = [p.expand(grid.numel(), -1) for p in params]
    # usage order: single precision first, both directions (state kept between calls must not leak a dtype or values)
    for inv32 in (False, True):
        k32, y32, _ = S.impl_call(fam, (torch.linspace(bot, top, 8) if inv32 else torch.linspace(lo, hi, 8)).float(),
                                  [p.float().expand(8, -1) for p in params], inv32, tails, box, B, extra=extra)
    kind, y, ld = S.impl_call(fam, grid, fl, False, tails, box, B, extra=extra)
    case = {'fam': fam, 'tails': tails, 'K': K, 'regime': regime, 'box': box, 'tail_bound': B, 'extra': extra,
            'params_bits': [bits.tensor_bits(p) for p in params]}
    if kind == 'ok' and not (fam == 'quad' and tails and K == 1):
        # the same points as a dense non-contiguous 2-D tensor
        n2 = grid.numel() // 2
        xn = grid[:2 * n2].reshape(2, n2).t().contiguous().t()
        kn_, yn, ldn = S.impl_call(fam, xn, [p.expand(2, n2, -1) for p in params], False, tails, box, B, extra=extra)
        if kn_ != 'ok' or (torch.isfinite(y).all() and ((yn.reshape(-1) - y[:2 * n2]).abs().max() > 1e-7 * (1 + abs(top) + abs(bot))
                                                          or (torch.isfinite(ld).all() and (ldn.reshape(-1) - ld[:2 * n2]).abs().max() > 1e-5))):
            j = 0 if kn_ != 'ok' else int(torch.argmax((yn.reshape(-1) - y[:2 * n2]).abs() + (ldn.reshape(-1) - ld[:2 * n2]).abs()))
            ctx.fail('a dense non-contiguous input tensor gives a different result (%s): x=%r contiguous f(x)=%r, non-contiguous %r'
                     % (kn_, grid[j].item(), y[j].item(), None if kn_ != 'ok' else yn.reshape(-1)[j].item()),
                     dict(case, x=grid[j].item(), layout='t().contiguous().t()'), match={'fam': fam, 'symptom': 'layout'}); return
    d0 = S.defaults(fam, tails); d0.update(extra or {})
    if fam != 'lin' and (d0.get('min_bin_width', 0) * K > 1.0 or d0.get('min_bin_height', 0) * K > 1.0):
        # the minimal bins do not fit: the documented outcome is a ValueError, whatever the size of the box
        if kind != 'ValueError':
            ctx.fail('a configuration whose minimal bins do not fit (num_bins x minimum > 1) is accepted (%s)' % kind, case, match={'fam': fam, 'symptom': 'guard-accepts'})
        return
    if fam == 'quad' and tails and K == 1:
        return  # known finding F27 (listed under C17): constructed without complaint, every call raises IndexError
    if kind != 'ok':
        ctx.fail('in-domain grid rejected with %s' % kind, case, match={'fam': fam, 'symptom': 'raises'})
        return
    t = 1e-7 * (1 + abs(top) + abs(bot))
    if not torch.isfinite(ld).all():
        ctx.fail('non-finite log-abs-det inside the box', case, match={'fam': fam, 'symptom': 'non-finite-ld'}); return
    if not torch.isfinite(y).all():
        ctx.fail('non-finite output inside the box', case, match={'fam': fam, 'symptom': 'non-finite'}); return
    dy = y[1:] - y[:-1]
    dx = grid[1:] - grid[:-1]
    if (dy < -t).any():
        j = int(torch.argmin(dy)); ctx.fail('output decreases: f(%r)=%r > f(%r)=%r' % (grid[j].item(), y[j].item(), grid[j+1].item(), y[j+1].item()), case, match={'fam': fam, 'symptom': 'not-monotone'}); return
    big = dx > 1e-3 * (hi - lo)
    if (dy[big] <= 0).any():
        ctx.fail('not strictly increasing across a grid step', case, match={'fam': fam, 'symptom': 'not-strict'}); return
    if (y < bot - t).any() or (y > top + t).any():
        ctx.fail('output leaves the output interval', case, match={'fam': fam, 'symptom': 'leaves-box'}); return
    if abs(y[0].item() - bot) > t or abs(y[-1].item() - top) > t:
        ctx.fail('end-points not mapped to end-points: f(lo)=%r f(hi)=%r' % (y[0].item(), y[-1].item()), case, match={'fam': fam, 'symptom': 'endpoints'}); return
    # continuity: neighbours one ulp apart must be within tolerance (scaled by the largest slope seen)
    close = dx <= 4 * torch.finfo(dtype).eps * (1 + grid[1:].abs())
    if (dy[close].abs() > t).any():
        ctx.fail('jump at a knot', case, match={'fam': fam, 'symptom': 'jump'}); return
    # --- the other half of "bijection of the box": the inverse direction is an increasing map of [bottom, top] onto
    # [left, right], and undoes the forward direction
    tolx = (1e-4 if fam == 'cubic' else 1e-9) * (hi - lo)
    cond = 1e-12 * (1 + abs(top) + abs(bot)) * torch.exp(-ld)
    kind, xr, ldr = S.impl_call(fam, y.clamp(bot, top), fl, True, tails, box, B, extra=extra)
    if kind != 'ok':
        ctx.fail('inverse rejects forward images of in-domain points with %s' % kind, case, match={'fam': fam, 'symptom': 'inverse-raises'}); return
    if not torch.isfinite(xr).all():
        ctx.fail('non-finite inverse output inside the box', case, match={'fam': fam, 'symptom': 'inverse-non-finite'}); return
    bad = (xr - grid).abs() > tolx + cond
    if bad.any():
        j = int(torch.argmax(((xr - grid).abs() - cond) * bad))
        ctx.fail('inverse(forward(x)) != x: x=%r back=%r' % (grid[j].item(), xr[j].item()), dict(case, x=grid[j].item()), match={'fam': fam, 'symptom': 'inverse-roundtrip'}); return
    ygrid = torch.linspace(bot, top, npts, dtype=dtype)
    kind, xg, ldg = S.impl_call(fam, ygrid, [p.expand(npts, -1) for p in params], True, tails, box, B, extra=extra)
    if kind != 'ok' or not torch.isfinite(xg).all():
        ctx.fail('inverse fails on a grid of [bottom, top] (%s)' % kind, case, match={'fam': fam, 'symptom': 'inverse-raises'}); return
    if ((xg[1:] - xg[:-1]) < -(tolx + cond.max())).any():
        ctx.fail('inverse output decreases', case, match={'fam': fam, 'symptom': 'inverse-not-monotone'}); return
    if (xg < lo - tolx).any() or (xg > hi + tolx).any():
        ctx.fail('inverse output leaves the input interval: min=%r max=%r' % (xg.min().item(), xg.max().item()), case, match={'fam': fam, 'symptom': 'inverse-leaves-box'}); return
    if abs(xg[0].item() - lo) > tolx + cond[0].item() or abs(xg[-1].item() - hi) > tolx + cond[-1].item():
        ctx.fail('inverse end-points not mapped to end-points: g(bottom)=%r g(top)=%r' % (xg[0].item(), xg[-1].item()), case, match={'fam': fam, 'symptom': 'inverse-endpoints'}); return
    if tails:
        xt = torch.tensor([B * (1 + 1e-12) + 1e-300, -B * (1 + 1e-12), B + 1.0, -B - 2.5, 50.0 * B], dtype=dtype)
        xt = torch.where(xt.abs() <= B, torch.sign(xt) * torch.nextafter(torch.tensor(B, dtype=dtype), inf), xt)
        kind, yt, ldt = S.impl_call(fam, xt, [p.expand(xt.numel(), -1) for p in params], False, tails, box, B, extra=extra)
        if kind != 'ok' or not torch.equal(yt, xt) or (ldt != 0).any():
            ctx.fail('tails are not the identity with zero log-abs-det', dict(case, x=xt.tolist()), match={'fam': fam, 'symptom': 'tails'}); return
        # continuity at the junction
        xb = torch.tensor([B, -B], dtype=dtype)
        kind, yb, _ = S.impl_call(fam, xb, [p.expand(2, -1) for p in params], False, tails, box, B, extra=extra)
        if kind != 'ok' or (yb - xb).abs().max() > t:
            ctx.fail('not continuous at the tail bound', case, match={'fam': fam, 'symptom': 'junction'}); return


def long_grids(ctx, gen, count=False):
    """one call on MANY points (more than 2^16, not a multiple of 2^12 or 2^16): an implementation that processes long inputs in blocks must
    still be the same increasing bijection on every point.  The property's own oracle on a sorted grid of 70001 points per family, bounded
    and with tails; failures are reported with the grid point as the failing input."""
    before = len(ctx.failing)
    for fam in S.FAMS:
        for tails, box, B in ((False, (-1.5, 2.0, 0.25, 4.0), None), (True, None, 3.0)):
            if count:
                ctx.case(key=('long-grid', fam, tails), branch='long-grid/%s/%s' % (fam, 'tails' if tails else 'box'), nontrivial=True, n=70001)
            oracle_config(ctx, fam, tails, 5, 'normal', box, B, None, gen, npts=70001)
    if count:
        for f_ in ctx.failing[before:]:
            if not ctx.is_known(f_.get('match', {})):
                ctx.disagree('C09/long-grid', f_['case'], f_['what'], 'property holds', f_['what'])


def search(ctx):
    gen = torch.Generator().manual_seed(ctx.seed + 4242)
    long_grids(ctx, gen)
    for cfg in configs(ctx):
        oracle_config(ctx, *cfg, gen)
        if len(ctx.failing) >= 5 or ctx.elapsed() > (600 if ctx.quick() else 3000):
            break
