"""C02 — inverse undoes forward in both orders and returns the negated log-abs-det.

Theorems: Properties.C02.  Correspondence: every modelled transform, BOTH directions, inverse inputs taken as the
implementation's own forward outputs (and independently drawn in-range points), degenerate parameter atoms first
class (all-zero, wide); outcomes incl. NaN/exception kinds must agree with the model executed in Float."""
import torch
from harness.common import registry as R, tcorr, oracles, leandriver, bits
from harness.common.splines import exc_kind

PROPERTY = 'C02'
LEVEL = 'proof'
REQUIRED_THEOREMS = ['Properties.C02.stable_root', 'Properties.C02.rq_executed_forward_inverse', 'Properties.C02.rq_executed_inverse_forward',
                     'Properties.C02.coupling_inverse_forward', 'Properties.C02.autoregressive_inverse_exact', 'Properties.C02.composite_good', 'Properties.C02.linear_bin_roundtrip', 'Properties.C02.rq_program_roundtrip', 'Properties.C02.rq_program_logdet_negates', 'Properties.C02.exec_coupling_inverse_forward', 'Properties.C02.exec_rq_coupling_roundtrip', 'Properties.C02.exec_autoregressive_inverse_forward', 'Properties.C02.exec_made_rq_roundtrip', 'Properties.C02.exec_made_affine_roundtrip', 'Properties.C02.rq_tails_program_roundtrip', 'Properties.C02.quad_program_roundtrip', 'Properties.C02.exec_quad_coupling_roundtrip', 'Properties.C02.exec_rq_tails_coupling_roundtrip', 'Properties.C02.exec_made_rq_tails_roundtrip', 'Properties.C02.cubic_program_roundtrip', 'Properties.C02.linear_program_roundtrip', 'Properties.C02.exec_cubic_coupling_roundtrip', 'Properties.C02.exec_coupling_with_conditioner_roundtrip', 
                     'Properties.C02.exp_executed_roundtrip', 'Properties.C02.sigmoid_executed_roundtrip_iff', 'Properties.C02.tanh_roundtrip_threshold_counterexample', 'Properties.C02.leakyRelu_executed_roundtrip', 'Properties.C02.cauchy_executed_roundtrip', 'Properties.C02.logTanh_executed_roundtrip', 'Properties.C02.conv1x1_executed_roundtrip', 'Properties.C02.actnorm_executed_roundtrip', 'Properties.C02.permutation_executed_roundtrip', 'Properties.C02.squeeze_executed_roundtrip',
    "Properties.C02.logdet_eq_neg_of_roundtrip", "Properties.C02.couplingRowMap_roundtrip", "Properties.C02.coupling_inverse_logdet_eq_neg_forward", "Properties.C02.coupling_rq_inverse_logdet_eq_neg_forward", "Properties.C02.coupling_linear_inverse_logdet_eq_neg_forward",
    "Properties.C02.ar_inverse_logdet_is_jacobian", "Properties.C02.ar_affine_inverse_logdet_is_jacobian", "Properties.C02.ar_rq_inverse_logdet_is_jacobian",]
RULE = ("registry x parameter regimes (fresh, zeros, perturbed, wide) x {forward, inverse of forward outputs, inverse of independent in-range points}; "
        "the autoregressive inverse is followed pass by pass (model output of pass k must be the conditioner input of pass k+1); distinct = (entry, regime, "
        "direction, tag); non-trivial = not the identity")
EXPLANATION = "round-trip laws proved over the reals; finiteness and accuracy in floating point are carried by running the same definitions in Float against the code"
ASSUMPTIONS = ["finiteness of returned floats is not a theorem (no verified rounding analysis); it is checked by the correspondence and the oracle",
               "UMNN inverse (bisection) is not modelled"]


def correspondence(ctx):
    """thorough tier: several independent generator seeds (the quick tier runs one)"""
    for rep in range(1 if ctx.quick() else 6):
        _correspondence_once(ctx, rep)
        if ctx.elapsed() > 1500:
            break


def _correspondence_once(ctx, rep=0):
    gen = torch.Generator().manual_seed(ctx.seed * 2003 + 2 + 104729 * rep)
    E = R.entries('quick' if ctx.quick() else 'full')
    jobs = []
    for e in E:
        for regime in ('fresh', 'zeros', 'normal', 'wide'):
            t = tcorr.build(e, gen, torch.float64, regime)
            B = 3
            x = R.make_inputs(e, B, gen, torch.float64, False)
            c = R.make_context(e, B, gen, torch.float64)
            jf = tcorr.make_job(e, t, x, c, False, regime, tag='fwd')
            jobs.append(jf)
            if jf.kind == 'ok':
                jobs.append(tcorr.make_job(e, t, jf.y.clone(), c, True, regime, tag='inv-of-fwd'))
            xi = R.make_inputs(e, B, gen, torch.float64, True)
            jobs.append(tcorr.make_job(e, t, xi, c, True, regime, tag='inv'))
    tcorr.run_jobs(jobs)
    for j in jobs:
        tcorr.compare(ctx, j, 'C02', observables=('out', 'ld'))
    reshape_index_maps(ctx)
    from harness.props import c01 as _c01
    _c01.spline_boxes(ctx, gen, inverse=True, prop='C02')   # exported spline functions, non-square boxes, non-default minima
    # linear family (generic, non-initial parameters), normalisation layers, permutations, squeeze, wrappers, UMNN: round trip directly
    oracles.direct_on_extras(ctx, 'C02', oracles.roundtrip_search)
    oracles.knot_consistency(ctx, gen, count=True)          # inputs exactly on the knots of the one family with derivative jumps


def search(ctx):
    oracles.roundtrip_search(ctx, budget_s=300 if ctx.quick() else 1500)


def replay_finding(ctx, f):
    return oracles.replay_transform_finding(ctx, f)


def reshape_index_maps(ctx):
    """SqueezeTransform (every factor 2..4, incl. shapes it must reject) and Permutation / ReversePermutation / RandomPermutation on any
    dimension: EXACT comparison of tagged tensors with the Lean index maps, both directions, and the ValueError contracts"""
    import nflows.transforms as T
    reqs, metas = [], []
    for f in (2, 3, 4):
        t = T.SqueezeTransform(f)
        for (B, C, H, W) in ((1, 1, f, f), (2, 2, 2 * f, 3 * f), (1, 3, f, 2 * f), (1, 1, f + 1, f), (1, 2, f, f * 2 + 1)):
            x = torch.arange(B * C * H * W, dtype=torch.float64).reshape(B, C, H, W) + 0.5
            try:
                y, ld = t(x); k = 'ok'
            except Exception as ex:
                y, k = None, exc_kind(ex)
            reqs.append({'op': 'squeeze', 'p': 'f64', 'i': [0, f, B, C, H, W], 'f': [bits.tensor_bits(x)]})
            metas.append(('squeeze-fwd', f, (B, C, H, W), k, y))
        for (B, C, H, W) in ((1, f * f, 1, 1), (2, 2 * f * f, 2, 3), (1, f * f + 1, 2, 2), (1, f, 2, 2), (1, 4, 1, 1)):
            yv = torch.arange(B * C * H * W, dtype=torch.float64).reshape(B, C, H, W) - 3.0
            try:
                xb, ld = t.inverse(yv); k = 'ok'
            except Exception as ex:
                xb, k = None, exc_kind(ex)
            reqs.append({'op': 'squeeze', 'p': 'f64', 'i': [1, f, B, C, H, W], 'f': [bits.tensor_bits(yv)]})
            metas.append(('squeeze-inv', f, (B, C, H, W), k, xb))
    g = torch.Generator().manual_seed(ctx.seed + 5)
    for shape, dim in (((2, 5), 1), ((2, 3, 4), 2), ((1, 4, 2, 3), 1), ((2, 3, 2, 2), 3), ((3, 6), 1)):
        n = shape[dim]
        for name, perm in (('rand', torch.randperm(n, generator=g)), ('rev', torch.arange(n - 1, -1, -1))):
            t = T.Permutation(perm, dim=dim)
            x = torch.arange(int(torch.tensor(shape).prod()), dtype=torch.float64).reshape(shape)
            for inverse in (False, True):
                try:
                    y, ld = (t.inverse(x) if inverse else t(x)); k = 'ok'
                except Exception as ex:
                    y, k = None, exc_kind(ex)
                reqs.append({'op': 'permute', 'p': 'f64', 'i': [int(inverse), dim, len(shape)] + list(shape) + perm.tolist(), 'f': [bits.tensor_bits(x)]})
                metas.append(('permute-' + name, dim, shape, k, y))
    for (kind, a, shp, k, y), resp in zip(metas, leandriver.call(reqs)):
        merr = resp.get('e')
        case = {'op': kind, 'arg': a, 'shape': list(shp)}
        ctx.case(key=(kind, a, tuple(shp)), branch='index-map/' + kind + ('/error' if k != 'ok' else ''), nontrivial=True, n=1)
        if k != 'ok' or merr:
            if (k if k != 'ok' else None) != merr:
                ctx.disagree('C02/' + kind, case, k, merr or 'ok', 'outcome kinds differ')
            continue
        if bits.tensor_bits(y.contiguous()) != resp['f'][0]:
            ctx.disagree('C02/' + kind, case, y.reshape(-1).tolist()[:12], bits.dec(resp['f'][0][:12], 'f64'), 'index map differs from the model')
