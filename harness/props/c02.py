"""C02 — inverse undoes forward in both orders and returns the negated log-abs-det.

Theorems: Properties.C02.  Correspondence: every modelled transform, BOTH directions, inverse inputs taken as the
implementation's own forward outputs (and independently drawn in-range points), degenerate parameter atoms first
class (all-zero, wide); outcomes incl. NaN/exception kinds must agree with the model executed in Float."""
import torch
from harness.common import registry as R, tcorr, oracles

PROPERTY = 'C02'
LEVEL = 'proof'
REQUIRED_THEOREMS = ['Properties.C02.stable_root', 'Properties.C02.rq_executed_forward_inverse', 'Properties.C02.rq_executed_inverse_forward',
                     'Properties.C02.coupling_inverse_forward', 'Properties.C02.autoregressive_inverse_exact', 'Properties.C02.composite_good']
RULE = ("registry x parameter regimes (fresh, zeros, perturbed, wide) x {forward, inverse of forward outputs, inverse of independent in-range points}; "
        "the autoregressive inverse is followed pass by pass (model output of pass k must be the conditioner input of pass k+1); distinct = (entry, regime, "
        "direction, tag); non-trivial = not the identity")
EXPLANATION = "round-trip laws proved over the reals; finiteness and accuracy in floating point are carried by running the same definitions in Float against the code"
ASSUMPTIONS = ["finiteness of returned floats is not a theorem (no verified rounding analysis); it is checked by the correspondence and the oracle",
               "UMNN inverse (bisection) is not modelled"]


def correspondence(ctx):
    """thorough tier: several independent generator seeds (the quick tier runs one)"""
    for rep in range(1 if ctx.quick() else 6):
        _correspondence_once(ctx, rep)
        if ctx.elapsed() > 1500:
            break


def _correspondence_once(ctx, rep=0):
    gen = torch.Generator().manual_seed(ctx.seed * 2003 + 2 + 104729 * rep)
    E = R.entries('quick' if ctx.quick() else 'full')
    jobs = []
    for e in E:
        for regime in ('fresh', 'zeros', 'normal', 'wide'):
            t = tcorr.build(e, gen, torch.float64, regime)
            B = 3
            x = R.make_inputs(e, B, gen, torch.float64, False)
            c = R.make_context(e, B, gen, torch.float64)
            jf = tcorr.make_job(e, t, x, c, False, regime, tag='fwd')
            jobs.append(jf)
            if jf.kind == 'ok':
                jobs.append(tcorr.make_job(e, t, jf.y.clone(), c, True, regime, tag='inv-of-fwd'))
            xi = R.make_inputs(e, B, gen, torch.float64, True)
            jobs.append(tcorr.make_job(e, t, xi, c, True, regime, tag='inv'))
    tcorr.run_jobs(jobs)
    for j in jobs:
        tcorr.compare(ctx, j, 'C02', observables=('out', 'ld'))
    # linear family (generic, non-initial parameters), normalisation layers, permutations, squeeze, wrappers, UMNN: round trip directly
    oracles.direct_on_extras(ctx, 'C02', oracles.roundtrip_search)


def search(ctx):
    oracles.roundtrip_search(ctx, budget_s=300 if ctx.quick() else 1500)


def replay_finding(ctx, f):
    return oracles.replay_transform_finding(ctx, f)
