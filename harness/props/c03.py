"""C03 — a flow's log_prob is a normalised probability density.

Theorems: Properties.C03 (change of variables 1-D / n-D, closure of 1-D diffeomorphisms under composition with summed
log-dets, normalised base).  Correspondence: flows of data dimension 1-3 assembled from modelled transforms (random
programs of 1-3 stages, Inverse wrappers), every library base distribution that fits, with / without context and
embedding net: `log_prob(x)` against  model_base_logp(model_T(x)) + sum of model log-dets, stage by stage (stage k's
model output must be stage k+1's recorded input).  Search: quadrature of exp(log_prob) over R / R^2 must be 1."""
import math
import numpy as np
import torch
from torch import nn
from harness.common import registry as R, tcorr, leandriver, bits

PROPERTY = 'C03'
LEVEL = 'proof'
REQUIRED_THEOREMS = ['Properties.C03.flow_normalised_progN', 'Properties.C03.logtanh_tail_joins', 'Properties.C03.flow_normalised_1d', 'Properties.C03.flow_normalised_nd', 'Properties.C03.flow_normalised_prog',
                     'Properties.C03.flow_logprob_normalised_1d', 'Properties.C03.base_normalised', 'Properties.C03.executed_rq_tails_flow_normalised', 'Properties.C03.executed_composite_flow_normalised', 'Properties.C03.stdNormal1_exec_normalised', 'Properties.C03.executed_pipeline_is_normalised', 'Properties.C03.executed_rq_cdf_layer_is_diffeo', 'Properties.C03.executed_flow_is_normalised', 'Properties.C03.executed_pipeline_with_coupling_is_normalised', 
                     'Properties.C03.made_forward_differentiable', 'Properties.C03.softplus_threshold_discontinuity', 'Properties.C03.maf_layer_differentiable', 'Properties.C03.executed_pipeline_with_maf_is_normalised',
                     'Properties.C03.box_flow_normalised', 'Properties.C03.rq_uniform_flow_normalised', 'Properties.C03.rq_executed_uniform_flow_normalised', 'Properties.C03.cubic_uniform_flow_normalised', 'Properties.C03.rq_default_bounded_flow_example',
    "Properties.C03.sigmoid_flow_normalised", "Properties.C03.sigmoid_uniform_flow_normalised", "Properties.C03.sigmoid_executed_flow_almost_normalised", "Properties.C03.sigmoid_executed_exact_region", "Properties.C03.logit_flow_normalised", "Properties.C03.logit_executed_eq", "Properties.C03.logit_stdNormal_flow_normalised", "Properties.C03.sigmoid_flow_normalised_nd", "Properties.C03.logit_flow_normalised_nd", "Properties.C03.logit_then_prog_flow_normalised", "Properties.C03.flow_normalised_any_base", "Properties.C03.flow_normalised_any_base_prog", "Properties.C03.mogRow_eq_mogLogp", "Properties.C03.mog_base_normalised", "Properties.C03.flow_normalised_mog_base", "Properties.C03.flow_normalised_mogRow_base", "Properties.C03.flowLogProb_withEmb", "Properties.C03.flowSalp_withEmb", "Properties.C03.flowLogProbExec_embedding", "Properties.C03.flow_with_embedding_normalised", "Properties.C03.flow_with_embedding_normalised_nd",
    "Properties.C03.execLinear_spec", "Properties.C03.ExecLinear_batch_row", "Properties.C03.actStep_batch", "Properties.C03.bnStep_batch", "Properties.C03.GlowLayer_is_diffeo", "Properties.C03.glow_flow_is_normalised", "Properties.C03.glow_flow_is_normalised_any_base", "Properties.C03.glow_flow_is_normalised_flowLogProb0", "Properties.C03.glow_flow_smooth_conditioner_is_normalised", "Properties.C03.executed_pipelineG_normalised", "Properties.C03.executed_pipelineG_normalised_any_base",]
RULE = ("random programs: 1-3 stages drawn from the registry entries of the flow's data dimension whose domain is the whole line (affine, leaky ReLU, LogTanh, "
        "Piecewise*CDF with linear tails, coupling / masked autoregressive transforms with tails or affine), some wrapped in InverseTransform, plus "
        "CompositeCDFTransform(Sigmoid, bounded CDF); bases StandardNormal, DiagonalNormal, ConditionalDiagonalNormal; context none / rows / rows through an "
        "embedding net; distinct = (program signature, base, context kind); non-trivial = log_prob differs from the base log-density of the input")
EXPLANATION = "change-of-variables theorem + closure under composition proved; tie = log_prob of real flows vs base model + transform models chained stage by stage"
ASSUMPTIONS = ["differentiability of the whole map is a hypothesis (ReLU conditioners non-differentiable on a null set)",
               "bijectivity onto the whole support rests on C09 (splines onto their box, identity tails) and C02",
               "quadrature (search) is limited to data dimension 1 and 2"]


def lst(l):
    return [len(l)] + list(l)


def stage_pool(D, ctx):
    E = []
    for e in R.entries('full'):
        if list(e.in_shape) != [D]:
            continue
        if e.kind in ('coupling', 'ar') and e.ctx != ctx:
            continue   # a composite hands the same context to every stage; conditioners are built for one context width
        if e.dom_fwd is not None or e.dom_inv is not None:
            continue
        if e.kind == 'nonlin' and e.extra['cls'] in ('Exp', 'Tanh', 'Sigmoid', 'CauchyCDF'):
            continue
        E.append(e)
    return E


def build_flow(ctx, gen, rng, D, ctx_kind, fixed=None, regime='normal'):
    from nflows.flows.base import Flow
    from nflows.distributions.normal import StandardNormal, DiagonalNormal, ConditionalDiagonalNormal
    import nflows.transforms as T
    cfeat = 2 if ctx_kind != 'none' else None
    pool = stage_pool(D, cfeat)
    nst = rng.randint(1, 3)
    stages = []
    if fixed is not None:
        # deterministic coverage: a single-stage flow for every entry of the pool
        stages.append((fixed, tcorr.build(fixed, gen, torch.float64, regime), False))
        nst = 0
    for _ in range(nst):
        e = rng.choice(pool)
        t = tcorr.build(e, gen, torch.float64, rng.choice(['fresh', 'normal']))
        inv = rng.random() < 0.25
        stages.append((e, t, inv))
    mods = [T.InverseTransform(t) if inv else t for (e, t, inv) in stages]
    transform = T.CompositeTransform(mods)
    bk = rng.choice(['std', 'diag'] if cfeat is None else ['std', 'diag', 'cond'])
    if bk == 'std':
        base = StandardNormal([D])
    elif bk == 'diag':
        base = DiagonalNormal([D]).double()
        with torch.no_grad():
            base.mean_.normal_(generator=gen); base.log_std_.normal_(0, 0.4, generator=gen)
    else:
        enc = nn.Linear(2, 2 * D).double()
        base = ConditionalDiagonalNormal([D], context_encoder=enc)
    emb = None
    raw_ctx_feat = cfeat
    if ctx_kind == 'emb':
        emb = nn.Linear(3, 2).double()
        raw_ctx_feat = 3
    flow = Flow(transform, base, emb).double() if emb is not None else Flow(transform, base).double()
    flow.eval()
    return flow, stages, mods, base, bk, emb, raw_ctx_feat


def correspondence(ctx):
    gen = torch.Generator().manual_seed(ctx.seed * 3003 + 3)
    rng = ctx.rng
    nflows_ = 60 if ctx.quick() else 500
    allreq, plans = [], []
    todo = []
    for D in (1, 2, 3):
        for ck, cf in (('none', None), ('rows', 2)):
            for e in stage_pool(D, cf):
                if (ck == 'rows') == (e.ctx is not None) or (ck == 'none' and e.ctx is None):
                    if ctx.quick() and D == 3 and e.kind in ('coupling', 'ar'):
                        continue
                    todo.append((D, ck, e))
    todo += [(None, None, None)] * nflows_
    for (D, ctx_kind, fixed) in todo:
        if fixed is None:
            D = rng.choice([1, 2, 2, 3])
            ctx_kind = rng.choice(['none', 'rows', 'emb'])
        try:
            flow, stages, mods, base, bk, emb, rawc = build_flow(ctx, gen, rng, D, ctx_kind, fixed)
        except IndexError:
            continue
        B = 4
        x = 1.5 * torch.randn(B, D, generator=gen, dtype=torch.float64)
        c = torch.randn(B, rawc, generator=gen, dtype=torch.float64) if rawc else None
        # record every stage's input and the embedded context
        rec_in = {}
        hooks = []
        for i, m in enumerate(mods):
            hooks.append(m.register_forward_hook(lambda mod, inp, out, i=i: rec_in.__setitem__(i, (inp[0].detach().clone(), out[0].detach().clone(), out[1].detach().clone()))))
        try:
            lp = flow.log_prob(x, c) if c is not None else flow.log_prob(x)
            kind = 'ok'
        except Exception as ex:
            kind = type(ex).__name__; lp = None
        for h in hooks:
            h.remove()
        if kind != 'ok':
            ctx.case(n=B, branch='flow-raised:' + kind)
            ctx.disagree('C03/flow', {'stages': [e.name for e, _, _ in stages], 'base': bk}, kind, 'ok', 'log_prob raised on real-line inputs')
            continue
        ec = emb(c).detach() if emb is not None else c
        jobs = []
        for i, (e, t, inv) in enumerate(stages):
            xin = rec_in[i][0]
            cc = ec if e.ctx is not None else None
            jobs.append(tcorr.make_job(e, t, xin, cc, inv, '', tag='stage%d' % i))
        z = rec_in[len(mods) - 1][1]
        if bk == 'std':
            breq = dict(op='c05.logprob', s=['StandardNormal'], i=[-1 if ec is None else B] + lst([D]) + lst([D]) + [B], f=[bits.tensor_bits(z)])
        elif bk == 'diag':
            breq = dict(op='c05.logprob', s=['DiagonalNormal'], i=[-1 if ec is None else B] + lst([D]) + lst([D]) + [B],
                        f=[bits.tensor_bits(z), bits.tensor_bits(base.mean_.detach()), bits.tensor_bits(base.log_std_.detach())])
        else:
            pr = base._context_encoder(ec).detach()
            breq = dict(op='c05.logprob', s=['ConditionalDiagonalNormal'], i=[B] + lst([D]) + lst([D]) + [B] + [B] + lst([2 * D]),
                        f=[bits.tensor_bits(z), bits.tensor_bits(pr)])
        plans.append((stages, bk, ctx_kind, jobs, breq, lp.detach(), rec_in, x))
    # one driver call for everything
    alljobs = [j for p in plans for j in p[3]]
    tcorr.run_jobs(alljobs)
    bresps = leandriver.call([p[4] for p in plans])
    for (stages, bk, ctx_kind, jobs, breq, lp, rec_in, x), bresp in zip(plans, bresps):
        sig = '+'.join(('inv:' if inv else '') + e.name.split('/')[0] for e, _, inv in stages)
        case = {'program': [('inv:' if inv else '') + e.name for e, _, inv in stages], 'base': bk, 'context': ctx_kind, 'x': x.reshape(-1).tolist()}
        ok = True
        for j in jobs:
            ok = tcorr.compare(ctx, j, 'C03', observables=('out', 'ld')) and ok
        if not ok:
            continue
        if bresp.get('e'):
            ctx.disagree('C03/base', case, 'ok', bresp['e'], 'base model raised'); continue
        blp = bits.dec(bresp['f'][0], 'f64')
        total = list(blp)
        for j in jobs:
            ld = R.decode(j.resp[-1], 'f64')[1]
            total = [a + b for a, b in zip(total, ld)]
        lpl = lp.tolist()
        kap = [1e-15 * math.exp(min(40, abs(v))) for v in lpl]
        agree = all(tcorr.close(a, b, 1e-8 + k_, 1e-8) for a, b, k_ in zip(lpl, total, kap))
        # chain: model output of stage k = recorded input of stage k+1
        for i in range(len(jobs) - 1):
            mo = R.decode(jobs[i].resp[-1], 'f64')[0]
            nxt = rec_in[i + 1][0].reshape(-1).tolist()
            agree = agree and all(tcorr.close(a, b, 1e-8, 1e-8) for a, b in zip(nxt, mo))
        ctx.case(key=('flow', sig, bk, ctx_kind), branch='flow/%d-stage/%s/%s' % (len(jobs), bk, ctx_kind), nontrivial=True, n=len(lpl),
                 sample=dict(case, impl_log_prob=lpl[:2], model_log_prob=total[:2]) if len(ctx.samples) < 6 else None)
        if not agree:
            ctx.disagree('C03/flow', case, lpl, total, 'log_prob differs from base log-density at the transformed point plus the summed log-abs-dets')
    gated_flows(ctx)
    cached_linear_flows(ctx)


def gated_flows(ctx, report=None):
    """flows whose transform is the context gate (GatedLinearUnit; the transform-level model covers it only as an 'extra'): with a
    gate that is BROADCAST over D features (context [B, 1]) or per feature (context [B, D]) the density has the closed form
    log N(x * g; 0, I) + sum over the D features of log g — which integrates to one; also after a linear layer that mixes features"""
    from nflows.flows.base import Flow
    from nflows.distributions.normal import StandardNormal
    import nflows.transforms as T
    gen = torch.Generator().manual_seed(ctx.seed + 3131)
    for D in (1, 2, 3):
        for cw in sorted({1, D}):
            flow = Flow(T.GatedLinearUnit(), StandardNormal([D])).double(); flow.eval()
            x = 1.3 * torch.randn(5, D, generator=gen, dtype=torch.float64)
            c = torch.randn(5, cw, generator=gen, dtype=torch.float64)
            case = {'program': ['GLU'], 'base': 'std', 'D': D, 'context_columns': cw, 'x': x.reshape(-1).tolist(), 'context': c.reshape(-1).tolist()}
            try:
                with torch.no_grad():
                    lp = flow.log_prob(x, context=c)
                g = torch.sigmoid(c).expand(5, D)
                want = (-0.5 * (x * g) ** 2 - 0.5 * math.log(2 * math.pi)).sum(1) + torch.log(g).sum(1)
                ok = bool(torch.allclose(lp, want, rtol=1e-10, atol=1e-10))
                got = lp.tolist()
            except Exception as ex:
                ok, got, want = False, 'raised %r' % (ex,), None
            if report is None:
                ctx.case(key=('gated-flow', D, cw), branch='flow/gated/%s' % ('broadcast' if cw < D else 'per-feature'), nontrivial=True, n=5)
                if not ok:
                    ctx.disagree('C03/gated-flow', case, got, want.tolist() if want is not None else None,
                                 'log_prob differs from log N(x*g) + sum_features log g (the normalised density of the gated flow)')
            elif not ok:
                integ = float(torch.exp((lp - want)).mean()) if want is not None and not isinstance(got, str) else float('nan')
                report('gated flow (D=%d, %d context column%s): exp(log_prob) is %.4g times the normalised density' % (D, cw, '' if cw == 1 else 's', integ),
                       case, {'symptom': 'integral!=1', 'classes': ['GLU']})


def cached_linear_flows(ctx, report=None):
    """a flow over a linear layer with its weight cache ON, in evaluation mode, asked for samples BEFORE log_prob (the sampling path
    fills the cache through the inverse accessors): log_prob must still be the closed form log N(W x + b) + log|det W|"""
    from nflows.flows.base import Flow
    from nflows.distributions.normal import StandardNormal
    import nflows.transforms as T
    gen = torch.Generator().manual_seed(ctx.seed + 3232)
    for name, mk in (('NaiveLinear', lambda D: T.NaiveLinear(D, using_cache=True)), ('LULinear', lambda D: T.LULinear(D, using_cache=True, identity_init=False)),
                     ('SVDLinear', lambda D: T.SVDLinear(D, num_householder=2, using_cache=True, identity_init=False))):
        for D in (2, 3):
            torch.manual_seed(int(torch.randint(0, 2 ** 31 - 1, (1,), generator=gen)))
            lin = mk(D).double()
            with torch.no_grad():
                for p_ in lin.parameters():
                    p_.add_(0.4 * torch.randn(p_.shape, generator=gen, dtype=p_.dtype))
            flow = Flow(lin, StandardNormal([D])).double(); flow.eval()
            x = 1.3 * torch.randn(4, D, generator=gen, dtype=torch.float64)
            case = {'program': [name + '(using_cache=True)'], 'base': 'std', 'D': D, 'history': ['eval', 'sample(2)', 'log_prob'], 'x': x.reshape(-1).tolist()}
            try:
                with torch.no_grad():
                    flow.sample(2)
                    lp = flow.log_prob(x)
                    W = lin.weight().detach() if callable(getattr(lin, 'weight', None)) else None
                    lin.use_cache(False)
                    W = lin.weight().detach(); b = lin.bias.detach()
                    z = x @ W.t() + b
                    want = (-0.5 * z ** 2 - 0.5 * math.log(2 * math.pi)).sum(1) + torch.linalg.slogdet(W)[1]
                ok = bool(torch.allclose(lp, want, rtol=1e-9, atol=1e-9)); got = lp.tolist()
            except Exception as ex:
                ok, got, want = False, 'raised %r' % (ex,), None
            if report is None:
                ctx.case(key=('cached-linear-flow', name, D), branch='flow/cached-linear/sample-first', nontrivial=True, n=4)
                if not ok:
                    ctx.disagree('C03/cached-linear-flow', case, got, want.tolist() if want is not None else None,
                                 'log_prob after a sample call differs from log N(Wx+b) + log|det W|')
            elif not ok:
                report('flow over %s with the cache on: after sample(), log_prob differs from the normalised density log N(Wx+b) + log|det W|' % name,
                       case, {'symptom': 'integral!=1', 'classes': [name]})


def conditional_base_closed_form(ctx, report):
    """a flow over ConditionalDiagonalNormal with context rows that encode SMALL standard deviations (log-std down to -11): the
    density is the closed form N(x; m, sigma) (through an affine transform: plus its constant log-det), which integrates to one"""
    from nflows.flows.base import Flow
    from nflows.distributions.normal import ConditionalDiagonalNormal
    import nflows.transforms as T
    gen = torch.Generator().manual_seed(ctx.seed + 3333)
    for D in (1, 2):
        for ls in (1.0, -2.0, -4.0, -8.0, -11.0):
            flow = Flow(T.PointwiseAffineTransform(shift=0.25, scale=2.0), ConditionalDiagonalNormal([D])).double(); flow.eval()
            m = torch.randn(3, D, generator=gen, dtype=torch.float64)
            lsd = ls + 0.5 * torch.randn(3, D, generator=gen, dtype=torch.float64)
            z = torch.randn(3, D, generator=gen, dtype=torch.float64)
            y = m + torch.exp(lsd) * z                      # a point of the base space
            x = (y - 0.25) / 2.0                            # its preimage under the affine transform
            c = torch.cat([m, lsd], 1)
            with torch.no_grad():
                lp = flow.log_prob(x, context=c)
            want = (-0.5 * z ** 2 - lsd - 0.5 * math.log(2 * math.pi)).sum(1) + D * math.log(2.0)
            if not torch.allclose(lp, want, rtol=1e-8, atol=1e-8):
                k = int((lp - want).abs().argmax())
                report('flow over ConditionalDiagonalNormal, log-std about %g: log_prob = %.9g, normalised density = %.9g (exp(log_prob) integrates to about %.6f)'
                       % (ls, lp[k].item(), want[k].item(), float(torch.exp(lp - want).mean())),
                       {'program': ['PointwiseAffine'], 'base': 'cond', 'D': D, 'x': x.reshape(-1).tolist(), 'context': c.reshape(-1).tolist()},
                       {'symptom': 'integral!=1', 'classes': ['ConditionalDiagonalNormal']})
                return


# ---------------------------------------------------------------- search: quadrature
def _quad_1d(flow, c_row):
    """integral of exp(log_prob) over the whole line: x = tan(pi u / 2), composite trapezoid in u, refined until stable"""
    prev = None
    for n in (2 ** 17, 2 ** 18, 2 ** 19, 2 ** 20):
        u = torch.linspace(-1, 1, n + 1, dtype=torch.float64)[1:-1]
        x = torch.tan(math.pi * u / 2)
        jac = (math.pi / 2) / torch.cos(math.pi * u / 2) ** 2
        with torch.no_grad():
            cc = c_row.expand(x.numel(), -1) if c_row is not None else None
            lp = flow.log_prob(x[:, None], cc) if cc is not None else flow.log_prob(x[:, None])
        f = lp.exp() * jac
        f = torch.where(torch.isfinite(f), f, torch.zeros_like(f))
        I = torch.trapz(f, u).item()
        if prev is not None and abs(I - prev) < 2e-5:
            return I, True
        prev = I
    return I, False


def search(ctx):
    import random
    gated_flows(ctx, report=lambda what, case, match: ctx.fail(what, case, match=match))
    cached_linear_flows(ctx, report=lambda what, case, match: ctx.fail(what, case, match=match))
    conditional_base_closed_form(ctx, report=lambda what, case, match: ctx.fail(what, case, match=match))
    gen = torch.Generator().manual_seed(ctx.seed + 303)
    rng = random.Random(ctx.seed + 303)
    for e in stage_pool(1, None):
        try:
            flow, stages, mods, base, bk, emb, rawc = build_flow(ctx, gen, rng, 1, 'none', e)
            I, converged = _quad_1d(flow, None)
        except Exception as ex:
            continue
        if converged and not abs(I - 1.0) <= 5e-4:
            ctx.fail('exp(log_prob) integrates to %.6f, not 1' % I, {'program': [e.name], 'base': bk, 'context': None, 'D': 1},
                     match={'symptom': 'integral!=1', 'classes': [e.name.split('/')[0]]})
        if len(ctx.failing) >= 4 or ctx.elapsed() > 600:
            return
    # more than one dimension: no quadrature; the equivalent clause of the property instead — log_prob(x) is the base log-density at the
    # transformed point plus log|det| of the Jacobian of the transform ACTUALLY computed (autograd), point by point
    for D in (2, 3):
        for ck, cf in (('none', None), ('rows', 2)):
            for e, regime in [(e_, r_) for e_ in stage_pool(D, cf) for r_ in (('normal',) if e_.spline else ('normal', 'extreme'))]:
                if (e.ctx is None) != (cf is None):
                    continue
                try:
                    flow, stages, mods, base, bk, emb, rawc = build_flow(ctx, gen, rng, D, ck, e, regime)
                    x = 1.2 * torch.randn(3, D, generator=gen, dtype=torch.float64)
                    c = torch.randn(3, rawc, generator=gen, dtype=torch.float64) if rawc else None
                    with torch.no_grad():
                        lp = flow.log_prob(x, c) if c is not None else flow.log_prob(x)
                    for i in range(3):
                        ci = c[i:i + 1] if c is not None else None
                        f = (lambda a: flow._transform(a[None], flow._embedding_net(ci))[0][0]) if ci is not None else (lambda a: flow._transform(a[None])[0][0])
                        J = torch.autograd.functional.jacobian(f, x[i])
                        z = f(x[i]).detach()[None]
                        bl = flow._distribution.log_prob(z, flow._embedding_net(ci) if (ci is not None and bk == 'cond') else None)
                        want = float(bl) + float(torch.slogdet(J)[1])
                        if not abs(want - float(lp[i])) <= 1e-6 * (1 + abs(want)):
                            ctx.fail('log_prob(x) = %.9g but base log-density at the transformed point + log|det Jacobian| = %.9g: exp(log_prob) is not the push-forward density'
                                     % (float(lp[i]), want), {'program': [e.name], 'regime': regime, 'base': bk, 'context': ci.tolist() if ci is not None else None, 'D': D, 'x': x[i].tolist()},
                                     match={'symptom': 'logprob!=pushforward', 'classes': [e.name.split('/')[0]]})
                            break
                except Exception as ex:
                    continue
                if len(ctx.failing) >= 4 or ctx.elapsed() > 700:
                    return
    tried = 0
    while tried < (25 if ctx.quick() else 150) and ctx.elapsed() < 900 and len(ctx.failing) < 4:
        D = 1   # quadrature accurate enough to decide the property is only attempted on the line
        ctx_kind = rng.choice(['none', 'rows'])
        try:
            flow, stages, mods, base, bk, emb, rawc = build_flow(ctx, gen, rng, D, ctx_kind)
        except IndexError:
            continue
        tried += 1
        c_row = torch.randn(1, rawc, generator=gen, dtype=torch.float64) if rawc else None
        try:
            I, converged = _quad_1d(flow, c_row)
            if not converged:
                ctx.notes.append('quadrature did not converge for %s' % [e.name for e, _, _ in stages]); continue
        except Exception as ex:
            ctx.fail('log_prob raised %s on the quadrature grid' % type(ex).__name__, {'program': [e.name for e, _, _ in stages], 'base': bk},
                     match={'symptom': 'raises', 'first': stages[0][0].name.split('/')[0]})
            continue
        tol = 5e-4
        if not abs(I - 1.0) <= tol:
            ctx.fail('exp(log_prob) integrates to %.6f, not 1' % I,
                     {'program': [('inv:' if inv else '') + e.name for e, _, inv in stages], 'base': bk, 'context': c_row.tolist() if c_row is not None else None, 'D': D},
                     match={'symptom': 'integral!=1', 'classes': sorted({e.name.split('/')[0] for e, _, _ in stages})})
