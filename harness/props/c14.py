"""C14 — normalisation layers follow their documented life-cycle over every history.

Theorems: Properties.C14 (code machine = spec machine over every history incl. save+load into a fresh instance;
initialisation at most once / exactly at the first training-mode forward / never in eval / never by inverse / never
again after a reload; the initialising batch comes out with mean 0 and unbiased variance 1; BatchNorm running
statistics = momentum rule folded over exactly the training-mode forward batches (closed form), eval uses them,
eval and inverse leave the state alone, inverse refused in training mode).
Correspondence: lock-step histories over {train, eval, forward(batch), inverse(batch), save+load into a fresh
instance} run on the real ActNorm / BatchNorm and on the Lean code machines (`Core/Norm.lean` at IEEE binary64);
outputs, log-abs-dets, error kinds, mode, `initialized`, and the state-dict vectors are compared after EVERY step."""
import io, math, itertools, random
import torch
from harness.common import leandriver, bits

PROPERTY = 'C14'
LEVEL = 'proof'
REQUIRED_THEOREMS = [
    'Properties.C14.actnorm_refines', 'Properties.C14.init_at_most_once',
    'Properties.C14.init_exactly_at_first_training_fwd', 'Properties.C14.no_init_in_eval',
    'Properties.C14.no_init_by_inverse', 'Properties.C14.no_reinit_after_reload',
    'Properties.C14.actnorm_init_normalises', 'Properties.C14.actnorm_first_training_fwd_normalises',
    'Properties.C14.batchnorm_refines', 'Properties.C14.running_closed_form', 'Properties.C14.running_is_fold',
    'Properties.C14.eval_uses_running', 'Properties.C14.train_uses_batch_stats',
    'Properties.C14.eval_and_inverse_leave_state', 'Properties.C14.inverse_refused_in_training',
    'Properties.C14.state_determined_by_first_training_fwd', 'Properties.C14.code_machine_abstracts',
]
RULE = ("a case is one history over {train, eval, reload (save + load_state_dict into a newly built instance), fwd(batch), "
        "inv(batch)} for one layer configuration (ActNorm 2-D / ActNorm 4-D / BatchNorm with momentum 1/2 or 1/4, default or "
        "perturbed parameters); stream 1 enumerates EVERY history of a fixed length L (quick: 5, and 4 for "
        "ActNorm 4-D; thorough: 6) over a 6-letter alphabet with fixed batches (all shorter histories are its prefixes and are "
        "compared step by step); stream 2 draws "
        "random histories of length <= 40 with fresh batches per step: 'dyadic' integer batches whose column sums are multiples "
        "of B (B in {2,3}: mean and unbiased variance exact in binary64, running statistics compared bit-for-bit; B in {5,9}: "
        "mean exact), Gaussian float batches (tolerance), and a thin malformed stream (1-D/3-D inputs, 4-D into BatchNorm, B=1, "
        "constant column).  distinct = (layer, dims, data regime, momentum, parameter variant, sequence of op kinds with batch "
        "sizes); non-trivial = at least one step returned outputs different from its inputs or changed the layer state "
        "(so not the empty / all-error / mode-switch-only history)")
EXPLANATION = ("refinement and life-cycle theorems hold for every history and every scalar semantics (so also for the binary64 "
               "machine the driver executes); normalisation and the closed form are proved over the reals for the same "
               "definitions; the tie to the code is the lock-step differential run")
ASSUMPTIONS = [
    "batches are rectangular and have the constructor's feature / channel count (a mismatching count makes ActNorm silently "
    "re-shape its parameters during initialisation; not modelled, not generated)",
    "float64 instances (`.double()`); the float32 default only changes rounding",
    "the zero-mean / unit-variance clause needs a batch with at least two values per feature and a non-constant feature "
    "(for B=1 or a constant column the code produces NaN / inf parameters; the model mirrors that, the oracle skips the clause)",
    "`load_state_dict` with default strictness; the fresh instance is built with the same constructor arguments",
]

TOL = 1e-12
MOMENTA = (0.5, 0.25)


# ------------------------------------------------------------------------------------------------------------
# batches
def _mk(tok, shape, x):
    return {'tok': tok, 'shape': list(shape), 'x': [float(v) for v in x]}


def dyadic_batch(rng, B, F, tok=None, lo=-8, hi=8):
    """integer batch whose column sums are multiples of B (mean is an integer, deviations are integers)"""
    rows = [[rng.randint(lo, hi) for _ in range(F)] for _ in range(B - 1)]
    last = []
    for j in range(F):
        s = sum(r[j] for r in rows)
        v = rng.randint(lo, hi)
        v -= (s + v) % B
        last.append(v)
    rows.append(last)
    return _mk(tok or 'd%d' % B, (B, F), [v for r in rows for v in r])


def float_batch(rng, shape, tok=None):
    n = 1
    for s in shape:
        n *= s
    C = shape[1] if len(shape) > 1 else 1
    per = n // (shape[0] * C) if len(shape) > 1 else 1
    mus = [rng.uniform(-3, 3) for _ in range(C)]
    sig = [rng.uniform(0.5, 3) for _ in range(C)]
    x = []
    if len(shape) == 1:
        x = [rng.gauss(0, 1) for _ in range(n)]
    else:
        for b in range(shape[0]):
            for c in range(C):
                x.extend(rng.gauss(mus[c], sig[c]) for _ in range(per))
    return _mk(tok or 'r%d' % shape[0], shape, x)


def int_batch4(rng, shape, tok=None):
    n = shape[0] * shape[1] * shape[2] * shape[3]
    return _mk(tok or 'i%d' % shape[0], shape, [rng.randint(-8, 8) for _ in range(n)])


def const_col_batch(rng, B, F):
    rows = [[rng.randint(-4, 4) for _ in range(F)] for _ in range(B)]
    for r in rows:
        r[0] = 2
    return _mk('const%d' % B, (B, F), [v for r in rows for v in r])


FIXED = {
    # name -> batch (F = 2 / C = 2)
    2: {'b1': _mk('b1', (3, 2), [1, -3, 3, 5, -4, 1]),
        'b2': _mk('b2', (2, 2), [2, 0, -2, 4]),
        'b3': _mk('b3', (2, 2), [0.5, -1, 2, 3])},
    4: {'b1': _mk('b1', (2, 2, 1, 2), [1, -3, 3, 5, -4, 1, 0, 2]),
        'b2': _mk('b2', (1, 2, 2, 2), [2, 0, -2, 4, 1, 1, 3, -5]),
        'b3': _mk('b3', (2, 2, 1, 2), [0.5, -1, 2, 3, 0.25, 4, -2, 1])},
}


def tok_batch(tok, F, dims, idx=0):
    """re-create a batch from its token (used by replay_finding): fixed ones by name, the rest from a seeded generator"""
    if tok in FIXED.get(dims, {}) and F == 2:
        return FIXED[dims][tok]
    rng = random.Random('%s/%d/%d/%d' % (tok, F, dims, idx))
    kind = tok.rstrip('0123456789')
    B = int(tok[len(kind):] or 2)
    if kind == 'd':
        return dyadic_batch(rng, B, F, tok) if dims == 2 else int_batch4(rng, (B, F, 2, 2), tok)
    if kind == 'i':
        return int_batch4(rng, (B, F, 2, 2), tok)
    if kind == 'const':
        return const_col_batch(rng, B, F)
    if kind == 'bad':
        return float_batch(rng, {1: (3,), 3: (2, F, 2), 4: (2, F, 1, 2)}.get(B, (3,)), tok)
    if kind == 'one':
        return float_batch(rng, (1, F) if dims == 2 else (1, F, 1, 1), tok)
    return float_batch(rng, (B, F) if dims == 2 else (B, F, 2, 2), tok)


def op_str(op):
    return op['k'] if op['k'] in ('train', 'eval', 'reload') else '%s:%s' % (op['k'], op['b']['tok'])


def hist_sig(hist):
    return ' '.join(op_str(o) for o in hist)


# ------------------------------------------------------------------------------------------------------------
# the implementation, lock-step
def err_kind(e):
    from nflows.transforms.base import InverseNotAvailable
    if isinstance(e, InverseNotAvailable):
        return 'InverseNotAvailable'
    for cls, name in ((ValueError, 'ValueError'), (TypeError, 'TypeError'), (IndexError, 'IndexError'),
                      (AssertionError, 'AssertionError'), (RuntimeError, 'RuntimeError')):
        if isinstance(e, cls):
            return name
    return 'other'


class Impl:
    """drives the real layer through a history; state is read through the public state dict after every step"""

    def __init__(self, case, seed=0):
        self.case = case
        self.layer = case['layer']
        self.nbuilt = 0
        self.ninit = 0          # best-effort white-box: calls of ActNorm._initialize
        self.count_ok = True
        self.m = self._build(seed)
        with torch.no_grad():
            p = case.get('params')
            if p:
                for name, vals in p.items():
                    getattr(self.m, name).copy_(torch.tensor(vals, dtype=torch.float64))

    def _build(self, seed):
        from nflows.transforms.normalization import ActNorm, BatchNorm
        torch.default_generator.manual_seed(1000 + 17 * seed + self.nbuilt)   # (torch.manual_seed costs 1 ms: lazy CUDA hooks)
        self.nbuilt += 1
        if self.layer == 'actnorm':
            m = ActNorm(self.case['F'])
        else:
            m = BatchNorm(self.case['F'], eps=self.case['eps'], momentum=self.case['momentum'])
        m = m.double()
        if self.layer == 'actnorm':
            orig = getattr(m, '_initialize', None)
            if callable(orig):
                def counted(*a, _orig=orig, **k):
                    self.ninit += 1
                    return _orig(*a, **k)
                try:
                    m._initialize = counted
                except Exception:
                    self.count_ok = False
            else:
                self.count_ok = False
        return m

    def state(self):
        m = self.m
        sd = m.state_dict()
        st = {'training': bool(m.training)}

        def vec(name):
            t = sd.get(name, getattr(m, name, None))
            return None if t is None else t.detach().double().reshape(-1).tolist()
        if self.layer == 'actnorm':
            ini = sd.get('initialized', getattr(m, 'initialized', None))
            st['initialized'] = None if ini is None else bool(ini)
            st['in_state_dict'] = 'initialized' in sd
            st['a'] = vec('log_scale')
            st['b'] = vec('shift')
            st['count'] = self.ninit if self.count_ok else None
        else:
            st['initialized'] = None
            st['a'] = vec('running_mean')
            st['b'] = vec('running_var')
            st['uw'] = vec('unconstrained_weight')
            st['bias'] = vec('bias')
            st['count'] = None
        return st

    def step(self, op):
        k = op['k']
        res = {'err': '-', 'out': None, 'ld': None}
        if k == 'train':
            self.m.train()
        elif k == 'eval':
            self.m.eval()
        elif k == 'reload':
            buf = io.BytesIO()
            torch.save(self.m.state_dict(), buf)
            buf.seek(0)
            sd = torch.load(buf)
            new = self._build(seed=7)
            # the checkpoint goes into the fresh layer directly, or through the module that contains it (flow.load_state_dict)
            self.nreload = getattr(self, 'nreload', 0) + 1
            via = self.case.get('reload_via', 'direct')
            if via == 'container' or (via == 'alternate' and self.nreload % 2 == 1):
                outer = torch.nn.ModuleList([torch.nn.ModuleList([new])])
                outer.load_state_dict({'0.0.' + kk: vv for kk, vv in sd.items()})
            else:
                new.load_state_dict(sd)
            self.m = new
        else:
            b = op['b']
            x = torch.tensor(b['x'], dtype=torch.float64).reshape(b['shape'])
            x0 = x.clone()
            self.ncall = getattr(self, 'ncall', 0) + 1
            ag = self.case.get('autograd', 'on')
            grad_on = ag == 'on' or (ag == 'alternate' and self.ncall % 2 == 0)
            try:
                with torch.set_grad_enabled(grad_on):      # a warm-up / evaluation pass is often run inside torch.no_grad()
                    out, ld = self.m.forward(x) if k == 'fwd' else self.m.inverse(x)
                res = {'err': '', 'out': out.detach().double().reshape(-1).tolist(), 'ld': ld.detach().double().reshape(-1).tolist(),
                       'out_shape': list(out.shape)}
            except Exception as e:   # noqa
                res = {'err': err_kind(e), 'out': None, 'ld': None, 'msg': repr(e)[:200]}
            if not torch.equal(x, x0):
                res['mutated_input'] = True
        res['state'] = self.state()
        return res


def run_impl(case):
    im = Impl(case)
    init = im.state()
    return init, [im.step(op) for op in case['hist']]


# ------------------------------------------------------------------------------------------------------------
# the Lean model
def model_req(case, init):
    hist = []
    for op in case['hist']:
        if op['k'] in ('fwd', 'inv'):
            hist.append({'k': op['k'], 'shape': op['b']['shape'], 'x': bits.enc(op['b']['x'])})
        else:
            hist.append({'k': op['k']})
    if case['layer'] == 'actnorm':
        f = [bits.enc(init['a']), bits.enc(init['b'])]
        d = []
        ini = 1 if init['initialized'] else 0
    else:
        f = [bits.enc(init['a']), bits.enc(init['b']), bits.enc(init['uw']), bits.enc(init['bias'])]
        d = [bits.f64_bits(case['eps']), bits.f64_bits(case['momentum'])]
        ini = 0
    return {'op': 'c14_hist', 's': [case['layer']], 'i': [case['F'], 1 if init['training'] else 0, ini], 'f': f, 'd': d,
            'hist': hist}


def model_steps(resp, n):
    if resp.get('e'):
        raise RuntimeError('model driver error: %r' % resp['e'])
    out = []
    for t in range(n):
        e = resp['s'][t]
        out.append({'err': e,
                    'out': bits.dec(resp['f'][4 * t]) if e == '' else None,
                    'ld': bits.dec(resp['f'][4 * t + 1]) if e == '' else None,
                    'state': {'training': bool(resp['i'][3 * t]), 'initialized': bool(resp['i'][3 * t + 1]),
                              'count': resp['i'][3 * t + 2],
                              'a': bits.dec(resp['f'][4 * t + 2]), 'b': bits.dec(resp['f'][4 * t + 3])}})
    return out


# ------------------------------------------------------------------------------------------------------------
# comparison
def close(a, b, tol=TOL):
    if a is None or b is None:
        return a is b
    if math.isnan(a) or math.isnan(b):
        return math.isnan(a) and math.isnan(b)
    if math.isinf(a) or math.isinf(b):
        return a == b
    return abs(a - b) <= tol * (1.0 + max(abs(a), abs(b)))


def vec_close(u, v, tol=TOL, exact=False):
    if u is None or v is None:
        return u is v
    if len(u) != len(v):
        return False
    if exact:
        return all((x == y) or (math.isnan(x) and math.isnan(y)) for x, y in zip(u, v))
    return all(close(x, y, tol) for x, y in zip(u, v))


def compare_step(case, t, im, mo):
    """-> list of (field, impl, model) differences at step t"""
    diffs = []
    if im['err'] != mo['err']:
        diffs.append(('error-kind', im['err'], mo['err']))
        return diffs
    if im['err'] == '':
        if not vec_close(im['out'], mo['out']):
            diffs.append(('outputs', im['out'], mo['out']))
        if not vec_close(im['ld'], mo['ld']):
            diffs.append(('logabsdet', im['ld'], mo['ld']))
    si, sm = im['state'], mo['state']
    if si['training'] != sm['training']:
        diffs.append(('training', si['training'], sm['training']))
    if case['layer'] == 'actnorm':
        if si['initialized'] is not None and si['initialized'] != sm['initialized']:
            diffs.append(('initialized', si['initialized'], sm['initialized']))
        if si.get('count') is not None and si['count'] != sm['count']:
            diffs.append(('initialisation-count', si['count'], sm['count']))
        if not vec_close(si['a'], sm['a']):
            diffs.append(('log_scale', si['a'], sm['a']))
        if not vec_close(si['b'], sm['b']):
            diffs.append(('shift', si['b'], sm['b']))
    else:
        if not vec_close(si['a'], sm['a'], exact=case.get('exact_mean', False)):
            diffs.append(('running_mean', si['a'], sm['a']))
        if not vec_close(si['b'], sm['b'], exact=case.get('exact_var', False)):
            diffs.append(('running_var', si['b'], sm['b']))
    return diffs


# ------------------------------------------------------------------------------------------------------------
# generation
def base_case(layer, dims, F, momentum=0.5, eps=1e-5, variant='default', rng=None):
    case = {'layer': layer, 'dims': dims, 'F': F, 'variant': variant, 'hist': []}
    if layer == 'batchnorm':
        case['eps'] = eps
        case['momentum'] = momentum
        if variant == 'trained':
            case['params'] = {'unconstrained_weight': [rng.uniform(-2, 2) for _ in range(F)],
                              'bias': [rng.uniform(-1, 1) for _ in range(F)]}
    elif variant == 'trained':
        case['params'] = {'log_scale': [rng.uniform(-1, 1) for _ in range(F)], 'shift': [rng.uniform(-1, 1) for _ in range(F)]}
    return case


def exhaustive_cases(L, L4=None):
    """every history of length L (L4 for the 4-D ActNorm) over the 6-letter alphabet, for ActNorm 2-D / 4-D and BatchNorm
    (momentum 1/4)"""
    for layer, dims in (('actnorm', 2), ('actnorm', 4), ('batchnorm', 2)):
        fx = FIXED[dims]
        alphabet = [{'k': 'train'}, {'k': 'eval'}, {'k': 'reload'}, {'k': 'fwd', 'b': fx['b1']}, {'k': 'fwd', 'b': fx['b2']},
                    {'k': 'inv', 'b': fx['b3']}]
        for nw, word in enumerate(itertools.product(alphabet, repeat=(L4 if (dims == 4 and L4) else L))):
            case = base_case(layer, dims, 2, momentum=0.25)
            case['hist'] = list(word)
            case['autograd'] = ('on', 'off', 'alternate')[nw % 3]
            case['reload_via'] = ('direct', 'container')[(nw // 3) % 2]
            case['regime'] = 'fixed'
            # b1 (B=3) and b2 (B=2) are dyadic with column sums divisible by B: statistics exact in binary64
            case['exact_mean'] = case['exact_var'] = True
            case['stream'] = 'exhaustive'
            yield case


def random_case(rng):
    layer, dims = rng.choice([('actnorm', 2), ('actnorm', 4), ('batchnorm', 2), ('batchnorm', 2)])
    F = rng.choice([1, 2, 3, 4])
    variant = rng.choice(['default', 'default', 'trained'])
    case = base_case(layer, dims, F, momentum=rng.choice(MOMENTA), variant=variant, rng=rng)
    regime = rng.choice(['dyadic23', 'dyadic23', 'dyadic59', 'float'])
    if layer == 'actnorm' and dims == 4:
        regime = rng.choice(['int', 'float'])
    malformed = rng.random() < 0.25      # a quarter of the histories may contain malformed / degenerate batches
    n = rng.randint(1, 40)
    hist = []
    for _ in range(n):
        u = rng.random()
        if u < 0.12:
            hist.append({'k': 'train'})
        elif u < 0.24:
            hist.append({'k': 'eval'})
        elif u < 0.34:
            hist.append({'k': 'reload'})
        else:
            k = 'fwd' if u < 0.75 else 'inv'
            v = rng.random()
            if malformed and v < 0.10:
                bad = rng.choice([1, 3] + ([4] if layer == 'batchnorm' else []))
                b = float_batch(rng, {1: (3,), 3: (2, F, 2), 4: (2, F, 1, 2)}[bad], 'bad%d' % bad)
            elif malformed and v < 0.16:
                b = float_batch(rng, (1, F) if dims == 2 else (1, F, 1, 1), 'one1')
            elif malformed and v < 0.20 and dims == 2:
                b = const_col_batch(rng, rng.choice([2, 3]), F)
            elif dims == 4:
                shape = (rng.choice([1, 2, 3]), F, rng.choice([1, 2, 3]), rng.choice([1, 2]))
                b = int_batch4(rng, shape) if regime == 'int' else float_batch(rng, shape)
            elif regime == 'dyadic23':
                b = dyadic_batch(rng, rng.choice([2, 3]), F)
            elif regime == 'dyadic59':
                b = dyadic_batch(rng, rng.choice([2, 3, 5, 9]), F)
            else:
                b = float_batch(rng, (rng.choice([2, 3, 4, 5, 7, 8]), F))
            hist.append({'k': k, 'b': b})
    case['hist'] = hist
    case['autograd'] = rng.choice(['on', 'off', 'alternate'])
    case['reload_via'] = rng.choice(['direct', 'container', 'alternate'])
    case['regime'] = regime + ('+malformed' if malformed else '')
    # exactness of the BatchNorm statistics: integer data, column sums multiples of B (mean), and B-1 in {1,2} (variance;
    # torch's Welford reduction is inexact from B = 4 on).  The B=1 / constant / Gaussian batches of the malformed stream
    # would break it, so those histories are compared under the tolerance.
    case['exact_mean'] = regime in ('dyadic23', 'dyadic59') and not malformed
    case['exact_var'] = regime == 'dyadic23' and not malformed
    case['stream'] = 'random'
    return case


def case_key(case):
    return (case['layer'], case['dims'], case['F'], case.get('regime'), case.get('momentum'), case.get('variant'),
            ' '.join(o['k'] if 'b' not in o else '%s:%s' % (o['k'], 'x'.join(map(str, o['b']['shape']))) for o in case['hist']))


def nontrivial(case, init, steps):
    prev = init
    for op, st in zip(case['hist'], steps):
        s = st['state']
        if st['err'] == '' and st['out'] != op['b']['x']:
            return True
        if s['a'] != prev['a'] or s['b'] != prev['b']:
            return True
        if case['layer'] == 'actnorm' and bool(s.get('initialized')) != bool(prev.get('initialized')):
            return True
        prev = s
    return False


def branch_of(case, steps):
    name = '%s%dd' % (case['layer'], case['dims'])
    if case['layer'] == 'actnorm':
        at = next((t for t, s in enumerate(steps) if s['state']['initialized']), None)
        return '%s/%s' % (name, 'never-initialised' if at is None else 'initialised-at-step-%s' % (at if at < 6 else '6+'))
    ups = sum(1 for op, s in zip(case['hist'], steps) if op['k'] == 'fwd' and s['err'] == '' and s['state']['training'])
    return '%s/updates-%s' % (name, ups if ups < 4 else '4+')


def slim(case, upto=None):
    """JSON-able copy of a case with exact bits for every batch"""
    c = {k: v for k, v in case.items() if k != 'hist'}
    c['history'] = [op_str(o) for o in case['hist'][:upto]]
    c['hist'] = [dict(k=o['k']) if 'b' not in o else {'k': o['k'], 'b': dict(o['b'], bits=bits.enc(o['b']['x']))}
                 for o in case['hist'][:upto]]
    return c


_SAMPLED = set()


def check_cases(ctx, cases):
    if not cases:
        return
    runs = []
    for case in cases:
        init, steps = run_impl(case)
        runs.append((case, init, steps))
    resps = leandriver.call([model_req(c, i) for (c, i, _) in runs])
    for (case, init, steps), resp in zip(runs, resps):
        msteps = model_steps(resp, len(steps))
        bad = None
        for t, (im, mo) in enumerate(zip(steps, msteps)):
            d = compare_step(case, t, im, mo)
            if im.get('mutated_input'):
                d.append(('caller-tensor-modified', True, False))
            if d:
                bad = (t, d)
                break
        for st in steps:
            if st['err'] not in ('', '-'):
                ctx.count('error:' + st['err'])
        nt = nontrivial(case, init, msteps)
        skey = (case['layer'], case['dims'], case.get('stream'))
        sample = None
        if nt and len(case['hist']) >= 4 and skey not in _SAMPLED and any(o['k'] == 'fwd' for o in case['hist']):
            _SAMPLED.add(skey)
            sample = {'layer': case['layer'], 'dims': case['dims'], 'F': case['F'], 'stream': case.get('stream'),
                      'regime': case.get('regime'), 'momentum': case.get('momentum'), 'variant': case.get('variant'),
                      'history': hist_sig(case['hist']),
                      'batches': {o['b']['tok']: {'shape': o['b']['shape'], 'x': o['b']['x'][:12]} for o in case['hist'][:8] if 'b' in o},
                      'final_state_impl': {k: steps[-1]['state'].get(k) for k in ('training', 'initialized', 'a', 'b')}}
        ctx.case(key=case_key(case), branch=branch_of(case, msteps), nontrivial=nt, sample=sample)
        if bad:
            t, d = bad
            ctx.disagree('c14_hist/' + case['layer'], slim(case, t + 1),
                         {f: i for (f, i, _) in d}, {f: m for (f, _, m) in d},
                         'first difference at step %d (%s): %s' % (t, op_str(case['hist'][t]), ', '.join(f for f, _, _ in d)))


def correspondence(ctx):
    torch.set_num_threads(1)
    L, L4 = (5, 4) if ctx.quick() else (6, 6)
    n_random = 1500 if ctx.quick() else 12000
    n_ex, chunk = 0, []
    for case in exhaustive_cases(L, L4):
        chunk.append(case)
        if len(chunk) == 2000:
            check_cases(ctx, chunk)
            n_ex += len(chunk)
            chunk = []
    check_cases(ctx, chunk)
    n_ex += len(chunk)
    ctx.exhaustive = True
    ctx.extra['exhaustive_scope'] = ('all %d histories of length %d (ActNorm 2-D, BatchNorm) / %d (ActNorm 4-D) over the 6-letter alphabet, hence all shorter '
                                    'ones as prefixes; the random stream is sampled, not exhaustive' % (n_ex, L, L4))
    rnd = [random_case(ctx.rng) for _ in range(n_random)]
    for i in range(0, len(rnd), 500):
        check_cases(ctx, rnd[i:i + 500])
    if not ctx.samples:
        c = rnd[0]
        ctx.samples.append({'layer': c['layer'], 'history': hist_sig(c['hist'])})
    # the theorems' decidable side conditions on the constructor defaults read from the code
    try:
        import inspect
        from nflows.transforms.normalization import BatchNorm
        sig = inspect.signature(BatchNorm.__init__)
        m, e = sig.parameters['momentum'].default, sig.parameters['eps'].default
        ctx.extra['batchnorm_defaults'] = {'momentum': m, 'eps': e}
        if not (0 <= m <= 1 and e > 0):
            ctx.notes.append('BatchNorm defaults outside 0 <= momentum <= 1, eps > 0: %r %r' % (m, e))
    except Exception as ex_:    # best effort (white-box)
        ctx.notes.append('could not read BatchNorm defaults: %r' % (ex_,))


# ------------------------------------------------------------------------------------------------------------
# the property's own oracle: a reference model of the DOCUMENTED behaviour, in plain Python (independent of the Lean
# model), run in lock-step with the implementation; only used to search for a failing input once something broke
OTOL = 1e-9


def _channels(b):
    """per feature / channel: list of values, or None if the number of dimensions is not 2 / 4"""
    sh, x = b['shape'], b['x']
    if len(sh) == 2:
        B, F = sh
        return [[x[i * F + j] for i in range(B)] for j in range(F)]
    if len(sh) == 4:
        B, C, H, W = sh
        return [[x[((i * C + c) * H + h) * W + w] for i in range(B) for h in range(H) for w in range(W)] for c in range(C)]
    return None


def _stats(col):
    n = len(col)
    mu = math.fsum(col) / n
    var = math.fsum((v - mu) ** 2 for v in col) / (n - 1) if n > 1 else float('nan')
    return mu, var


def _softplus(x):
    return x if x > 20 else math.log1p(math.exp(x))


def _log(x):
    return math.log(x) if x > 0 else (float('-inf') if x == 0 else float('nan'))


def _per_channel(b, f):
    """apply f(c, value) to every entry, row-major"""
    sh, x = b['shape'], b['x']
    if len(sh) == 2:
        F = sh[1]
        return [f(i % F, v) for i, v in enumerate(x)]
    B, C, H, W = sh
    return [f((i // (H * W)) % C, v) for i, v in enumerate(x)]


class RefActNorm:
    """Documented: data-dependent initialisation exactly once, on the first training-mode forward pass, such that that
    batch has zero mean / unit (unbiased) variance per feature or channel; afterwards y = exp(log_scale) x + shift."""

    def __init__(self, init):
        self.training = init['training']
        self.done = bool(init['initialized'])
        self.ls = list(init['a'])
        self.sh = list(init['b'])

    def step(self, op):
        k = op['k']
        if k == 'train':
            self.training = True
        elif k == 'eval':
            self.training = False
        elif k == 'reload':
            self.training = True          # a newly built module is in training mode; everything else is in the state dict
        else:
            ch = _channels(op['b'])
            if ch is None:
                return {'err': 'ValueError'}
            if k == 'fwd' and self.training and not self.done:
                self.ls, self.sh = [], []
                for col in ch:
                    mu, var = _stats(col)
                    sd = math.sqrt(var) if var >= 0 else float('nan')
                    with_nan = not (sd > 0)
                    self.ls.append(float('nan') if with_nan else -math.log(sd))
                    self.sh.append(float('nan') if with_nan else -mu / sd)
                self.done = True
            sh4 = op['b']['shape']
            hw = sh4[2] * sh4[3] if len(sh4) == 4 else 1
            tot = hw * math.fsum(self.ls)
            B = sh4[0]
            if k == 'fwd':
                return {'err': '', 'out': _per_channel(op['b'], lambda c, v: math.exp(self.ls[c]) * v + self.sh[c]), 'ld': [tot] * B}
            return {'err': '', 'out': _per_channel(op['b'], lambda c, v: (v - self.sh[c]) / math.exp(self.ls[c])), 'ld': [-tot] * B}
        return {'err': '-'}


class RefBatchNorm:
    """Documented: training-mode forward normalises with the batch mean / (unbiased) variance and moves the running
    statistics by r <- (1 - momentum) r + momentum s; evaluation mode uses the running statistics and changes nothing;
    the inverse exists only in evaluation mode; 2-D inputs only."""

    def __init__(self, init, case):
        self.training = init['training']
        self.rm, self.rv = list(init['a']), list(init['b'])
        self.w = [_softplus(u) + case['eps'] for u in init['uw']]
        self.bias = list(init['bias'])
        self.eps, self.m = case['eps'], case['momentum']

    def step(self, op):
        k = op['k']
        if k == 'train':
            self.training = True
        elif k == 'eval':
            self.training = False
        elif k == 'reload':
            self.training = True
        elif k == 'fwd':
            if len(op['b']['shape']) != 2:
                return {'err': 'ValueError'}
            ch = _channels(op['b'])
            if self.training:
                st = [_stats(col) for col in ch]
                mean, var = [s[0] for s in st], [s[1] for s in st]
                self.rm = [r * (1 - self.m) + s * self.m for r, s in zip(self.rm, mean)]
                self.rv = [r * (1 - self.m) + s * self.m for r, s in zip(self.rv, var)]
            else:
                mean, var = self.rm, self.rv
            out = _per_channel(op['b'], lambda c, v: self.w[c] * ((v - mean[c]) / math.sqrt(var[c] + self.eps)) + self.bias[c]
                               if not math.isnan(var[c]) else float('nan'))
            ld = math.fsum(_log(self.w[c]) - 0.5 * _log(var[c] + self.eps) if not math.isnan(var[c]) else float('nan') for c in range(len(self.w)))
            return {'err': '', 'out': out, 'ld': [ld] * op['b']['shape'][0]}
        else:
            if self.training:
                return {'err': 'InverseNotAvailable'}
            if len(op['b']['shape']) != 2:
                return {'err': 'ValueError'}
            nanv = [math.isnan(v) for v in self.rv]
            out = _per_channel(op['b'], lambda c, v: float('nan') if nanv[c] else
                               math.sqrt(self.rv[c] + self.eps) * ((v - self.bias[c]) / self.w[c]) + self.rm[c])
            ld = math.fsum(float('nan') if nanv[c] else -_log(self.w[c]) + 0.5 * _log(self.rv[c] + self.eps) for c in range(len(self.w)))
            return {'err': '', 'out': out, 'ld': [ld] * op['b']['shape'][0]}
        return {'err': '-'}


def _oclose(u, v):
    return vec_close(u, v, tol=OTOL)


def _oclose_ref(impl, ref):
    """values are compared where the documented behaviour defines a finite value (a B=1 or constant-column batch makes
    std NaN / 0: the documented behaviour is silent there, the correspondence still pins what the code does)"""
    if impl is None or ref is None or len(impl) != len(ref):
        return False
    return all(close(i, r, OTOL) for i, r in zip(impl, ref) if math.isfinite(r))


def oracle(case):
    """run the implementation against the documented behaviour; -> None or (step index, description)"""
    try:
        im = Impl(case)
    except Exception as e:   # noqa
        return (0, 'constructing the layer raised %r' % (e,))
    init = im.state()
    act = case['layer'] == 'actnorm'
    ref = RefActNorm(init) if act else RefBatchNorm(init, case)
    prev = init
    for t, op in enumerate(case['hist']):
        st = im.step(op)
        rf = ref.step(op)
        s = st['state']
        where = 'step %d (%s)' % (t, op_str(op))
        if st.get('mutated_input'):
            return (t, where + ': the caller\'s input tensor was modified')
        if act:
            was, now = prev['initialized'], s['initialized']
            should = (op['k'] == 'fwd' and prev['training'] and not was and _channels(op['b']) is not None)
            changed = not (_oclose(prev['a'], s['a']) and _oclose(prev['b'], s['b']))
            if now is not None and was is not None:
                if was and not now:
                    return (t, where + ': `initialized` went back to False')
                if now and not was and not should:
                    return (t, where + ': data-dependent initialisation ran although this is not the first training-mode forward pass '
                                       '(mode=%s)' % ('train' if prev['training'] else 'eval'))
                if should and not now:
                    return (t, where + ': first training-mode forward pass did not initialise')
            if changed and not should:
                return (t, where + ': log_scale / shift changed although no initialisation is due (initialized=%s before the step)' % was)
            if should and st['err'] == '':
                ch = _channels({'shape': op['b']['shape'], 'x': st['out']})
                for c, (col, cin) in enumerate(zip(ch, _channels(op['b']))):
                    if len(col) >= 2 and (max(cin) - min(cin)) > 1e-6:
                        mu, var = _stats(col)
                        if not (abs(mu) <= 1e-8 and abs(var - 1) <= 1e-8):
                            return (t, where + ': the initialising batch comes out with mean %.6g, unbiased variance %.6g in feature/channel %d' % (mu, var, c))
            if ref.done != bool(now) and now is not None:
                return (t, where + ': initialized=%s, documented behaviour %s' % (now, ref.done))
        else:
            if op['k'] != 'fwd' or not prev['training'] or st['err'] != '':
                if not (vec_close(prev['a'], s['a'], exact=True) and vec_close(prev['b'], s['b'], exact=True)):
                    return (t, where + ': running statistics changed outside a training-mode forward pass (mode=%s)' % ('train' if prev['training'] else 'eval'))
            if not (_oclose_ref(s['a'], ref.rm) and _oclose_ref(s['b'], ref.rv)):
                return (t, where + ': running statistics %r / %r, momentum rule gives %r / %r' % (s['a'], s['b'], ref.rm, ref.rv))
            if op['k'] == 'inv' and prev['training'] and st['err'] != 'InverseNotAvailable':
                return (t, where + ': inverse in training mode was not refused (got %r)' % (st['err'] or 'a value'))
        if s['training'] != ref.training:
            return (t, where + ': training flag %s, expected %s' % (s['training'], ref.training))
        if st['err'] != rf['err']:
            return (t, where + ': outcome %r, documented behaviour %r' % (st['err'] or 'value', rf['err'] or 'value'))
        if st['err'] == '':
            if not _oclose_ref(st['out'], rf['out']):
                return (t, where + ': outputs differ from the documented behaviour (mode=%s)' % ('train' if prev['training'] else 'eval'))
            if not _oclose_ref(st['ld'], rf['ld']):
                return (t, where + ': log-abs-det %r, documented behaviour %r' % (st['ld'][:2], rf['ld'][:2]))
        prev = s
    return None


def shrink(case, budget=300):
    """greedy: cut after the failing step, then drop single steps while the oracle still fails"""
    r = oracle(case)
    if r is None:
        return case, None
    cur = dict(case, hist=case['hist'][:r[0] + 1])
    n = 0
    progress = True
    while progress and n < budget:
        progress = False
        for i in range(len(cur['hist']) - 1, -1, -1):
            n += 1
            cand = dict(cur, hist=cur['hist'][:i] + cur['hist'][i + 1:])
            rr = oracle(cand)
            if rr is not None:
                cur = dict(cand, hist=cand['hist'][:rr[0] + 1])
                progress = True
                break
    return cur, oracle(cur)


LAYER_NAME = {'actnorm': 'ActNorm', 'batchnorm': 'BatchNorm'}


def report(ctx, case, seen):
    small, r = shrink(case)
    if r is None:
        return
    m = {'layer': LAYER_NAME[small['layer']], 'history': [op_str(o) for o in small['hist']]}
    key = (m['layer'], tuple(m['history']))
    if key in seen:
        return
    seen.add(key)
    ctx.fail('%s: %s' % (m['layer'], r[1]), slim(small), detail={'dims': small['dims'], 'F': small['F']}, match=m)


def case_from_slim(c):
    case = {k: v for k, v in c.items() if k not in ('hist', 'history')}
    case['hist'] = [dict(k=o['k']) if 'b' not in o else
                    {'k': o['k'], 'b': {'tok': o['b']['tok'], 'shape': o['b']['shape'],
                                        'x': bits.dec(o['b']['bits']) if 'bits' in o['b'] else o['b']['x']}} for o in c['hist']]
    return case


def search(ctx):
    torch.set_num_threads(1)
    seen = set()
    t0 = ctx.elapsed()
    budget = 240 if ctx.quick() else 1500
    # 1. the disagreeing cases themselves
    for d in ctx.disagreements[:40]:
        c = d.get('case')
        if isinstance(c, dict) and 'hist' in c:
            try:
                report(ctx, case_from_slim(c), seen)
            except Exception as e:   # noqa
                ctx.notes.append('search: could not re-run a disagreeing case: %r' % (e,))
        if len(ctx.failing) >= 8:
            return
    # 2. every short history, then random ones
    for case in exhaustive_cases(3):
        if oracle(case) is not None:
            report(ctx, case, seen)
        if len(ctx.failing) >= 8 or ctx.elapsed() - t0 > budget:
            return
    rng = random.Random(ctx.seed + 1414)
    for _ in range(400 if ctx.quick() else 4000):
        case = random_case(rng)
        if oracle(case) is not None:
            report(ctx, case, seen)
        if len(ctx.failing) >= 8 or ctx.elapsed() - t0 > budget:
            return


def _case_from_match(m):
    layer = {v: k for k, v in LAYER_NAME.items()}.get(m.get('layer'), 'actnorm')
    dims = m.get('dims', 2)
    F = m.get('F', 2)
    case = base_case(layer, dims, F, momentum=m.get('momentum', 0.25))
    hist = []
    for i, s in enumerate(m.get('history', [])):
        if ':' in s:
            k, tok = s.split(':', 1)
            hist.append({'k': k, 'b': tok_batch(tok, F, dims, i)})
        else:
            hist.append({'k': s})
    case['hist'] = hist
    return case


def replay_finding(ctx, entry):
    torch.set_num_threads(1)
    c = entry.get('case')
    case = case_from_slim(c) if isinstance(c, dict) and 'hist' in c else _case_from_match(entry.get('match', {}))
    return oracle(case) is not None


def replay(ctx, payload):
    torch.set_num_threads(1)
    f = payload.get('failing') or {}
    c = f.get('case')
    if isinstance(c, dict) and 'hist' in c:
        r = oracle(case_from_slim(c))
        if r is not None:
            print('still fails: %s' % r[1])
        return r is not None
    cs = (payload.get('broken') or {}).get('correspondence') or []
    for d in cs:
        c = d.get('case')
        if isinstance(c, dict) and 'hist' in c:
            case = case_from_slim(c)
            init, steps = run_impl(case)
            ms = model_steps(leandriver.call([model_req(case, init)])[0], len(steps))
            if any(compare_step(case, t, a, b) for t, (a, b) in enumerate(zip(steps, ms))):
                return True
    return False
