"""C18 — the distribution interface keeps its documented shape and argument contract.

Theorems: Properties.C18 — for every class whose hooks meet the hook contract (proved per class), every n > 0, every
batch size b > 0 (dividing n or not), every number R of context rows and every event shape:
`sample` = [n]+event / [R, n]+event, batched or not; `log_prob` = [rows]; row mismatch <=> ValueError;
non-positive-int num_samples / batch_size <=> TypeError; `sample_and_log_prob` shapes match; Flow inherits all of it.
Correspondence: exhaustive grid  class x call x num_samples x batch_size x context rows x event shape, shapes and
exception classes compared exactly with the Lean shape model (driver op `c18`), plus the draw layout of batched
generation (op `c18_batch`) compared exactly with seeded re-generation of the individual batches."""
import itertools, json
import torch
from harness.common import leandriver, distflows as DF

PROPERTY = 'C18'
LEVEL = 'proof'
REQUIRED_THEOREMS = [
    'Properties.C18.sample_shape', 'Properties.C18.batched_sample_shape', 'Properties.C18.sample_rejects_iff',
    'Properties.C18.batch_size_rejects_iff', 'Properties.C18.logprob_shape', 'Properties.C18.logprob_rejects_iff',
    'Properties.C18.sample_and_log_prob_shapes_match', 'Properties.C18.flow_sample_and_log_prob_shapes_match',
    'Properties.C18.flow_meets_contract', 'Properties.C18.stdNormal_meets_contract',
    'Properties.C18.batchLayout_spec',
    'Properties.C18.sample_is_cat_of_pieces', 'Properties.C18.sample_pieces_have_batch_sizes', 'Properties.C18.sample_values_shape_is_sample', 'Properties.C18.sample_values_follow_batch_layout', 'Properties.C18.sample_values_draw_position', 'Properties.C18.sample_values_batched_eq_unbatched',
]
RULE = ("exhaustive grid: every cheaply constructible Distribution/Flow configuration (StandardNormal, ConditionalDiagonalNormal, "
        "DiagonalNormal, ConditionalIndependentBernoulli, MADEMoG, Flow over StandardNormal / ConditionalDiagonalNormal with a "
        "context-dependent transform with and without embedding net, SimpleRealNVP, MaskedAutoregressiveFlow) x event shapes "
        "[1],[3],[2,2] x call (sample / sample_and_log_prob / log_prob) x num_samples in {-1,0,1,2,3,5,7,2.0,True,'3',None} x "
        "batch_size in {None,1,2,3,4,8,0,2.5,True} x context in {none,1,2,3 rows} (log_prob: rows 1..3 x context none / matching / "
        "one more / one fewer row, and a wrong event shape); a case is distinct by (configuration, call, num_samples, batch_size, "
        "context rows, input rows) and non-trivial when the implementation returned tensors (not an exception)")
EXPLANATION = ("Lean theorems about the executed shape model (any n, b, R, event shape, any class meeting the hook contract, Flow "
               "closure); the model is tied to /repo by an exhaustive differential grid with exact comparison of shapes and "
               "exception classes")
ASSUMPTIONS = [
    "contexts are 2-D [rows, width] with the width the configuration was built for; event dimensions are positive",
    "ConditionalDiagonalNormal / ConditionalIndependentBernoulli are modelled with their default (identity) context encoder",
    "the 'batching does not change the distribution' clause: the pieces are independent draws by construction (RNG trusted); "
    "what is checked is that draw k of the result is draw (k mod b) of batch (k div b) for every context row (exact, seeded)",
]

N_GRID = [-1, 0, 1, 2, 3, 5, 7, 2.0, True, "3", None]
B_GRID = [None, 1, 2, 3, 4, 8, 0, 2.5, True]
CTX_ROWS = [None, 1, 2, 3]
# cases written out in the evidence file
EXEMPLARS = {('Flow(MAAT,StandardNormal[3],emb)', 'sample', '5', '2', 3), ('ConditionalDiagonalNormal[2x2]', 'sample', '7', '3', 2),
             ('Flow(CtxAffine,ConditionalDiagonalNormal[2x2],emb)', 'sample_and_log_prob', '3', 'None', 2),
             ('StandardNormal[3]', 'sample', '0', 'None', None), ('StandardNormal[3]', 'sample', 'True', '2', 2)}


def enc(v):
    if isinstance(v, bool):
        return {'t': 'bool', 'v': int(v)}
    if isinstance(v, int):
        return {'t': 'int', 'v': v}
    if isinstance(v, float):
        return {'t': 'float'}
    if v is None:
        return {'t': 'none'}
    return {'t': 'str'}


def dec(e):
    t = e['t']
    if t == 'bool':
        return bool(e['v'])
    if t == 'int':
        return int(e['v'])
    if t == 'float':
        return 2.5
    if t == 'none':
        return None
    return "3"


def is_pos_int_doc(v):
    """the documented argument contract: a positive integer"""
    return isinstance(v, int) and v > 0


def mk_ctx(cfg, rows):
    return None if rows is None else torch.zeros(rows, cfg.ctxw) + torch.arange(rows).reshape(-1, 1) * 0.1


def run_call(obj, cfg, call, n, b, rows, in_shape=None):
    """-> ('ok', [shape, ...]) | ('err', kind)"""
    ctx = mk_ctx(cfg, rows)
    try:
        with torch.no_grad():
            if call == 'sample':
                r = obj.sample(n, context=ctx, batch_size=b)
                return 'ok', [list(r.shape)]
            if call == 'sample_and_log_prob':
                s, l = obj.sample_and_log_prob(n, context=ctx)
                return 'ok', [list(s.shape), list(l.shape)]
            x = torch.zeros(*in_shape)
            r = obj.log_prob(x, context=ctx)
            return 'ok', [list(r.shape)]
    except Exception as e:  # the exception class is the observable
        return 'err', DF.err_kind(e)


def cells(cfg):
    for n, b, rows in itertools.product(N_GRID, B_GRID, CTX_ROWS):
        yield ('sample', n, b, rows, None)
    for n, rows in itertools.product(N_GRID, CTX_ROWS):
        yield ('sample_and_log_prob', n, None, rows, None)
    for in_rows in (1, 2, 3):
        for rows in (None, in_rows, in_rows + 1, in_rows - 1):
            if rows == 0:
                continue
            yield ('log_prob', None, None, rows, [in_rows] + cfg.event)
    # a wrong event shape (one extra trailing feature), only where the class validates it itself
    if cfg.model['k'] != 'Flow' and cfg.model['k'] != 'MADEMoG':
        bad = cfg.event[:-1] + [cfg.event[-1] + 1]
        for rows in (None, 2):
            yield ('log_prob', None, None, rows, [2] + bad)


def model_req(cfg, call, n, b, rows, in_shape):
    return {'op': 'c18', 'call': call, 'cls': cfg.model, 'n': enc(n), 'b': enc(b),
            'ctx': None if rows is None else [rows, cfg.ctxw], 'inputs': in_shape or []}


def case_of(cfg, call, n, b, rows, in_shape):
    return {'cfg': cfg.name, 'call': call, 'n': enc(n), 'b': enc(b), 'ctx_rows': rows, 'inputs': in_shape}


def all_cfgs(ctx):
    torch.manual_seed(ctx.seed)
    return [c for c in DF.configs() if c.in_c18]


def correspondence(ctx):
    torch.manual_seed(ctx.seed)
    cfgs = all_cfgs(ctx)
    reqs, metas = [], []
    for cfg in cfgs:
        obj = cfg.build()
        obj.eval()
        for (call, n, b, rows, in_shape) in cells(cfg):
            impl = run_call(obj, cfg, call, n, b, rows, in_shape)
            reqs.append(model_req(cfg, call, n, b, rows, in_shape))
            metas.append((cfg, call, n, b, rows, in_shape, impl))
    resps = leandriver.call(reqs)
    for (cfg, call, n, b, rows, in_shape, impl), resp in zip(metas, resps):
        model = ('err', resp['e']) if resp.get('e') else ('ok', resp['f'])
        case = case_of(cfg, call, n, b, rows, in_shape)
        ok = impl[0] == 'ok'
        branch = '%s/%s' % (call, 'ok' if ok else impl[1])
        show = (cfg.name, call, repr(n), repr(b), rows) in EXEMPLARS or (call == 'log_prob' and cfg.name == 'MADEMoG[3]' and rows == 3)
        ctx.case(key=(cfg.name, call, repr(n), repr(b), rows, json.dumps(in_shape)), branch=branch, nontrivial=ok,
                 sample=dict(case, impl=impl, model=model) if show else None)
        if impl != model:
            ctx.disagree('c18/' + call, case, impl, model, 'shape / exception class differs')
    batch_layout(ctx, cfgs)
    scalar_events(ctx)
    ctx.exhaustive = True
    ctx.extra['configurations'] = [c.name for c in cfgs]


def scalar_events(ctx, report=None):
    """event shape [] (inputs of shape [batch]): the documented shapes with an EMPTY event part — log_prob [rows], sample [n] / [R, n],
    sample_and_log_prob ([n], [n]) / ([R, n], [R, n]); the grid above keeps event dimensions positive, the shape model (Core/Dist:
    result = leading ++ event) covers the empty event as it stands"""
    from nflows.distributions import normal, discrete
    from nflows.flows.base import Flow
    from nflows.transforms import IdentityTransform
    built = [('StandardNormal[]', lambda: normal.StandardNormal([]), None), ('ConditionalDiagonalNormal[]', lambda: normal.ConditionalDiagonalNormal([]), 2),
             ('ConditionalIndependentBernoulli[]', lambda: discrete.ConditionalIndependentBernoulli([]), 1),
             ('Flow(Identity, StandardNormal[])', lambda: Flow(IdentityTransform(), normal.StandardNormal([])), None)]
    for name, mk, cw in built:
        d = mk(); d.eval()
        for R_ in ((None,) if cw is None else (1, 3)):
            c = None if cw is None else torch.zeros(R_, cw)
            rows = 4 if R_ is None else R_
            cells_ = [('log_prob', lambda: d.log_prob(torch.zeros(rows), c), [[rows]])]
            for n in (1, 3):
                lead = [n] if R_ is None else [R_, n]
                cells_.append(('sample', lambda n=n: d.sample(n, c), [lead]))
                cells_.append(('sample_and_log_prob', lambda n=n: d.sample_and_log_prob(n, c), [lead, lead]))
                cells_.append(('sample/batched', lambda n=n: d.sample(n, c, batch_size=2), [lead]))
            for call, f, want in cells_:
                try:
                    with torch.no_grad():
                        r = f()
                    got = [list(r.shape)] if torch.is_tensor(r) else [list(t.shape) for t in r]
                    kind = 'ok'
                except Exception as e:
                    got, kind = DF.err_kind(e), 'err'
                if report is None:
                    ctx.case(key=('scalar-event', name, call, R_, json.dumps(want)), branch='scalar-event/' + call, nontrivial=True)
                if kind != 'ok' or got != want:
                    case = {'class': name, 'call': call, 'context_rows': R_, 'event_shape': []}
                    if report is None:
                        ctx.disagree('c18/scalar-event', case, got, want, 'shape with an empty event part differs from leading ++ event')
                    else:
                        report('%s.%s with scalar events returns %s, documented %s' % (name, call, got, want), case,
                               {'class': name.split('[')[0].split('(')[0], 'symptom': 'scalar-event-shape', 'call': call})


# ---- value level: draw k of a batched sample is draw (k mod b) of batch (k div b), for every context row -------------
def batch_layout(ctx, cfgs):
    reqs, metas = [], []
    grid = [(n, b) for n in (1, 2, 3, 5, 7) for b in (1, 2, 3, 4, 8)]
    for cfg in cfgs:
        if not cfg.sample_implemented or cfg.name.startswith('MADEMoG'):
            continue   # MADEMoG consumes the RNG through Categorical: seeded pieces are still reproducible, but slow; covered by shapes
        obj = cfg.build()
        obj.eval()
        for rows in (None, 2):
            if rows is None and cfg.needs_ctx:
                continue
            if rows is not None and not cfg.supports_ctx:
                continue
            c = mk_ctx(cfg, rows)
            for (n, b) in (grid if len(cfg.event) == 1 and cfg.event[0] == 3 or ctx.tier == 'thorough' else grid[::4]):
                seed = ctx.seed * 1009 + n * 17 + b
                try:
                    with torch.no_grad():
                        torch.manual_seed(seed)
                        whole = obj.sample(n, context=c, batch_size=b)
                        torch.manual_seed(seed)
                        pieces = [obj._sample(b, c) for _ in range(n // b)]
                        if n % b:
                            pieces.append(obj._sample(n % b, c))
                except Exception as e:
                    whole, pieces = DF.err_kind(e), []
                reqs.append({'op': 'c18_batch', 'i': [n, b]})
                metas.append((cfg, rows, n, b, whole, pieces))
    resps = leandriver.call(reqs)
    for (cfg, rows, n, b, whole, pieces), resp in zip(metas, resps):
        lay = resp['i']   # flattened (piece, position) per draw
        case = {'cfg': cfg.name, 'call': 'sample/values', 'n': enc(n), 'b': enc(b), 'ctx_rows': rows, 'inputs': None}
        dim = 0 if rows is None else 1
        ctx.case(key=(cfg.name, 'values', n, b, rows), branch='sample-values/' + ('ctx' if rows else 'noctx'), nontrivial=n > b)
        if isinstance(whole, str):
            ctx.disagree('c18/batch-layout', case, {'error': whole}, {'layout': lay}, 'batched sampling raised')
            continue
        good = whole.dim() > dim and whole.shape[dim] * 2 == len(lay)
        if good:
            try:
                want = torch.stack([pieces[lay[2 * k]].select(dim, lay[2 * k + 1]) for k in range(len(lay) // 2)], dim)
                # canonical form: the draws of one context row form a multiset (i.i.d. draws have no order)
                good = want.shape == whole.shape and torch.equal(_canon(want, dim), _canon(whole, dim))
            except Exception:
                good = False
        if not good:
            ctx.disagree('c18/batch-layout', case, {'shape': list(whole.shape)}, {'layout': lay},
                         'the draws of the batched sample are not, context row by context row, the draws of the batches')


def _canon(t, dim):
    """sort the draws (axis `dim`) of every context row lexicographically"""
    if dim == 0:
        flat = t.reshape(t.shape[0], -1)
        idx = sorted(range(flat.shape[0]), key=lambda k: flat[k].tolist())
        return t[idx]
    return torch.stack([_canon(t[i], 0) for i in range(t.shape[0])], 0)


# ---- the property's own oracle on the implementation (documented contract), used by search / replay ----------------
def oracle_cell(cfg, obj, call, n, b, rows, in_shape):
    """-> None if the documented contract holds on this cell, else (what, match)"""
    kind, val = run_call(obj, cfg, call, n, b, rows, in_shape)
    R = rows
    if call in ('sample', 'sample_and_log_prob'):
        bad_n = not is_pos_int_doc(n)
        bad_b = call == 'sample' and b is not None and not is_pos_int_doc(b)
        if bad_n or bad_b:
            if kind == 'err' and val == 'TypeError':
                return None
            return ('%s(num_samples=%r, batch_size=%r) did not raise TypeError: %s' % (call, n, b, val),
                    {'class': cfg.name.split('[')[0], 'symptom': 'no-TypeError', 'call': call})
        if isinstance(n, bool) or isinstance(b, bool):
            # True is an int in Python: accepted as 1 or rejected with TypeError, both are within the contract
            if kind == 'err' and val == 'TypeError':
                return None
        if not cfg.sample_implemented:
            return None if (kind == 'err' and val == 'NotImplementedError') else \
                ('sampling is documented as not implemented but returned %s' % (val,), {'class': cfg.name, 'symptom': 'implemented?'})
        if R is not None and not cfg.supports_ctx:
            return None   # an unconditional flow given a context: outside the contract
        if R is None and cfg.needs_ctx:
            return None   # a conditional distribution / flow called without a context: outside the contract
        nn = int(n)
        want = [([nn] if R is None else [R, nn]) + cfg.event]
        if call == 'sample_and_log_prob':
            want.append([nn] if R is None else [R, nn])
        if kind == 'ok' and val == want:
            return None
        m = {'class': cfg.name.split('[')[0], 'call': call, 'context': R, 'symptom': val if kind == 'err' else 'shape'}
        if cfg.name.startswith('MADEMoG') and R is None and kind == 'err' and val == 'AttributeError':
            m = {'class': 'MADEMoG', 'context': None, 'symptom': 'AttributeError'}
        return ('%s(%r, context rows=%r, batch_size=%r) of %s gave %s, documented %s' % (call, n, R, b, cfg.name, val, want), m)
    # log_prob
    in_rows = in_shape[0]
    if R is not None and R != in_rows:
        if kind == 'err' and val == 'ValueError':
            return None
        return ('log_prob with %d input rows and %d context rows did not raise ValueError: %s' % (in_rows, R, val),
                {'class': cfg.name.split('[')[0], 'symptom': 'no-ValueError', 'call': 'log_prob'})
    if in_shape[1:] != cfg.event:
        return None if kind == 'err' else ('wrong event shape accepted', {'class': cfg.name, 'symptom': 'event-shape'})
    if R is not None and not cfg.supports_ctx:
        return None
    if R is None and cfg.needs_ctx:
        return None
    if kind == 'ok' and val == [[in_rows]]:
        return None
    return ('log_prob of %s on %d rows gave %s, documented [%d]' % (cfg.name, in_rows, val, in_rows),
            {'class': cfg.name.split('[')[0], 'call': 'log_prob', 'context': R, 'symptom': val if kind == 'err' else 'shape'})


def _oracle_fresh_draws(ctx, cfg, obj):
    """n draws are n draws: the batches of a batched sample, and the results of two successive calls, are separate tensors holding
    separate draws (continuous distributions: no two draws coincide; a result kept by the caller is not overwritten by the next call)"""
    if not cfg.sample_implemented or 'Bernoulli' in cfg.name or (cfg.name.startswith('MADEMoG') and not cfg.supports_ctx):
        return
    for rows in (None, 2):
        if (rows is None and (cfg.needs_ctx or cfg.name.startswith('MADEMoG'))) or (rows is not None and not cfg.supports_ctx):
            continue
        c = mk_ctx(cfg, rows)
        cls = cfg.name.split('[')[0]
        try:
            with torch.no_grad():
                torch.manual_seed(ctx.seed + 181)
                s = obj.sample(12, context=c, batch_size=4)
                flat = s.reshape(-1, int(torch.tensor(cfg.event).prod())) if rows is None else s.reshape(rows * 12, -1)
                ndist = len({tuple(r) for r in flat.tolist()})
                if list(s.shape[:1 if rows is None else 2]) == ([12] if rows is None else [rows, 12]) and ndist < flat.shape[0]:
                    ctx.fail('sample(12, batch_size=4) of %s returned only %d distinct draws out of %d (batches repeat each other)' % (cfg.name, ndist, flat.shape[0]),
                             {'cfg': cfg.name, 'call': 'sample/distinct', 'n': 12, 'b': 4, 'ctx_rows': rows, 'seed': ctx.seed + 181},
                             match={'class': cls, 'symptom': 'repeated-draws'})
                    return
                if rows is not None:
                    # two context rows holding the SAME values still get their own draws
                    c2 = torch.cat([c[:1], c[:1]], 0)
                    s2 = obj.sample(6, context=c2)
                    if s2.shape[0] == 2 and torch.equal(s2[0], s2[1]):
                        ctx.fail('sample(6, context) of %s with two identical context rows returned the same 6 draws for both rows (the rows share their noise)' % cfg.name,
                                 {'cfg': cfg.name, 'call': 'sample/rows-share-noise', 'n': 6, 'ctx_rows': 2, 'seed': ctx.seed + 181},
                                 match={'class': cls, 'symptom': 'rows-share-noise'})
                        return
                a = obj.sample(5, context=c)
                a0 = a.clone()
                b = obj.sample(5, context=c)
                if not torch.equal(a, a0) or torch.equal(a, b):
                    ctx.fail('two successive sample(5) calls of %s: the first result %s' % (cfg.name, 'was overwritten by the second call' if not torch.equal(a, a0) else 'equals the second'),
                             {'cfg': cfg.name, 'call': 'sample/successive', 'n': 5, 'ctx_rows': rows, 'seed': ctx.seed + 181},
                             match={'class': cls, 'symptom': 'aliased-draws'})
                    return
        except Exception:
            return


def oracle_values(ctx, cfg, obj):
    """batching must not change the distribution: with a strongly context-dependent conditional, block i of a batched
    sample must follow context row i (a layout mix-up that keeps the shape shows up as swapped block means)"""
    _oracle_fresh_draws(ctx, cfg, obj)
    if not (cfg.name.startswith('ConditionalDiagonalNormal') and cfg.event == [3]):
        return
    rows = 3
    c = torch.zeros(rows, cfg.ctxw)
    c[:, :3] = torch.tensor([[-50.0], [0.0], [50.0]])       # means; log-stds 0
    torch.manual_seed(ctx.seed + 5)
    for b in (None, 4, 7):
        try:
            s = obj.sample(28, context=c, batch_size=b)
        except Exception:
            return
        if list(s.shape) != [rows, 28, 3]:
            return
        m = s.mean(dim=(1, 2))
        if (m - torch.tensor([-50.0, 0.0, 50.0])).abs().max() > 5.0:
            ctx.fail('sample(28, context, batch_size=%r): block i does not follow context row i (block means %s for context means -50, 0, 50)' % (b, m.tolist()),
                     {'cfg': cfg.name, 'call': 'sample/distribution', 'b': enc(b)}, match={'class': 'ConditionalDiagonalNormal', 'symptom': 'block-distribution'})
            return


def search(ctx):
    torch.manual_seed(ctx.seed)
    seen = set()
    for cfg in all_cfgs(ctx):
        obj = cfg.build()
        obj.eval()
        for (call, n, b, rows, in_shape) in cells(cfg):
            r = oracle_cell(cfg, obj, call, n, b, rows, in_shape)
            if r is not None:
                what, match = r
                key = json.dumps(match, sort_keys=True, default=str)
                if key in seen:
                    continue      # one witness per distinct symptom
                seen.add(key)
                ctx.fail(what, case_of(cfg, call, n, b, rows, in_shape), match=match)
        oracle_values(ctx, cfg, obj)
    scalar_events(ctx, report=lambda what, case, match: ctx.fail(what, case, match=match) if json.dumps(match, sort_keys=True) not in seen and not seen.add(json.dumps(match, sort_keys=True)) else None)


def _find_cfg(ctx, name):
    for c in all_cfgs(ctx):
        if c.name == name:
            return c
    return None


def replay(ctx, payload):
    f = payload.get('failing') or {}
    case = f.get('case') or {}
    cfg = _find_cfg(ctx, case.get('cfg', ''))
    if cfg is None:
        return None
    obj = cfg.build()
    obj.eval()
    if case.get('call') == 'sample/distribution':
        n0 = len(ctx.failing)
        oracle_values(ctx, cfg, obj)
        return len(ctx.failing) > n0
    r = oracle_cell(cfg, obj, case['call'], dec(case['n']), dec(case['b']), case['ctx_rows'], case.get('inputs'))
    return r is not None


def replay_finding(ctx, entry):
    m = entry.get('match', {})
    if m.get('class') == 'MADEMoG' and m.get('symptom') == 'AttributeError':
        cfg = _find_cfg(ctx, 'MADEMoG[3]')
        obj = cfg.build()
        kind, val = run_call(obj, cfg, 'sample', 2, None, None)
        return kind == 'err' and val == 'AttributeError'
    # generic: look for a failing cell with the same match dict
    for cfg in all_cfgs(ctx):
        if m.get('class') and not cfg.name.startswith(m['class']):
            continue
        obj = cfg.build()
        obj.eval()
        for cell in cells(cfg):
            r = oracle_cell(cfg, obj, *cell)
            if r is not None and all(r[1].get(k) == v for k, v in m.items()):
                return True
    return False
