"""C08 — composite, inverse and multiscale wrappers are exact function composition.

Theorems: Properties.C08 (cascade = left-to-right composition with the summed log-dets, inverse in reversed order,
InverseTransform swaps the directions; add_transform shape bookkeeping, sizes_sum, multiscale forward = concatenation
of flattened first chunks, routing with identity stages is a permutation of coordinates, prefix-of-stages, inverse
undoes forward and forward undoes inverse) — about the executable definitions in Core/Wrappers.lean and
Core/Multiscale.lean that the driver runs.
Correspondence: random nestings (depth <= 4) of the library's CompositeTransform / InverseTransform /
MultiscaleCompositeTransform over non-commuting exact-arithmetic atoms, a grid of multiscale configurations and the
error contracts; outputs compared exactly, log-dets under 1e-9."""
import itertools, math, random
import torch
from harness.common import leandriver, bits
from harness.common import wrappers as W

PROPERTY = 'C08'
LEVEL = 'proof'
REQUIRED_THEOREMS = [
    'Properties.C08.cascade_eq_foldl', 'Properties.C08.composite_forward_cons', 'Properties.C08.composite_inverse_cons',
    'Properties.C08.composite_round_trip', 'Properties.C08.inverseTransform_forward', 'Properties.C08.inverseTransform_inverse',
    'Properties.C08.addTransform_shapes', 'Properties.C08.sizes_sum', 'Properties.C08.multiscale_forward_eq',
    'Properties.C08.multiscale_routing_bijective', 'Properties.C08.multiscale_prefix',
    'Properties.C08.multiscale_inv_fwd', 'Properties.C08.multiscale_fwd_inv',
    'Properties.C08.build_accepts_iff', 'Properties.C08.driver_uses_combinators',
    'Properties.C08.chunk_emits_first_half', 'Properties.C08.multiscale_forward_index_1d', 'Properties.C08.multiscale_forward_index', 'Properties.C08.multiscale_forward_pointwise_index', 'Properties.C08.multiscale_forward_identity_any_accumulator', 'Properties.C08.built_objects_have_positive_split_dim', 'Properties.C08.addTransform_errors_reachable', 'Properties.C08.call_errors_reachable',
]
RULE = ("three streams from one PRNG. (1) nest: random shape-correct nestings, wrapper depth 0-5 (budget 1-4 plus the inverted multiscale), of CompositeTransform / "
        "InverseTransform / MultiscaleCompositeTransform (also multiscale inside composite inside inverse inside multiscale) "
        "over non-commuting atoms: PointwiseAffineTransform(scale=+-2^e, integer shift), Permutation / ReversePermutation on any "
        "dimension, and a position- and context-dependent integer shift with a declared power-of-two log-det; item ranks 1-3, "
        "sizes 2-7, batch 1-3, tagged integer inputs, forward then inverse on the forward's output. (2) grid: multiscale alone, "
        "item ranks 1-3 (tensor ranks 2-4), sizes 2-7 plus 8-31 along the split dimension, every admissible split_dim, every "
        "admissible stage count 1-4, stage kinds identity/affine/permutation/shift. (3) errors: constructor TypeError, "
        "add_transform ValueError/RuntimeError/AssertionError, forward/inverse contracts, undeclared shapes, size-1 chunk, "
        "missing inverse, too wide / too narrow flat inputs. A case is non-trivial when the output differs from the input or the "
        "log-det is non-zero or an error is raised; distinct by (stream, tree skeleton, item shape, direction, outcome).")
EXPLANATION = ("proof, for arbitrary parts / stage lists / ranks / sizes / split dimensions, about the executable wrapper model; "
               "tie = the same Lean definitions evaluated on the transmitted nesting and compared with the library's result, "
               "outputs bit-exact (integer/dyadic arithmetic), log-dets to 1e-9")
OBSERVATIONS = [
    "laxness (not a violation of C08, modelled and proved as `multiscale_inv_fwd ... forall extra`): "
    "MultiscaleCompositeTransform.inverse silently ignores columns beyond the sum of the recorded sizes",
    "laxness outside the per-item model: a ONE-stage multiscale inverse given [B, m] with B*m divisible by the declared "
    "size views the whole tensor as (-1, *shape) and returns a different batch size (e.g. declared (4,), inputs [2,2] -> [1,4])",
]
ASSUMPTIONS = [
    "parts act on every batch row independently (the model evaluates one batch item at a time); batch size >= 1",
    "shapes are tuples of non-negative ints; a bool passed as split_dim is not modelled",
    "inverse() with too few columns is only generated with a non-empty short last slice (RuntimeError); with an empty "
    "slice torch's view(-1, ...) yields a zero-row tensor and the outcome depends on the parts",
    "the log-det of PointwiseAffineTransform is compared under 1e-9 (torch.log vs libm log)",
]

LD_TOL = 1e-9


# --------------------------------------------------------------------------------------------------------
def tagged(B, S, flat=False):
    n = math.prod(S)
    x = torch.arange(1, n + 1, dtype=W.DT).reshape([1] + list(S)) + 1000.0 * torch.arange(B, dtype=W.DT).reshape([B] + [1] * len(S))
    ctx = (torch.arange(B, dtype=W.DT) + 2.0).reshape(B, 1)
    return x, ctx


class Batch:
    """collects (case, impl result, model request) and compares after one driver call"""

    def __init__(self, ctx):
        self.ctx = ctx
        self.items = []

    def add(self, stream, node, direction, x, context, extra=None):
        impl = W.run_impl(node, direction, x, context)
        self.items.append((stream, node, direction, x, context, impl, extra or {}))
        return impl

    def flush(self):
        ctx = self.ctx
        reqs = [W.model_req(node, d, x, c) for (_, node, d, x, c, _, _) in self.items]
        resps = leandriver.call(reqs)
        for (stream, node, d, x, c, impl, extra), resp in zip(self.items, resps):
            model = W.model_result(resp)
            case = dict(extra, stream=stream, tree=node, dir=d, shape=list(x.shape))
            sk = W.skeleton(node)
            if impl[0] == 'err':
                outcome = 'error:' + impl[1]
                ok = model[0] == 'err' and model[1] == impl[1] and model[2] == impl[2]
                if not ok:
                    ctx.disagree('c08_eval', case, {'error': impl[1], 'phase': impl[2]}, _short(model), 'error contract differs')
                ctx.case(key=(stream, sk, tuple(x.shape[1:]), d, outcome), branch='%s/%s' % (stream, outcome),
                         sample={'skeleton': sk, 'dir': d, 'shape': list(x.shape), 'impl': outcome})
                continue
            _, y, ld, _ = impl
            nontriv = (y.shape != x.shape) or (not torch.equal(y, x)) or bool((ld != 0).any())
            br = '%s/%s/depth%d' % (stream, d, W.depth(node))
            ctx.case(key=(stream, sk, tuple(x.shape[1:]), d, 'ok'), branch=br, nontrivial=nontriv,
                     sample={'skeleton': sk, 'dir': d, 'shape': list(x.shape), 'impl_row0': y[0].reshape(-1)[:6].tolist(),
                             'impl_ld0': float(ld[0])})
            for wname in W.wrappers_in(node):
                ctx.count('wrapper/' + wname)
            if model[0] == 'err':
                ctx.disagree('c08_eval', case, {'out': y.reshape(y.shape[0], -1)[0][:8].tolist()}, _short(model), 'model raised, implementation returned')
                continue
            _, mshape, rows, lds = model
            B = x.shape[0]
            why = None
            if list(y.shape[1:]) != mshape:
                why = 'output shape %s vs %s' % (list(y.shape[1:]), mshape)
            else:
                yr = y.reshape(B, -1).tolist()
                for b in range(B):
                    if yr[b] != rows[b]:
                        j = next(i for i in range(len(rows[b])) if i >= len(yr[b]) or yr[b][i] != rows[b][i]) if len(yr[b]) == len(rows[b]) else -1
                        why = 'outputs differ in row %d at position %d' % (b, j)
                        break
                if why is None:
                    ldl = ld.expand(B).tolist() if ld.dim() else [float(ld)] * B
                    for b in range(B):
                        if not (abs(ldl[b] - lds[b]) <= LD_TOL * (1 + abs(lds[b]))):
                            why = 'log-dets differ in row %d: %r vs %r' % (b, ldl[b], lds[b])
                            break
            if why:
                ctx.disagree('c08_eval', case, {'out': y.reshape(B, -1)[0][:12].tolist(), 'ld': ld.reshape(-1)[:3].tolist()},
                             {'out': rows[0][:12] if rows else None, 'ld': lds[:3]}, why)
        self.items = []


def _short(model):
    if model[0] == 'err':
        return {'error': model[1], 'phase': model[2]}
    return {'shape': model[1], 'out': model[2][0][:12] if model[2] else None, 'ld': model[3][:3]}


def rand_shape(rng, rank=None, cap=150):
    while True:
        r = rank or rng.choice([1, 1, 2, 2, 3])
        S = [rng.randint(2, 7) for _ in range(r)]
        if math.prod(S) <= cap:
            return S


# --------------------------------------------------------------------------------------------------------
def stream_nest(ctx, batch, rng):
    n = 700 if ctx.quick() else 6000
    for i in range(n):
        S = rand_shape(rng)
        if rng.random() < 0.25:                      # room for 3-4 multiscale stages
            S[rng.randrange(len(S))] = rng.choice([8, 9, 11, 16, 17])
        d = 1 + i % 4
        node, in_shape = W.gen_general(rng, S, d)
        B = rng.randint(1, 3)
        x, c = tagged(B, in_shape)
        impl = batch.add('nest', node, 'fwd', x, c)
        if impl[0] == 'ok':
            batch.add('nest', node, 'inv', impl[1].clone(), c)


def stage_of_kind(kind, rng, S):
    if kind == 'id':
        return {'k': 'comp', 'c': []}
    if kind == 'aff':
        return W.gen_atom(rng, S, pool=('aff',))
    if kind == 'perm':
        return W.gen_atom(rng, S, pool=('perm', 'rev'))
    if kind == 'tag':
        return W.gen_atom(rng, S, pool=('tag', 'tagc'))
    return W.gen_atom(rng, S)


def grid_shapes(ctx, rng):
    sizes = range(2, 8)
    shapes = [[a] for a in sizes] + [[a, b] for a in sizes for b in sizes]
    r3 = [[a, b, c] for a in sizes for b in sizes for c in sizes]
    big = [8, 9, 12, 15, 16, 17, 23, 31]
    extra = [[n] for n in big] + [[n, rng.randint(2, 4)] for n in big] + [[rng.randint(2, 4), n] for n in big] + \
            [[2, n, 3] for n in big[:4]] + [[3, 2, n] for n in big[4:]]
    if ctx.quick():
        shapes = [[a] for a in sizes] + rng.sample(shapes[6:], 24) + rng.sample(r3, 24) + rng.sample(extra, 16)
    else:
        shapes = shapes + r3 + extra
    return shapes


def stream_grid(ctx, batch, rng):
    kinds = ['id', 'aff', 'perm', 'tag']
    total, full = 0, 0
    for S in grid_shapes(ctx, rng):
        for sd in range(1, len(S) + 1):
            mx = min(4, W.ms_max_stages(S[sd - 1]))
            for nst in range(1, mx + 1):
                ks = kinds if not ctx.quick() else [rng.choice(kinds)]
                for kind in ks:
                    node = W.gen_ms(rng, S, 1, stage_gen=lambda r, s, d, kind=kind: stage_of_kind(kind, r, s), nst=nst, sd=sd)
                    x, c = tagged(2, S)
                    impl = batch.add('grid', node, 'fwd', x, c, {'stage_kind': kind})
                    ctx.count('grid/rank%d/%s/stages%d/%s' % (len(S) + 1, 'odd' if S[sd - 1] % 2 else 'even', nst, kind))
                    if impl[0] == 'ok':
                        batch.add('grid', node, 'inv', impl[1].clone(), c, {'stage_kind': kind})
    ctx.exhaustive = not ctx.quick()


def _ms(n, sd, children, shapes):
    return {'k': 'ms', 'n': n, 'sd': sd, 'c': children, 'shapes': [list(s) for s in shapes]}


ID = {'k': 'comp', 'c': []}


def error_cases(rng):
    """(label, node, direction, input item shape)"""
    t1 = {'k': 'tag', 'm': 1, 't': 1, 'cm': 0}
    aff = {'k': 'aff', 'e': 1, 'sg': 1, 's': 3}
    out = []
    # constructor: split_dim must be a positive int
    for sd in (0, -1, -7, 'float', 'str', 'none'):
        out.append(('ctor-split_dim', _ms(1, sd, [t1], [[4]]), 'fwd', [4]))
    # add_transform: no split_dim in the declared shape
    out.append(('add-no-split-dim', _ms(1, 2, [t1], [[4]]), 'fwd', [4]))
    out.append(('add-no-split-dim', _ms(2, 3, [t1, t1], [[4, 4], [4, 2]]), 'fwd', [4, 4]))
    out.append(('add-no-split-dim', _ms(1, 1, [t1], [[]]), 'fwd', []))
    # add_transform: size < 2
    out.append(('add-size', _ms(1, 1, [t1], [[1]]), 'fwd', [1]))
    out.append(('add-size', _ms(1, 2, [t1], [[3, 0]]), 'fwd', [3, 0]))
    out.append(('add-size', _ms(2, 1, [t1, aff], [[3], [1]]), 'fwd', [3]))
    out.append(('add-size', _ms(3, 2, [t1, aff, t1], [[2, 5], [2, 2], [2, 1]]), 'fwd', [2, 5]))
    # add_transform: too many / num_transforms <= 0
    out.append(('add-too-many', _ms(1, 1, [t1, aff], [[4], [2]]), 'fwd', [4]))
    out.append(('add-too-many', _ms(2, 1, [t1, aff, t1], [[4], [2], [2]]), 'fwd', [4]))
    out.append(('add-too-many', _ms(0, 1, [t1], [[4]]), 'fwd', [4]))
    out.append(('add-negative-count', _ms(-1, 1, [t1], [[4]]), 'fwd', [4]))
    # forward / inverse: wrong number of transforms added
    for d in ('fwd', 'inv'):
        out.append(('call-count', _ms(2, 1, [t1], [[4]]), d, [4]))
        out.append(('call-count', _ms(3, 2, [t1, aff], [[2, 6], [2, 3]]), d, [2, 6] if d == 'fwd' else [12]))
        out.append(('call-count-zero', _ms(0, 1, [], []), d, [4]))
        out.append(('call-count', _ms(1, 1, [], []), d, [4]))
    # forward: split_dim >= inputs.dim()
    out.append(('fwd-no-split-dim', _ms(1, 2, [t1], [[4, 4]]), 'fwd', [4]))
    out.append(('fwd-no-split-dim', _ms(1, 3, [t1], [[2, 2, 2]]), 'fwd', [2, 2]))
    out.append(('fwd-no-split-dim', _ms(1, 1, [t1], [[4]]), 'fwd', []))
    # forward: inputs that do not have the declared shape
    out.append(('fwd-undeclared-shape', _ms(2, 1, [t1, aff], [[4], [2]]), 'fwd', [6]))
    out.append(('fwd-undeclared-shape', _ms(2, 1, [t1, aff], [[4, 3], [2, 3]]), 'fwd', [4, 2]))
    out.append(('fwd-undeclared-shape', _ms(2, 2, [t1, aff], [[3, 4], [3, 2]]), 'fwd', [3, 5]))
    out.append(('fwd-undeclared-shape-1stage', _ms(1, 1, [t1], [[4]]), 'fwd', [6]))
    out.append(('fwd-size1-chunk', _ms(2, 1, [t1, aff], [[4], [2]]), 'fwd', [1]))
    out.append(('fwd-size1-chunk', _ms(2, 2, [t1, aff], [[3, 4], [3, 2]]), 'fwd', [3, 1]))
    out.append(('fwd-undeclared-stage-shapes', _ms(2, 1, [t1, aff], [[4], [3]]), 'fwd', [4]))
    # inverse: inputs must be N x D
    out.append(('inv-not-2d', _ms(1, 1, [t1], [[4]]), 'inv', [2, 2]))
    out.append(('inv-not-2d', _ms(2, 2, [t1, aff], [[3, 4], [3, 2]]), 'inv', [3, 4]))
    out.append(('inv-not-2d', _ms(1, 1, [t1], [[4]]), 'inv', []))
    # inverse: too wide (extra columns are ignored by the slicing) / too narrow
    out.append(('inv-too-wide', _ms(2, 1, [t1, aff], [[4], [2]]), 'inv', [7]))
    out.append(('inv-too-wide', _ms(2, 2, [t1, aff], [[3, 5], [3, 2]]), 'inv', [20]))
    out.append(('inv-too-wide', _ms(1, 1, [t1], [[4]]), 'inv', [5]))
    out.append(('inv-too-narrow', _ms(2, 1, [t1, aff], [[5], [2]]), 'inv', [4]))
    out.append(('inv-too-narrow', _ms(3, 2, [t1, aff, t1], [[3, 9], [3, 4], [3, 2]]), 'inv', [25]))
    # parts that raise: the error passes through every wrapper
    noinv = {'k': 'tag', 'm': 1, 't': 2, 'cm': 0, 'noinv': 1}
    badperm = {'k': 'perm', 'dim': 1, 'p': [2, 0, 1]}
    out.append(('part-no-inverse', {'k': 'comp', 'c': [t1, noinv, aff]}, 'inv', [4]))
    out.append(('part-no-inverse', {'k': 'inv', 'c': noinv}, 'fwd', [4]))
    out.append(('part-no-inverse', {'k': 'inv', 'c': {'k': 'inv', 'c': noinv}}, 'inv', [4]))
    out.append(('part-no-inverse', _ms(2, 1, [noinv, aff], [[4], [2]]), 'inv', [4]))
    out.append(('part-no-inverse', {'k': 'comp', 'c': [{'k': 'inv', 'c': _ms(2, 1, [aff, noinv], [[4], [2]])}]}, 'fwd', [4]))
    out.append(('part-raises', {'k': 'comp', 'c': [t1, badperm]}, 'fwd', [4]))
    out.append(('part-raises', {'k': 'comp', 'c': [t1, badperm]}, 'inv', [4]))
    out.append(('part-raises', _ms(2, 1, [aff, badperm], [[6], [3]]), 'fwd', [7]))
    out.append(('part-raises', _ms(2, 1, [aff, badperm], [[7], [3]]), 'inv', [7]))
    out.append(('part-raises', {'k': 'inv', 'c': {'k': 'perm', 'dim': 2, 'p': [1, 0]}}, 'fwd', [4]))
    # no error: empty composite, double inverse
    out.append(('empty-composite', {'k': 'comp', 'c': []}, 'fwd', [3, 2]))
    out.append(('empty-composite', {'k': 'comp', 'c': []}, 'inv', [3, 2]))
    out.append(('double-inverse', {'k': 'inv', 'c': {'k': 'inv', 'c': {'k': 'comp', 'c': [aff, t1]}}}, 'fwd', [5]))
    return out


def stream_errors(ctx, batch, rng):
    for (label, node, d, S) in error_cases(rng):
        for B in (1, 2):
            x, c = tagged(B, S)
            batch.add('errors', node, d, x, c, {'label': label})
            ctx.count('contract/' + label)


def stream_build(ctx, rng):
    """the values add_transform returns and the recorded shapes, for every grid configuration (exact)"""
    cases = []
    for S in grid_shapes(ctx, rng):
        for sd in range(1, len(S) + 1):
            for nst in range(1, min(4, W.ms_max_stages(S[sd - 1])) + 1):
                cases.append(W.gen_ms(rng, S, 1, stage_gen=lambda r, s, d: ID, nst=nst, sd=sd))
    reqs = [{'op': 'c08_build', 'tree': W.model_tree(n)} for n in cases]
    resps = leandriver.call(reqs)
    for node, resp in zip(cases, resps):
        log = []
        try:
            obj = W.build(node, log)
            rec = getattr(obj, '_output_shapes', None)
            impl = ['None' if r is None else ','.join(map(str, r)) for r in log]
            impl_rec = None if rec is None else [','.join(map(str, s)) for s in rec]
        except Exception as e:
            impl, impl_rec = 'error:' + W.err_kind(e), None
        s = resp.get('s') or []
        if resp.get('e'):
            model, model_rec = 'error:' + resp['e'], None
        else:
            k = s.index('|')
            model, model_rec = s[:k], s[k + 1:]
        S = node['shapes'][0]
        ctx.case(key=('build', tuple(S), node['sd'], node['n']), branch='build/rank%d/stages%d' % (len(S) + 1, node['n']),
                 nontrivial=node['n'] > 1, sample=None)
        if impl != model:
            ctx.disagree('c08_build', {'tree': node}, impl, model, 'values returned by add_transform differ')
        elif impl_rec is not None and impl_rec != model_rec:      # white-box, best effort
            ctx.disagree('c08_build', {'tree': node}, impl_rec, model_rec, 'recorded _output_shapes differ')
        if impl_rec is None and not isinstance(impl, str):
            note = 'attribute _output_shapes absent: recorded shapes not compared'
            if note not in ctx.notes:
                ctx.notes.append(note)


def correspondence(ctx):
    rng = ctx.rng
    batch = Batch(ctx)
    stream_nest(ctx, batch, rng)
    stream_grid(ctx, batch, rng)
    stream_errors(ctx, batch, rng)
    batch.flush()
    stream_build(ctx, rng)
    composite_cdf(ctx)


# --------------------------------------------------------------------------------------------------------
# the property's own oracle on the implementation (no model involved)
from nflows.transforms.base import CompositeTransform, MultiscaleCompositeTransform, InverseTransform
from nflows.transforms.standard import PointwiseAffineTransform


class StageTag(W.Transform):
    """adds the constant `c` (forward) / removes it (inverse); log-det `t`"""

    def __init__(self, c, t, k=0.0):
        super().__init__()
        self.c, self.t, self.k = float(c), float(t), float(k)

    def _shift(self, inputs, context):
        # context-conditional when k != 0 (a missing context counts as zero, as conditioners with optional context do)
        if context is None or self.k == 0.0:
            return self.c
        return self.c + self.k * context.reshape([inputs.shape[0]] + [1] * (inputs.dim() - 1))

    def forward(self, inputs, context=None):
        return inputs + self._shift(inputs, context), inputs.new_full((inputs.shape[0],), self.t)

    def inverse(self, inputs, context=None):
        return inputs - self._shift(inputs, context), inputs.new_full((inputs.shape[0],), -self.t)


def expected_routing(x, sd, nst):
    """documented routing computed by plain slicing: after every stage the FIRST half (ceil) along split_dim is
    emitted, the rest goes on; the last stage emits everything.  Returns list of emitted tensors."""
    outs = []
    h = x
    for k in range(nst - 1):
        n = h.shape[sd]
        c = (n + 1) // 2
        idx = [slice(None)] * h.dim()
        idx[sd] = slice(0, c)
        outs.append(h[tuple(idx)])
        idx[sd] = slice(c, n)
        h = h[tuple(idx)]
    outs.append(h)
    return outs


def oracle_multiscale(S, sd, nst, B=2):
    """returns None or (what, match)"""
    n_el = math.prod(S)
    M = 4096                                        # > every tag
    x = (torch.arange(1, n_el + 1, dtype=W.DT).reshape([1] + list(S)) +
         0.0 * torch.arange(B, dtype=W.DT).reshape([B] + [1] * len(S))) + \
        1024.0 * torch.arange(B, dtype=W.DT).reshape([B] + [1] * len(S))
    ms = MultiscaleCompositeTransform(nst, split_dim=sd)
    match = {'wrapper': 'multiscale'}
    admissible = S[sd - 1] >= 2 ** nst
    cur = tuple(S)
    for k in range(nst):
        # the documented chain: every declared shape is the hidden shape the previous call returned
        try:
            ret = ms.add_transform(StageTag(M * 2 ** k, 2 ** k), cur)
        except ValueError:
            if admissible:
                raise
            return None                                  # refused, as documented (size < 2)
        if k < nst - 1:
            if ret is None:
                return 'add_transform returned None before the last transform', dict(match, symptom='hidden-shape')
            cur = tuple(ret)
        elif ret is not None:
            return 'add_transform returned a shape for the last transform', dict(match, symptom='hidden-shape')
    with torch.no_grad():
        y, ld = ms(x)
    if tuple(y.shape) != (B, n_el):
        return 'multiscale output has shape %s, expected %s' % (tuple(y.shape), (B, n_el)), dict(match, symptom='shape')
    # every input coordinate exactly once
    tags = torch.remainder(y, M)
    stages = torch.div(y, M, rounding_mode='floor')
    for b in range(B):
        if sorted(tags[b].tolist()) != sorted(x[b].reshape(-1).tolist()):
            return 'input coordinates are not routed to exactly one output position each', dict(match, symptom='routing-not-bijective')
    # coordinates emitted at stage k went through exactly stages 1..k, and sit where the documented split puts them
    exp = expected_routing(x, sd, nst)
    pos = 0
    for k, e in enumerate(exp):
        w = e[0].numel()
        seg = y[:, pos:pos + w]
        want_mask = float(2 ** (k + 1) - 1)
        if not bool((stages[:, pos:pos + w] == want_mask).all()):
            return ('coordinates emitted at stage %d did not go through exactly stages 1..%d' % (k + 1, k + 1),
                    dict(match, symptom='wrong-stage-prefix'))
        if not torch.equal(torch.remainder(seg, M), e.reshape(B, -1)):
            return 'coordinates are emitted at positions other than the documented split', dict(match, symptom='routing-position')
        pos += w
    if not torch.equal(ld, torch.full((B,), float(2 ** nst - 1), dtype=W.DT)):
        return 'multiscale log-det is not the sum over its stages', dict(match, symptom='logdet-sum')
    with torch.no_grad():
        xr, ldi = ms.inverse(y)
    if tuple(xr.shape) != tuple(x.shape) or not torch.equal(xr, x):
        return 'multiscale inverse(forward(x)) != x', dict(match, symptom='round-trip')
    if not torch.equal(ldi, -ld):
        return 'multiscale inverse log-det is not minus the forward log-det', dict(match, symptom='logdet-inverse')
    with torch.no_grad():
        y2, _ = ms(xr)
    if not torch.equal(y2, y):
        return 'multiscale forward(inverse(y)) != y', dict(match, symptom='round-trip')
    # the same with context-conditional stages: every stage, in both directions, receives the context of the call
    msc = MultiscaleCompositeTransform(nst, split_dim=sd)
    cur = tuple(S)
    for k in range(nst):
        ret = msc.add_transform(StageTag(M * 2 ** k, 2 ** k, k=0.25 * (k + 1)), cur)
        if ret is not None:
            cur = tuple(ret)
    cvals = torch.tensor([[4.0 * (b + 1)] for b in range(B)], dtype=W.DT)
    with torch.no_grad():
        yc, ldc = msc(x, cvals)
        want = [e + sum(0.25 * (j + 1) * cvals.reshape([B] + [1] * (e.dim() - 1)) + M * 2 ** j for j in range(k + 1)) for k, e in enumerate(exp)]
        if not torch.equal(yc, torch.cat([w_.reshape(B, -1) for w_ in want], 1)):
            return 'multiscale forward with a context: a stage did not receive the context of the call', dict(match, symptom='context-forward')
        xc, ldci = msc.inverse(yc, cvals)
    if not torch.equal(xc, x):
        return 'multiscale inverse(forward(x, context), context) != x: a stage of the inverse did not receive the context', dict(match, symptom='context-inverse')
    if not torch.equal(ldci, -ldc):
        return 'multiscale inverse log-det (with context) is not minus the forward log-det', dict(match, symptom='logdet-inverse')
    return None


def composite_parts(rng, S):
    nodes = [W.gen_atom(rng, S, pool=('aff', 'tag', 'perm', 'rev', 'tagc')) for _ in range(rng.randint(2, 4))]
    # make sure two neighbouring parts do not commute: scale, then a position-dependent shift
    nodes[0] = {'k': 'aff', 'e': 1, 'sg': 1, 's': 0}
    nodes[1] = {'k': 'tag', 'm': 1, 't': 4, 'cm': 0}
    if rng.random() < 0.5:
        # the same part listed more than once (one object)
        nodes = nodes + [dict(nodes[0]), dict(nodes[1])][:rng.randint(1, 2)]
    return nodes


def oracle_composite(nodes, S, B=2):
    x, c = tagged(B, S)
    parts = W.build_tied(nodes)
    comp = CompositeTransform(p for p in parts) if len(parts) % 2 == 0 else CompositeTransform(parts)   # a one-shot iterable is a documented argument
    match = {'wrapper': 'composite'}
    with torch.no_grad():
        y, ld = comp(x, c)
        h, tot = x, torch.zeros(B, dtype=W.DT)
        for p in parts:
            h, l = p(h, c)
            tot = tot + l
        if not torch.equal(y, h):
            return 'composite forward is not the parts applied in the order given', dict(match, symptom='order'), nodes
        if not torch.allclose(ld, tot, rtol=0, atol=1e-9):
            return 'composite log-det is not the sum of the parts', dict(match, symptom='logdet-sum'), nodes
        z, ldz = comp.inverse(y, c)
        h, tot = y, torch.zeros(B, dtype=W.DT)
        for p in reversed(parts):
            h, l = p.inverse(h, c)
            tot = tot + l
        if not torch.equal(z, h):
            return 'composite inverse is not the inverses in reverse order', dict(match, symptom='inverse-order'), nodes
        if not torch.allclose(ldz, tot, rtol=0, atol=1e-9):
            return 'composite inverse log-det is not the sum over the parts', dict(match, symptom='logdet-sum'), nodes
        if not torch.equal(z, x):
            return 'composite inverse(forward(x)) != x', dict(match, symptom='round-trip'), nodes
        # InverseTransform swaps the two directions exactly
        it = InverseTransform(comp)
        a, la = it(y, c)
        b_, lb = it.inverse(x, c)
        if not (torch.equal(a, z) and torch.equal(la, ldz)):
            return 'InverseTransform.forward is not the inner inverse', {'wrapper': 'inverse', 'symptom': 'forward'}, nodes
        if not (torch.equal(b_, y) and torch.equal(lb, ld)):
            return 'InverseTransform.inverse is not the inner forward', {'wrapper': 'inverse', 'symptom': 'inverse'}, nodes
        # ... at every nesting depth: Inverse^d(T) is T for even d, T^-1 for odd d (also as a part of a composite)
        nest = comp
        for depth in (1, 2, 3, 4):
            nest = InverseTransform(nest)
            a, la = nest(y if depth % 2 else x, c)
            want, lw = (z, ldz) if depth % 2 else (y, ld)
            if not (torch.equal(a, want) and torch.equal(la, lw)):
                return 'InverseTransform nested %d deep is not the %s of the innermost transform' % (depth, 'inverse' if depth % 2 else 'forward'), \
                    {'wrapper': 'inverse', 'symptom': 'nested-depth', 'depth': depth}, nodes
            b_, lb = nest.inverse(x if depth % 2 else y, c)
            want, lw = (y, ld) if depth % 2 else (z, ldz)
            if not (torch.equal(b_, want) and torch.equal(lb, lw)):
                return 'InverseTransform nested %d deep: .inverse is not the %s of the innermost transform' % (depth, 'forward' if depth % 2 else 'inverse'), \
                    {'wrapper': 'inverse', 'symptom': 'nested-depth', 'depth': depth}, nodes
        # a composite that contains an INVERTED composite: first part, then the remaining parts undone in reverse order
        if len(parts) >= 3:
            mixed = CompositeTransform([parts[0], InverseTransform(CompositeTransform(parts[1:]))])
            a, la = mixed(x, c)
            h, tot = parts[0](x, c)
            for p in reversed(parts[1:]):
                h, l = p.inverse(h, c)
                tot = tot + l
            if not (torch.equal(a, h) and torch.allclose(la, tot, rtol=0, atol=1e-9)):
                return 'Composite([T1, Inverse(Composite([T2, …, Tn]))]) is not T1 followed by the inverses of Tn, …, T2', \
                    {'wrapper': 'composite', 'symptom': 'nested-inverse-order'}, nodes
            b_, lb = mixed.inverse(a, c)
            if not (torch.equal(b_, x) and torch.allclose(lb, -la, rtol=0, atol=1e-9)):
                return 'Composite([T1, Inverse(Composite([…]))]).inverse does not undo its forward', {'wrapper': 'composite', 'symptom': 'nested-inverse-roundtrip'}, nodes
        wrapped = CompositeTransform([parts[0], InverseTransform(InverseTransform(CompositeTransform(parts[1:])))])
        a, la = wrapped(x, c)
        if not (torch.equal(a, y) and torch.allclose(la, ld, rtol=0, atol=1e-9)):
            return 'Inverse(Inverse(T)) inside a composite is not T', {'wrapper': 'inverse', 'symptom': 'nested-depth', 'depth': 2}, nodes
    return None


def ms_configs(ctx, rng):
    small = [[a] for a in (1, 2, 3)] + [[a, b] for a in (1, 2, 3) for b in (1, 2, 3)]
    for S in small:                                     # includes sizes that must be refused
        for sd in range(1, len(S) + 1):
            for nst in (1, 2, 3):
                yield S, sd, nst
    for S in grid_shapes(ctx, rng):
        for sd in range(1, len(S) + 1):
            for nst in range(1, min(4, W.ms_max_stages(S[sd - 1])) + 1):
                yield S, sd, nst


def composite_cdf(ctx, report=None):
    """`CompositeCDFTransform(squash, cdf)` is the composite [squash, cdf, InverseTransform(squash)] of ONE squashing object: after the
    squashing transform's parameters change (a learnt temperature trained for a while) it is still squash -> cdf -> squash^-1 of the
    CURRENT squash, in both directions, with summed log-dets"""
    import nflows.transforms as T
    g = torch.Generator().manual_seed(ctx.seed + 8081)
    for name, mk_cdf in (('LinearCDF', lambda: T.PiecewiseLinearCDF([3], num_bins=4)), ('RQCDF', lambda: T.PiecewiseRationalQuadraticCDF([3], num_bins=3))):
        for when in ('fresh', 'after-update'):
            torch.manual_seed(ctx.seed + 5)
            squash = T.Sigmoid(temperature=1.3, learn_temperature=True)
            cdf = mk_cdf()
            with torch.no_grad():
                for q in cdf.parameters():
                    q.add_(0.5 * torch.randn(q.shape, generator=g))
            comp = T.CompositeCDFTransform(squash, cdf).double()
            if when == 'after-update':
                with torch.no_grad():
                    squash.temperature.mul_(1.9)            # what a few optimiser steps do to the squashing transform's own parameter
            x = 1.5 * torch.randn(4, 3, generator=g, dtype=torch.float64)
            why = None
            try:
                with torch.no_grad():
                    y, ld = comp(x)
                    h, l1 = squash(x); h, l2 = cdf(h); want, l3 = squash.inverse(h)
                    if not (torch.allclose(y, want, rtol=0, atol=1e-12) and torch.allclose(ld, l1 + l2 + l3, rtol=0, atol=1e-10)):
                        why = 'forward is not squash -> cdf -> squash^-1 of the current squashing transform'
                    else:
                        xb, ldb = comp.inverse(y)
                        if not (torch.allclose(xb, x, rtol=0, atol=1e-8) and torch.allclose(ldb, -ld, rtol=0, atol=1e-8)):
                            why = 'inverse does not undo forward'
            except Exception as e:
                why = 'raised %s' % W.err_kind(e)
            case = {'wrapper': 'CompositeCDFTransform', 'cdf': name, 'when': when, 'x': x.reshape(-1).tolist()}
            if report is None:
                ctx.case(key=('composite-cdf', name, when), branch='composite-cdf/' + when, nontrivial=True)
                if why:
                    ctx.disagree('C08/composite-cdf', case, why, 'squash, cdf, squash^-1 chained by hand', why)
            elif why:
                report('CompositeCDFTransform(Sigmoid(learn_temperature), %s), %s: %s' % (name, when, why), case, {'wrapper': 'composite-cdf', 'symptom': 'not-the-chain'})


def search(ctx):
    rng = random.Random(ctx.seed + 808)
    seen = set()
    composite_cdf(ctx, report=lambda what, case, match: ctx.fail(what, case, match=match) if match['symptom'] not in seen and not seen.add(match['symptom']) else None)
    for (S, sd, nst) in ms_configs(ctx, rng):
        try:
            r = oracle_multiscale(S, sd, nst)
        except Exception as e:
            r = ('multiscale raises %s on a documented configuration' % W.err_kind(e), {'wrapper': 'multiscale', 'symptom': 'raises'})
        if r and r[1]['symptom'] not in seen:
            seen.add(r[1]['symptom'])
            ctx.fail(r[0], {'oracle': 'multiscale', 'shape': S, 'split_dim': sd, 'stages': nst}, match=r[1])
    for i in range(60):
        S = rand_shape(rng)
        nodes = composite_parts(rng, S)
        try:
            r = oracle_composite(nodes, S)
        except Exception as e:
            r = ('composite raises %s' % W.err_kind(e), {'wrapper': 'composite', 'symptom': 'raises'}, nodes)
        if r and (r[1]['wrapper'], r[1]['symptom']) not in seen:
            seen.add((r[1]['wrapper'], r[1]['symptom']))
            ctx.fail(r[0], {'oracle': 'composite', 'shape': S, 'parts': r[2]}, match=r[1])


def _rerun(case):
    if case.get('oracle') == 'multiscale':
        try:
            return oracle_multiscale(case['shape'], case['split_dim'], case['stages'])
        except Exception as e:
            return ('raises', {'wrapper': 'multiscale', 'symptom': 'raises'})
    if case.get('oracle') == 'composite':
        try:
            return oracle_composite(case['parts'], case['shape'])
        except Exception:
            return ('raises', {'wrapper': 'composite', 'symptom': 'raises'}, None)
    return None


def replay(ctx, payload):
    f = payload.get('failing')
    if not f:
        return None
    return _rerun(f['case']) is not None


def replay_finding(ctx, entry):
    m = entry.get('match', {})
    case = entry.get('case')
    if case:
        r = _rerun(case)
        return bool(r) and all(r[1].get(k) == v for k, v in m.items())
    # no stored case: run the oracles over the generator and look for the same symptom
    rng = random.Random(808)

    class _C:
        tier = 'quick'
        def quick(self): return True
    for (S, sd, nst) in ms_configs(_C(), rng):
        try:
            r = oracle_multiscale(S, sd, nst)
        except Exception:
            r = ('raises', {'wrapper': 'multiscale', 'symptom': 'raises'})
        if r and all(r[1].get(k) == v for k, v in m.items()):
            return True
    for i in range(30):
        S = rand_shape(rng)
        r = oracle_composite(composite_parts(rng, S), S)
        if r and all(r[1].get(k) == v for k, v in m.items()):
            return True
    return False
