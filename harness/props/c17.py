"""C17 — out-of-domain inputs are rejected, in-domain inputs never fail.

Theorems: Properties.C17 (rejection <-> the comparison the code makes, on the executable model for ANY scalar
semantics; bin index in range over the reals).  Correspondence: domain-restricted transforms x directions x inputs
on / one ulp inside / one ulp outside each boundary x tail bounds and boxes 1e-2..1e4 x float32 and float64 x batch
position of the offending element: outcome kind and finiteness vs the model executed in the same precision."""
import math
import torch
from harness.common import splines as S, leandriver, bits, registry as R

PROPERTY = 'C17'
LEVEL = 'proof'
REQUIRED_THEOREMS = ['Properties.C17.exp_inverse_rejects_iff', 'Properties.C17.tanh_inverse_rejects_iff', 'Properties.C17.sigmoid_inverse_rejects_iff',
                     'Properties.C17.rq_rejects_outside', 'Properties.C17.in_domain_index_in_range', 'Properties.C17.tails_accept_outside', 'Properties.C17.cubic_rejects_outside', 'Properties.C17.rq_forward_in_domain_total', 'Properties.C17.rq_forward_returns_bin', 'Properties.C17.rq_inverse_in_domain_total', 'Properties.C17.cubic_forward_in_domain_total', 'Properties.C17.quad_forward_in_domain_total', 'Properties.C17.quad_tails_one_bin_counterexample', 'Properties.C17.rq_tails_total', 'Properties.C17.quad_inverse_in_domain_total', 'Properties.C17.rq_tails_coupling_never_raises', 'Properties.C17.cubic_inverse_in_domain_total', 'Properties.C17.linear_in_domain_total', 
                     'Properties.C17.exp_inverse_rejects_iff_executed', 'Properties.C17.tanh_inverse_rejects_iff_executed', 'Properties.C17.sigmoid_inverse_rejects_iff_executed', 'Properties.C17.cauchy_inverse_rejects_iff_executed', 'Properties.C17.nonlin_layer_err_none_iff', 'Properties.C17.permutation_rejects_iff',
                     'Properties.C17.rq_forward_well_defined', 'Properties.C17.quad_inverse_well_defined', 'Properties.C17.lin_forward_well_defined', 'Properties.C17.cubic_forward_well_defined', 'Properties.C17.cubic_inverse_cardano_log_zero', 'Properties.C17.cubic_inverse_divides_by_zero', 'Properties.C17.coupling_layer_err_some_iff', 'Properties.C17.coupling_lin_layer_rejects_iff', 'Properties.C17.quad_tails_coupling_never_raises', 'Properties.C17.lin_tails_coupling_never_raises']
RULE = ("atoms: boundary value b, nextafter(b, inside), nextafter(b, outside), interior, far outside; placed at every batch position among in-domain "
        "fillers; transforms: Exp/Tanh/Sigmoid/Logit/CauchyCDF inverses, bounded and unconstrained splines of the four families in both directions; boxes "
        "and tail bounds 1e-2..1e4; both precisions; distinct = (transform, direction, precision, bound, atom kind, position); non-trivial = all of them "
        "(an outcome kind or a finite value is compared)")
EXPLANATION = "rejection equivalences proved on the executable model for every scalar semantics; the rounding-dependent half (eps absorption) is carried by running the model in Float32/Float against the code"
ASSUMPTIONS = ["NaN inputs are not generated", "the domain guard of the implementation is batch-global; the model is per element and the harness ORs the per-element outcomes"]


def _dtype(prec):
    return torch.float32 if prec == 'f32' else torch.float64


def nonlin_cases(ctx):
    import nflows.transforms as T
    inf = float('inf')
    out = []
    specs = [('Exp', lambda: T.Exp(), True, [(0.0, +1)], 1.0),
             ('Tanh', lambda: T.Tanh(), True, [(-1.0, +1), (1.0, -1)], 0.0),
             ('Sigmoid', lambda: T.Sigmoid(), True, [(0.0, +1), (1.0, -1)], 0.5),
             ('Logit', lambda: T.Logit(), False, [(0.0, +1), (1.0, -1)], 0.5),
             ('CauchyCDF', lambda: T.nonlinearities.CauchyCDF(), True, [(0.0, +1), (1.0, -1)], 0.5),
             ('CauchyCDFInverse', lambda: T.nonlinearities.CauchyCDFInverse(), False, [(0.0, +1), (1.0, -1)], 0.5),
             # non-default constructor arguments; an eps below single-precision resolution is only meaningful for double-precision data
             ('Sigmoid/eps1e-10', lambda: T.Sigmoid(eps=1e-10), True, [(0.0, +1), (1.0, -1)], 0.5),
             ('Sigmoid/T0.5,eps1e-9', lambda: T.Sigmoid(temperature=0.5, eps=1e-9), True, [(0.0, +1), (1.0, -1)], 0.5),
             ('Logit/eps1e-10', lambda: T.Logit(eps=1e-10), False, [(0.0, +1), (1.0, -1)], 0.5),
             ('Sigmoid/eps1e-3', lambda: T.Sigmoid(eps=1e-3), True, [(0.0, +1), (1.0, -1)], 0.5)]
    for name, build, inverse, bounds, filler in specs:
        for prec in (('f64',) if 'eps1e-10' in name or 'eps1e-9' in name else ('f64', 'f32')):
            dt = _dtype(prec)
            for b, inside_dir in bounds:
                bt = torch.tensor(b, dtype=dt)
                atoms = [('on', bt), ('in1', torch.nextafter(bt, torch.tensor(inf * inside_dir, dtype=dt))),
                         ('out1', torch.nextafter(bt, torch.tensor(-inf * inside_dir, dtype=dt))),
                         ('far', bt - inside_dir * 3.0)]
                for kind, v in atoms:
                    for pos in (0, 4):
                        x = torch.full((2, 3), filler, dtype=dt)
                        x.view(-1)[pos] = v
                        out.append((name, build, inverse, prec, b, kind, pos, x))
    return out


def spline_cases(ctx):
    inf = float('inf')
    out = []
    # bounds include non-dyadic values whose float32 rounding is LARGER in magnitude than the double (0.1, 0.3, 10.1) and smaller (0.7, 1e-2):
    # a bound held as a Python double must be compared in the precision of the inputs
    mags = [1e-2, 0.1, 0.3, 0.7, 1.0, 10.1, 32.0, 100.0, 1e4] if ctx.quick() else [1e-2, 0.1, 0.3, 0.5, 0.7, 1.0, 3.0, 3.3, 10.1, 32.0, 100.0, 1e3, 1e4]
    for fam in S.FAMS:
        for tails in (False, True):
            for prec in ('f64', 'f32'):
                dt = _dtype(prec)
                for mag in mags:
                    for inverse in (False, True):
                        K = 4
                        box = None if tails else (-mag, mag, -2 * mag, 3 * mag)
                        lo, hi = (-mag, mag) if tails else ((box[2], box[3]) if inverse else (box[0], box[1]))
                        for b, inside_dir in ((lo, +1), (hi, -1)):
                            bt = torch.tensor(b, dtype=dt)
                            atoms = [('on', bt), ('in1', torch.nextafter(bt, torch.tensor(inf * inside_dir, dtype=dt))),
                                     ('out1', torch.nextafter(bt, torch.tensor(-inf * inside_dir, dtype=dt))),
                                     ('far', bt - inside_dir * (1.0 + mag))]
                            for kind, v in atoms:
                                pos = 1
                                n = 3
                                x = torch.full((n,), (lo + hi) / 2, dtype=dt)
                                x[pos] = v
                                out.append((fam, tails, prec, mag, inverse, kind, pos, x, box, K))
    # bounded splines on boxes that do not contain zero (entirely negative, entirely positive) and the unit box: a margin that is
    # RELATIVE to the last knot, or a comparison mixed between precisions, shows at end-points that are negative or not dyadic
    for fam in S.FAMS:
        for prec in ('f64', 'f32'):
            dt = _dtype(prec)
            for box in ((-3.0, -1.0, -2.0, -0.5), (-0.7, -0.1, -10.1, -0.3), (2.0, 5.0, 1.0, 1.5), (0.0, 1.0, 0.0, 1.0), (-1e3, 0.0, -1.0, 0.0),
                        (-100.0, -40.0, -90.0, -35.0), (-4e11, -1e11, -3e11, -2e11), (40.0, 100.0, 35.0, 90.0)):      # far from zero: absolute margins vanish
                for inverse in (False, True):
                    lo, hi = (box[2], box[3]) if inverse else (box[0], box[1])
                    for b, inside_dir in ((lo, +1), (hi, -1)):
                        bt = torch.tensor(b, dtype=dt)
                        for kind, v in (('on', bt), ('in1', torch.nextafter(bt, torch.tensor(inf * inside_dir, dtype=dt))),
                                        ('out1', torch.nextafter(bt, torch.tensor(-inf * inside_dir, dtype=dt)))):
                            x = torch.full((3,), (lo + hi) / 2, dtype=dt)
                            x[1] = v
                            out.append((fam, False, prec, box[1], inverse, kind, 1, x, box, 4))
    return out


def correspondence(ctx):
    """thorough tier: several independent generator seeds (the quick tier runs one)"""
    coupling_identity_outside(ctx)
    for rep in range(1 if ctx.quick() else 6):
        _correspondence_once(ctx, rep)
        if ctx.elapsed() > 1500:
            break


def _correspondence_once(ctx, rep=0):
    gen = torch.Generator().manual_seed(ctx.seed * 17 + 17 + 104729 * rep)
    reqs, metas = [], []
    for (name, build, inverse, prec, b, kind, pos, x) in nonlin_cases(ctx):
        t = build()
        if prec == 'f64':
            t = t.double()
        e = R.Entry(name, 'nonlin', build, [3], extra={'cls': name.split('/')[0]})
        k, y, ld = R.impl_call(t, x, None, inverse)
        reqs.append(R.model_request(e, t, x, None, inverse))
        metas.append(('nonlin', name, inverse, prec, b, kind, pos, x, k, y))
    for (fam, tails, prec, mag, inverse, kind, pos, x, box, K) in spline_cases(ctx):
        dt = _dtype(prec)
        for regime in ('zeros', 'normal'):
            params = S.make_params(fam, x.numel(), K, tails, regime, dt, gen)
            k, y, ld = S.impl_call(fam, x, params, inverse, tails, box, mag)
            reqs.append(S.model_req(fam, x, params, inverse, tails, box, mag))
            metas.append(('spline', fam + ('/tails' if tails else '/box') + '/' + regime, inverse, prec, mag, kind, pos, x, k, y))
    resps = leandriver.call(reqs)
    for m, r in zip(metas, resps):
        op, name, inverse, prec, b, kind, pos, x, k, y = m
        if op == 'nonlin':
            out, ld, cond, alts, err = R.decode(r, prec)
            errs = [err]
        else:
            out, ld, errs, alts = S.model_result(r, prec)
        merr = next((e for e in errs if e), '')
        case = {'transform': name, 'inverse': inverse, 'prec': prec, 'bound': b, 'atom': kind, 'pos': pos,
                'x_bits': bits.tensor_bits(x), 'x': x.reshape(-1).tolist()}
        ctx.case(key=(name, inverse, prec, b, kind, pos), branch='%s/%s/%s' % (op, kind, 'raise' if k != 'ok' else 'value'), nontrivial=True,
                 sample=dict(case, impl=k, model=merr or 'ok') if kind == 'out1' else None)
        if (k if k != 'ok' else '') != merr:
            ctx.disagree('C17/' + op, case, k, merr or 'ok', 'outcome kinds differ')
            continue
        if k == 'ok':
            fin_i = bool(torch.isfinite(y).all())
            fin_m = all(math.isfinite(v) for v in out)
            if fin_i != fin_m:
                ctx.disagree('C17/' + op, case, 'finite=%s' % fin_i, 'finite=%s' % fin_m, 'finiteness differs')


def coupling_identity_outside(ctx, report=None):
    """a bounded piecewise coupling / autoregressive layer restricts its TRANSFORMED features to the spline's interval; the identity
    (pass-through) features of a coupling layer are not transformed and carry no restriction.  Identity features far outside [0, 1]
    with transformed features inside: accepted, finite, identity unchanged; a transformed feature outside: InputOutsideDomain"""
    import nflows.transforms as T
    g = torch.Generator().manual_seed(ctx.seed + 1771)
    cps = {'lin': T.PiecewiseLinearCouplingTransform, 'quad': T.PiecewiseQuadraticCouplingTransform,
           'cubic': T.PiecewiseCubicCouplingTransform, 'rq': T.PiecewiseRationalQuadraticCouplingTransform}
    for fam, cls in cps.items():
        for mask in ([1, 0, 1], [0, 1, 0, 0]):
            torch.manual_seed(ctx.seed + 3)
            t = cls(mask, R.net_fn('res', None), num_bins=4, tails=None).double().eval()
            R.perturb(t, 'normal', g)
            ident = [i for i, m in enumerate(mask) if m <= 0]
            trans = [i for i, m in enumerate(mask) if m > 0]
            for inverse in (False, True):
                x = 0.05 + 0.9 * torch.rand(3, len(mask), generator=g, dtype=torch.float64)
                x[:, ident] = torch.tensor([3.7, -2.0, 1.0000001], dtype=torch.float64)[:, None]
                k, y, ld = R.impl_call(t, x, None, inverse)
                why = None
                if k != 'ok':
                    why = 'an input whose transformed features are inside [0, 1] is rejected (%s) because an identity feature lies outside' % k
                elif not (torch.isfinite(y).all() and torch.isfinite(ld).all() and torch.equal(y[:, ident], x[:, ident])):
                    why = 'non-finite result / identity features changed'
                x2 = x.clone(); x2[1, trans[0]] = 1.5
                k2, _, _ = R.impl_call(t, x2, None, inverse)
                if why is None and k2 != 'InputOutsideDomain':
                    why = 'a transformed feature outside [0, 1] is not rejected (%s)' % k2
                case = {'class': cls.__name__, 'mask': mask, 'inverse': inverse, 'x': x.reshape(-1).tolist()}
                if report is None:
                    ctx.case(key=('coupling-identity-outside', fam, tuple(mask), inverse), branch='coupling/identity-outside', nontrivial=True, n=int(x.numel()))
                    if why:
                        ctx.disagree('C17/coupling', case, why, 'accepted: only transformed features are restricted', why)
                elif why:
                    report('%s(mask %s, tails=None), %s: %s' % (cls.__name__, mask, 'inverse' if inverse else 'forward', why), case,
                           {'class': cls.__name__, 'symptom': 'identity-feature-domain'})


def search(ctx):
    """direct oracle: outside the domain -> InputOutsideDomain, inside -> finite values"""
    gen = torch.Generator().manual_seed(ctx.seed + 1717)
    for (name, build, inverse, prec, b, kind, pos, x) in nonlin_cases(ctx):
        t = build()
        if prec == 'f64':
            t = t.double()
        k, y, ld = R.impl_call(t, x, None, inverse)
        # a module left in single precision and fed double-precision data is ordinary use too
        if prec == 'f64' and kind in ('on', 'in1') and name.split('/')[0] in ('Sigmoid', 'Logit'):
            k32, y32, l32 = R.impl_call(build(), x, None, inverse)
            if k32 != 'ok' or not torch.isfinite(y32).all() or not torch.isfinite(l32).all():
                ctx.fail('in-domain double-precision input failed on a module left in single precision (%s / non-finite)' % k32,
                         {'transform': name, 'inverse': inverse, 'prec': 'f64 data, f32 module', 'atom': kind, 'x': x.reshape(-1).tolist()},
                         match={'class': name.split('/')[0], 'symptom': 'in-domain-fails', 'prec': 'mixed'})
        outside = kind in ('out1', 'far') or (kind == 'on' and name in ('Exp', 'Tanh'))
        case = {'transform': name, 'inverse': inverse, 'prec': prec, 'atom': kind, 'x': x.reshape(-1).tolist()}
        if outside and k != 'InputOutsideDomain':
            ctx.fail('out-of-domain input not rejected (got %s)' % k, case, match={'class': name.split('/')[0], 'symptom': 'not-rejected'})
        if not outside and (k != 'ok' or not torch.isfinite(y).all() or not torch.isfinite(ld).all()):
            ctx.fail('in-domain input failed (%s / non-finite)' % k, case, match={'class': name.split('/')[0], 'symptom': 'in-domain-fails', 'prec': prec})
    for (fam, tails, prec, mag, inverse, kind, pos, x, box, K) in spline_cases(ctx):
        dt = _dtype(prec)
        for regime in ('zeros', 'normal'):
            params = S.make_params(fam, x.numel(), K, tails, regime, dt, gen)
            k, y, ld = S.impl_call(fam, x, params, inverse, tails, box, mag)
            outside = (kind in ('out1', 'far')) and not tails
            case = {'fn': fam, 'tails': tails, 'inverse': inverse, 'prec': prec, 'bound': mag, 'atom': kind, 'x': x.tolist()}
            if outside and k != 'InputOutsideDomain':
                ctx.fail('out-of-domain input not rejected (got %s)' % k, case, match={'fn': fam, 'symptom': 'not-rejected'})
            if not outside and (k != 'ok' or not torch.isfinite(y).all() or not torch.isfinite(ld).all()):
                ctx.fail('in-domain input failed (%s / non-finite)' % k, case, match={'fn': fam, 'symptom': 'in-domain-fails', 'prec': prec, 'tails': tails})
        if len(ctx.failing) > 10:
            break
    degenerate_configs(ctx)
    coupling_identity_outside(ctx, report=lambda what, case, match: ctx.fail(what, case, match=match))


def degenerate_configs(ctx):
    """configurations the constructors accept: every one must evaluate in-domain inputs (F27: quadratic, linear tails, one bin)"""
    import nflows.transforms as T
    for name, build, K in [('quad', lambda K: T.PiecewiseQuadraticCDF(shape=[2], num_bins=K, tails='linear', tail_bound=1.0), 1),
                           ('quad', lambda K: T.PiecewiseQuadraticCDF(shape=[2], num_bins=K, tails='linear', tail_bound=1.0), 2),
                           ('rq', lambda K: T.PiecewiseRationalQuadraticCDF(shape=[2], num_bins=K, tails='linear', tail_bound=1.0), 1),
                           ('cubic', lambda K: T.PiecewiseCubicCDF(shape=[2], num_bins=K, tails='linear', tail_bound=1.0), 1),
                           ('lin', lambda K: T.PiecewiseLinearCDF(shape=[2], num_bins=K, tails='linear', tail_bound=1.0), 1),
                           ('quad', lambda K: T.PiecewiseQuadraticCDF(shape=[2], num_bins=K), 1)]:
        try:
            t = build(K)
        except Exception:
            continue      # rejected at construction: fine
        for inverse in (False, True):
            k, y, ld = R.impl_call(t, torch.tensor([[0.0, 0.5], [-0.25, 1.0]]) if t.tails else torch.tensor([[0.0, 0.5], [0.25, 1.0]]), None, inverse)
            ctx.case(key=('degenerate', name, K, bool(t.tails), inverse), branch='degenerate/%s' % name, nontrivial=True)
            if k != 'ok' or not torch.isfinite(y).all() or not torch.isfinite(ld).all():
                ctx.fail('accepted configuration fails on in-domain inputs (%s)' % k, {'fn': name, 'K': K, 'tails': bool(t.tails), 'inverse': inverse},
                         match={'fn': name, 'tails': bool(t.tails), 'K': K, 'symptom': 'raises-' + k if k != 'ok' else 'non-finite'})


def replay_finding(ctx, f):
    from harness.common import oracles
    return oracles.replay_transform_finding(ctx, f)
