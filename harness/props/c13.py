"""C13 — evaluation is free of side effects on arguments and on the model.

Theorems: Properties.C13 — THIN theorems about the storage/ownership trace machine (Core/Thin.lean, Core/Store.lean):
`traceSafe_sound` / `values_unchanged` (a trace that passes the check leaves every owned non-whitelisted storage
unchanged, for all values), closure under concatenation (`traceSafe_append`, `traceSafe_history`, `history_sound`),
`repeat_deterministic`, `repeat_same_output`, exactness of the check (`traceSafe_complete`).

Translator (the tie): `generate_lean` extracts, on every run, the storage-relevant torch calls of
forward / inverse / log_prob / sample / sample_and_log_prob / transform_to_noise for a registry of configurations
x {eval, train} x branch-outcome atoms from the RUNNING implementation (TorchFunctionMode) and writes them as Lean
terms with `by decide` proofs of `traceSafe` into lean/NflowsModel/Generated/C13.lean (namespace Properties.C13,
so the audit counts them).  Correspondence: every case is traced again (values from VERIF_SEED, input kinds
contiguous / transposed / expanded / slice / requires_grad), the trace is executed by the Lean driver (same
`traceSafe`, `writeCount`), and the verdict is compared storage by storage with an independent bitwise + `_version`
snapshot of the caller tensors and of all parameters / buffers; eval-mode calls are repeated and compared bitwise;
call sequences (histories) are checked as concatenated traces.
"""
import os, json, copy, hashlib, traceback
import torch

from harness.common import leandriver, storetrace as ST, zoo

PROPERTY = 'C13'
LEVEL = 'proof'
REQUIRED_THEOREMS = ['Properties.C13.traceSafe_sound', 'Properties.C13.values_unchanged',
                     'Properties.C13.eval_mode_state_unchanged', 'Properties.C13.traceSafe_append',
                     'Properties.C13.traceSafe_history', 'Properties.C13.history_sound',
                     'Properties.C13.history_values_unchanged', 'Properties.C13.repeat_deterministic',
                     'Properties.C13.repeat_same_output', 'Properties.C13.traceSafe_mono_owned',
                     'Properties.C13.run_eq_add_writeCount', 'Properties.C13.traceSafe_complete']
RULE = ("cases = (configuration from harness/common/zoo.py [transforms, distributions, flows], mode in {eval, train}, call in "
        "{forward, inverse, log_prob, sample, sample_and_log_prob, transform_to_noise}, branch atom [all inside tails / all "
        "outside / mixed; Linear cache off / miss / hit; several value seeds for the cubic one-/three-root branches; "
        "normalisation layers fresh / already warmed], input kind in {contiguous, transposed view, expanded view, slice of a "
        "larger tensor, requires_grad leaf}); each case is traced (TorchFunctionMode), the skeleton is run by the Lean driver "
        "and compared with a bitwise + _version snapshot of caller tensors and all parameters/buffers; plus call sequences of "
        "4-6 calls per configuration.  A case is distinct by (configuration, mode, call, atom, input kind) and non-trivial when "
        "the call ran to completion and its trace contains at least one in-place write (to anything)")
EXPLANATION = ("The theorems are about the trace machine (storage ids, alloc/view/read/write events, owned set, whitelist), NOT about "
               "the Python: they prove that a trace passing `traceSafe` leaves every owned non-whitelisted storage unchanged for all "
               "values, for every concatenation of such traces (histories) and for repeated calls.  Their premises "
               "(`traceSafe owned wl tr = true`) are established per run from traces of the running code: by `decide` for the "
               "generated skeletons (Generated/C13.lean) and by the driver for every correspondence case; an independent bitwise "
               "snapshot is the ground truth.  Code paths never executed by the generator are not covered (DESIGN section 8 item 3); "
               "the evidence lists the skeleton counts.")
ASSUMPTIONS = ["the TorchFunctionMode tracer sees every Python-level torch call; writes done inside fused kernels are modelled by rule "
               "(F.batch_norm in training mode writes its running statistics); anything the tracer misses is caught only by the snapshot",
               "storage identity = untyped_storage().data_ptr(), with every intermediate kept alive for the duration of one call",
               "whitelist = documented statistics in training mode only: nflows BatchNorm running_mean/var, ActNorm log_scale/shift/initialized "
               "while not yet initialised, nn.BatchNorm* running_mean/running_var/num_batches_tracked",
               "CPU tensors, float32 inputs, batch 5; sampling calls are made reproducible by re-seeding the global RNG",
               "the Linear weight cache object (neither parameter nor buffer) may be filled by an eval-mode call (covered by C10)"]
TRUSTED_EXTRA = ["the TorchFunctionMode tracer and the write-target rules in harness/common/storetrace.py (translator for Generated/C13.lean)"]

GEN_PATH = os.path.join(os.path.dirname(os.path.dirname(os.path.dirname(os.path.abspath(__file__)))),
                        'lean', 'NflowsModel', 'Generated', 'C13.lean')
KINDS = ['contig', 'transposed', 'expanded', 'slice', 'grad']
FRESH_BASE = 1000
MAX_THEOREMS = 150
_STATE = {}


# ------------------------------------------------------------------------------------------------------
def make_kind(t, kind):
    """the same values as `t`, presented as the given kind of caller tensor"""
    if t is None:
        return None
    if kind == 'contig':
        return t.clone()
    if kind == 'grad':
        return t.clone().requires_grad_(True)
    if kind == 'transposed':
        if t.dim() == 2:
            return t.t().contiguous().t()
        if t.dim() == 4:
            return t.permute(0, 2, 3, 1).contiguous().permute(0, 3, 1, 2)
        return t.clone()
    if kind == 'expanded':
        return t[:1].clone().expand(t.shape)
    if kind == 'slice':
        big = torch.full([s + 3 for s in t.shape], 7.25, dtype=t.dtype)
        idx = tuple(slice(1, 1 + s) for s in t.shape)
        big[idx] = t
        return big[idx]
    raise ValueError(kind)


def do_call(m, call, x, c):
    if call == 'forward':
        return m(x, context=c)
    if call == 'inverse':
        return m.inverse(x, context=c)
    if call == 'log_prob':
        return m.log_prob(x, context=c)
    if call == 'sample':
        return m.sample(3, context=c)
    if call == 'sample_and_log_prob':
        return m.sample_and_log_prob(3, context=c)
    if call == 'sample_batched':
        return m.sample(3, context=c, batch_size=2)
    if call == 'sample1':
        return m.sample(1, context=c)
    if call == 'sample_and_log_prob1':
        return m.sample_and_log_prob(1, context=c)
    if call == 'transform_to_noise':
        return m.transform_to_noise(x, context=c)
    raise ValueError(call)


def out_bytes(out):
    return b'|'.join(ST.tensor_bytes(t) for t in ST.tensors_in(out))


def warm(m, cfg, x, c):
    """one training-mode forward before the observed call (normalisation layers initialised / statistics moved)"""
    was = m.training
    m.train()
    try:
        if cfg.kind == 'transform':
            m(x.clone(), context=None if c is None else c.clone())
        else:
            m.log_prob(x.clone(), context=None if c is None else c.clone())
    except Exception:
        pass
    m.train(was)


class Case:
    def __init__(self, cfg, mode, call, atom, kind, seed):
        self.cfg, self.mode, self.call, self.atom, self.kind, self.seed = cfg, mode, call, atom, kind, seed

    def ident(self):
        return {'config': self.cfg.name, 'mode': self.mode, 'call': self.call, 'atom': self.atom, 'input_kind': self.kind,
                'seed': self.seed}

    def key(self):
        return (self.cfg.name, self.mode, self.call, self.atom, self.kind)


def case_seed(case_key, seed):
    h = hashlib.sha1(repr(case_key).encode()).digest()
    return (int.from_bytes(h[:4], 'little') ^ (seed * 2654435761)) & 0x7fffffff


def prepare(case):
    """build the module and the caller tensors of a case -> (module or None, callers, thunk performing the call)"""
    cfg = case.cfg
    gen = torch.Generator().manual_seed(case.seed)
    atom = case.atom
    warmed = atom.endswith('@warm')
    base_atom = atom[:-5] if warmed else atom
    # autograd regime of the call: '+nograd' = inside torch.no_grad(); '+frozen' = every parameter has requires_grad False (inference
    # with frozen weights); otherwise autograd is on and the parameters require gradients
    kind0, _, regime = case.kind.partition('+')
    case_kind = kind0
    f64 = (lambda t: t.double() if (t is not None and torch.is_tensor(t) and t.is_floating_point()) else t) if regime == 'f64' else (lambda t: t)

    def in_regime(f):
        if regime != 'nograd':
            return f
        def g():
            with torch.no_grad():
                return f()
        return g
    # the context / the parameter tensors get another kind than the inputs so that every kind is exercised on every role
    ckind = KINDS[(KINDS.index(case_kind) + 2) % len(KINDS)] if case_kind != 'contig' else 'contig'
    if cfg.kind == 'func':
        args = {n_: f64(t_) for n_, t_ in cfg.make_args(base_atom, gen).items()}
        callers = {}
        for i, (n, t) in enumerate(args.items()):
            k = case_kind if n == 'inputs' else (ckind if i % 2 else KINDS[(KINDS.index(ckind) + 1) % len(KINDS)])
            if case_kind == 'contig':
                k = 'contig'
            callers[n] = make_kind(t, k)
        inverse = case.call == 'call_inverse'
        return None, callers, in_regime(lambda: cfg.invoke(callers, inverse))
    m = zoo.build(cfg, 1000 + (case_seed((cfg.name,), 0) % 1000))
    m.train(case.mode == 'train')
    if regime == 'frozen':
        for q in m.parameters():
            q.requires_grad_(False)
    if regime == 'f64':
        m = m.double()            # the whole model and its data in double precision (a dtype conversion that is a no-op returns an ALIAS)
    x0 = f64(cfg.gen(base_atom, gen))
    c0 = f64(cfg.gen_ctx(gen))
    if warmed:
        xw = f64(cfg.gen(base_atom, gen))
        warm(m, cfg, xw, f64(cfg.gen_ctx(gen)))
    if case.call == 'inverse':
        x0 = zoo.forward_for_inverse(m, x0, c0)
    cstate = zoo.prep_atom(m, base_atom)
    if cstate == 'cache_hit':
        try:
            with torch.no_grad():
                y, _ = m(x0.clone(), context=c0)
                m.inverse(y, context=c0)
        except Exception:
            pass
    x = make_kind(x0, case_kind)
    c = make_kind(c0, ckind)
    callers = {}
    if case.call not in ('sample', 'sample_and_log_prob', 'sample1', 'sample_and_log_prob1', 'sample_batched'):
        callers['inputs'] = x
    if c is not None:
        callers['context'] = c
    return m, callers, in_regime(lambda: do_call(m, case.call, x, c))


def run_case(case, repeat=True):
    """trace + snapshot one case.  -> dict with trace, changed names (snapshot), whitelist names, outputs"""
    m, callers, thunk = prepare(case)
    wl_names = ST.whitelist_names(m)
    before = ST.Snapshot(callers, m)
    torch.manual_seed(case.seed + 17)
    tr = ST.trace_call(thunk, callers, m)
    after = ST.Snapshot(callers, m)
    changed = before.changed(after)
    res = {'trace': tr, 'changed': changed, 'wl_names': wl_names, 'raised': tr.raised, 'repeat_equal': None,
           'n_state': len(before.state)}
    if tr.raised is None and repeat and case.mode == 'eval':
        b1 = out_bytes(tr.result)
        torch.manual_seed(case.seed + 17)
        try:
            b2 = out_bytes(thunk())
            res['repeat_equal'] = (b1 == b2)
        except Exception as e:
            res['repeat_equal'] = False
            res['repeat_error'] = repr(e)
        again = after.changed(ST.Snapshot(callers, m))
        if again:
            res['changed_on_repeat'] = again
    tr.result = None
    return res


def snapshot_violations(res, mode):
    """names of caller tensors / state entries that changed although not whitelisted (the property's own oracle)"""
    bad = {}
    for k, why in res['changed'].items():
        full = k if k[:2] in ('P:', 'B:') else 'A:' + k
        if full[:2] == 'A:' or mode == 'eval' or full not in res['wl_names']:
            bad[full] = why
    for k, why in res.get('changed_on_repeat', {}).items():
        full = k if k[:2] in ('P:', 'B:') else 'A:' + k
        bad[full + ' (repeat)'] = why
    return bad


INPLACE_HINTS = ('in-place', 'inplace', 'single memory location', 'leaf Variable that requires grad', 'modified by an inplace')


def enumerate_cases(tier, seed, kinds_full=False, for_translator=False):
    """the case list.  quick: every quick-tier configuration x mode x call x atom with the contiguous kind plus one rotating
    view kind; thorough: all configurations and all five kinds."""
    reg = [c for c in zoo.registry() if tier == 'thorough' or c.tier == 'quick']
    out = []
    rot = 0
    for cfg in reg:
        for mode in (('eval',) if cfg.kind == 'func' else ('eval', 'train')):
            atoms = cfg.get_atoms(mode)
            if cfg.batch_stats and mode == 'train':
                atoms = atoms + [a + '@warm' for a in atoms]
            for call in cfg.get_calls():
                for atom in atoms:
                    if for_translator:
                        kinds = ['contig', 'contig+nograd', 'contig+f64']
                    elif tier == 'thorough' or kinds_full:
                        kinds = list(KINDS) + ['contig+nograd', 'contig+frozen', 'transposed+nograd', 'contig+f64']
                    else:
                        rot += 1
                        kinds = ['contig', KINDS[1 + rot % 4], KINDS[1 + (rot + 2) % 4], ('contig+nograd', 'contig+frozen', 'transposed+nograd', 'contig+f64')[rot % 4]]
                    for kind in kinds:
                        if kind == 'expanded' and cfg.batch_stats and mode == 'train':
                            kind = 'slice'       # identical rows make the batch statistics degenerate (std = 0)
                        ck = (cfg.name, mode, call, atom, kind)
                        out.append(Case(cfg, mode, call, atom, kind, case_seed(ck, seed)))
    # remove duplicates created by the substitution above
    seen, uniq = set(), []
    for c in out:
        if c.key() not in seen:
            seen.add(c.key())
            uniq.append(c)
    return uniq


# ---- translator ------------------------------------------------------------------------------------------
def skeleton_key(tr):
    """canonical, configuration-independent form of a trace: owned ids stay, fresh ids start at FRESH_BASE"""
    n = len(tr.owned)
    f = lambda s: s if s < n else FRESH_BASE + (s - n)
    return (tuple(tr.wl), tuple((t, f(s)) for t, s in tr.events))


def lean_events(events):
    names = {ST.ALLOC: '.alloc', ST.VIEW: '.view', ST.READ: '.read', ST.WRITE: '.write'}
    return '[' + ', '.join('%s %d' % (names[t], s) for t, s in events) + ']'


def generate_lean(ctx):
    """translator: traces of the running implementation -> Generated/C13.lean (fixed value seed: deterministic file)"""
    torch.set_num_threads(1)
    tier = 'thorough' if not ctx.quick() else 'quick'
    groups = {}      # skeleton -> {'n': max owned, 'cases': [...], 'safe': bool}
    n_cases = 0
    errors = {}
    for case in enumerate_cases(tier, 0, for_translator=True):
        try:
            m, callers, thunk = prepare(case)
            torch.manual_seed(case.seed + 17)
            tr = ST.trace_call(thunk, callers, m)
        except Exception as e:
            errors[type(e).__name__] = errors.get(type(e).__name__, 0) + 1
            continue
        tr.result = None
        n_cases += 1
        if tr.raised is not None and not tr.events:
            continue
        k = skeleton_key(tr)
        g = groups.setdefault(k, {'n': 0, 'cases': [], 'safe': tr.safe_py()})
        g['n'] = max(g['n'], len(tr.owned))
        g['cases'].append('%s|%s|%s|%s' % (case.cfg.name, case.mode, case.call, case.atom))
        if not tr.safe_py():
            g['offender'] = {s: (tr.names.get(s), tr.write_ops.get(s)) for (t, s) in tr.events
                             if t == ST.WRITE and s in tr.owned and s not in tr.wl}
    # order: rejected skeletons first (Lean must see them), then by number of cases, then by content (deterministic)
    order = sorted(groups.items(), key=lambda kv: (kv[1]['safe'], -len(kv[1]['cases']), kv[0]))
    emitted = order[:MAX_THEOREMS]
    lines = ['import NflowsModel.Core.Thin',
             '/-! GENERATED by harness/props/c13.py (translator) from the running implementation — do not edit.',
             '    One theorem per distinct trace skeleton: owned storages are `0 … n-1` (caller tensors first, then parameters and',
             '    buffers in name order; `n` = the largest owned set among the cases sharing the skeleton, see',
             '    `Properties.C13.traceSafe_mono_owned`), storages allocated inside the call are numbered from %d.' % FRESH_BASE,
             '    cases traced: %d, distinct skeletons: %d, emitted: %d -/' % (n_cases, len(groups), len(emitted)),
             'set_option maxRecDepth 100000',
             'open Thin Thin.Store', 'namespace Properties.C13', '']
    for i, (k, g) in enumerate(emitted):
        wl, evs = k
        cs = sorted(set(g['cases']))
        lines.append('/-- %d case(s), e.g. %s -/' % (len(cs), '; '.join(cs[:3]).replace('-/', '- /')))
        lines.append('theorem trace_%d_safe : traceSafe (List.range %d) %s %s = true := by decide'
                     % (i, g['n'], list(wl), lean_events(evs)))
    lines += ['', 'end Properties.C13', '']
    text = '\n'.join(lines)
    old = open(GEN_PATH).read() if os.path.exists(GEN_PATH) else None
    if old != text:
        os.makedirs(os.path.dirname(GEN_PATH), exist_ok=True)
        with open(GEN_PATH, 'w') as fh:
            fh.write(text)
    bad = [(k, g) for k, g in groups.items() if not g['safe']]
    _STATE['translator'] = {'cases': n_cases, 'skeletons': len(groups), 'emitted': len(emitted), 'rejected': len(bad),
                            'errors': errors, 'file_changed': old != text}
    ctx.extra['translator'] = dict(_STATE['translator'])
    for k, g in bad[:5]:
        ctx.notes.append('translator: skeleton rejected by traceSafe (python pre-check) for %s: %s'
                         % (sorted(set(g['cases']))[:3], g.get('offender')))
    _STATE['skeletons'] = set(groups.keys())


# ---- correspondence --------------------------------------------------------------------------------------
def model_request(tr):
    return {'op': 'c13_trace', 'i': tr.flat(), 'owned': list(tr.owned), 'wl': list(tr.wl)}


def compare_case(ctx, case, res, resp, where='case'):
    """compare the driver's verdict on the trace with the snapshot, storage by storage"""
    tr = res['trace']
    ident = case.ident() if hasattr(case, 'ident') else case
    ints = resp.get('i', [])
    if resp.get('e') or len(ints) != 1 + len(tr.owned):
        ctx.disagree('c13_trace', ident, None, resp, 'driver error / malformed response')
        return
    safe = bool(ints[0])
    counts = dict(zip(tr.owned, ints[1:]))
    if safe != tr.safe_py() or any(counts[s] != n for s, n in tr.write_counts().items()):
        ctx.disagree('c13_trace', ident, {'safe': tr.safe_py(), 'counts': tr.write_counts()}, {'safe': safe, 'counts': counts},
                     'Lean traceSafe/writeCount differ from the Python reference evaluation of the same trace')
    changed = res['changed']
    chg_full = {(k if k[:2] in ('P:', 'B:') else 'A:' + k): v for k, v in changed.items()}
    for s in tr.owned:
        names = tr.names.get(s, [])
        impl_changed = [n for n in names if n in chg_full]
        if (counts[s] > 0) != bool(impl_changed):
            if tr.raised is not None and counts[s] > 0 and not impl_changed:
                continue        # the call raised at (or before) the attempted write: nothing was modified
            ctx.disagree('c13_trace/' + where, dict(ident, storage=names),
                         {'changed': {n: chg_full[n] for n in impl_changed}},
                         {'writes': counts[s], 'ops': tr.write_ops.get(s)},
                         'snapshot says %s, trace model says %s' % ('changed' if impl_changed else 'unchanged',
                                                                    'written' if counts[s] > 0 else 'not written'))
    extra = [n for n in chg_full if not any(n in tr.names.get(s, []) for s in tr.owned)]
    if extra:
        ctx.disagree('c13_trace/' + where, ident, {'changed': {n: chg_full[n] for n in extra}}, None,
                     'snapshot reports a change on a tensor that is not in the owned set of the trace')
    if not safe:
        off = resp.get('f', [[], []])[0]
        ctx.proof_broken.append('premise of Properties.C13.traceSafe_sound fails (driver: traceSafe = false) for %s: writes to %s by %s'
                                % (json.dumps(ident, sort_keys=True), [tr.names.get(s) for s in off][:4],
                                   [tr.write_ops.get(s) for s in off][:4]))
    if res.get('repeat_equal') is False and safe:
        ctx.disagree('c13_repeat', ident, 'repeated eval-mode call returned different bits', 'repeat_same_output: identical',
                     res.get('repeat_error', ''))


def history_cases(tier, seed):
    """call sequences per configuration: (cfg, mode, [(call, atom, kind)])"""
    import random
    rng = random.Random(seed * 31 + 13)
    out = []
    reg = [c for c in zoo.registry() if (tier == 'thorough' or c.tier == 'quick') and c.kind != 'func']
    for cfg in reg:
        for mode in ('eval', 'train'):
            if tier != 'thorough' and mode == 'train' and not cfg.batch_stats:
                continue
            L = rng.randint(4, 6)
            seq = []
            atoms = [a for a in cfg.get_atoms(mode)]
            for _ in range(L):
                kind = rng.choice(KINDS)
                if kind == 'expanded' and cfg.batch_stats and mode == 'train':
                    kind = 'slice'
                seq.append((rng.choice(cfg.get_calls()), rng.choice(atoms), kind))
            out.append((cfg, mode, seq, rng.randrange(1 << 30)))
            alts = [a for a in atoms if '~alt' in a]
            if alts and mode == 'eval':
                # one instance, alternating event shapes: hidden per-instance state keyed on nothing / on the wrong thing shows here
                base = [a for a in atoms if '~alt' not in a and '!edge' not in a][0]
                calls_ = cfg.get_calls()
                inv = 'inverse' if 'inverse' in calls_ else calls_[0]
                seq2 = [(calls_[0], base, 'contig'), (calls_[0], alts[0], 'contig'), (inv, base, 'contig'), (inv, alts[0], 'contig'), (calls_[0], base, 'contig')]
                out.append((cfg, mode, seq2, rng.randrange(1 << 30)))
    return out


def run_history(cfg, mode, seq, seed):
    """run a call sequence on ONE module; trace every call; snapshot around the whole sequence.
    In eval mode each call's output is also compared with the same call made first on a fresh identical module."""
    m = zoo.build(cfg, 1000 + (case_seed((cfg.name,), 0) % 1000))
    m.train(mode == 'train')
    wl_names = ST.whitelist_names(m)
    gen = torch.Generator().manual_seed(seed)
    calls = []
    for (call, atom, kind) in seq:
        x0 = cfg.gen(atom, gen)
        c0 = cfg.gen_ctx(gen)
        if call == 'inverse':
            x0 = zoo.forward_for_inverse(_uncached(m), x0, c0)
        calls.append((call, atom, kind, x0, c0))
    all_callers = {}
    prepared = []
    for i, (call, atom, kind, x0, c0) in enumerate(calls):
        x = make_kind(x0, kind)
        c = make_kind(c0, 'contig' if kind == 'contig' else KINDS[(KINDS.index(kind) + 2) % 5])
        if call not in ('sample', 'sample_and_log_prob', 'sample1', 'sample_and_log_prob1', 'sample_batched'):
            all_callers['inputs%d' % i] = x
        if c is not None:
            all_callers['context%d' % i] = c
        prepared.append((call, atom, x, c))
    before = ST.Snapshot(all_callers, m)
    traces, outs, raised = [], [], []
    for i, (call, atom, x, c) in enumerate(prepared):
        zoo.prep_atom(m, atom)
        torch.manual_seed(seed + i)
        tr = ST.trace_call(lambda: do_call(m, call, x, c), all_callers, m)
        outs.append(None if tr.raised is not None else out_bytes(tr.result))
        raised.append(tr.raised)
        tr.result = None
        traces.append(tr)
    after = ST.Snapshot(all_callers, m)
    order_ok = None
    if mode == 'eval':
        order_ok = True
        for i, (call, atom, x, c) in enumerate(prepared):
            if outs[i] is None:
                continue
            m2 = zoo.build(cfg, 1000 + (case_seed((cfg.name,), 0) % 1000))
            m2.eval()
            zoo.prep_atom(m2, atom)
            torch.manual_seed(seed + i)
            try:
                b = out_bytes(do_call(m2, call, x, c))
            except Exception:
                b = None
            if b != outs[i]:
                order_ok = False
    return {'traces': traces, 'changed': before.changed(after), 'wl_names': wl_names, 'order_ok': order_ok, 'raised': raised}


def _uncached(m):
    """a deep copy with empty Linear caches (cached weights are non-leaf tensors and cannot be deep-copied)"""
    saved = []
    for sub in m.modules():
        if hasattr(sub, 'cache') and hasattr(sub.cache, 'invalidate'):
            saved.append((sub.cache, (sub.cache.weight, sub.cache.inverse, sub.cache.logabsdet)))
            sub.cache.invalidate()
    try:
        return copy.deepcopy(m)
    finally:
        for cache, (w, inv, ld) in saved:
            cache.weight, cache.inverse, cache.logabsdet = w, inv, ld


def concat_traces(traces):
    """concatenate traces of one module (same owned numbering; fresh ids are made disjoint)"""
    owned = traces[0].owned
    n = len(owned)
    big = ST.Trace()
    big.owned, big.wl, big.names = list(owned), list(traces[0].wl), dict(traces[0].names)
    off = n
    for tr in traces:
        mx = n
        for t, s in tr.events:
            s2 = s if s < n else off + (s - n)
            mx = max(mx, s2 + 1)
            big.events.append((t, s2))
            if t == ST.WRITE and s < n:
                big.write_ops.setdefault(s, []).extend(tr.write_ops.get(s, [])[:1])
        off = max(off, mx)
    return big


def selftest_cases():
    """(name, function of caller tensors x [5,4] and p [4], writes_to) — every in-place FORM the tracer must attribute;
    run on every check so that a blind spot of the translator (e.g. after a torch upgrade) shows up as a disagreement"""
    import torch.nn.functional as F
    T = [
        ('add_', lambda x, p: x.add_(1.0), 'x'), ('iadd', lambda x, p: x.__iadd__(1.0), 'x'),
        ('setitem', lambda x, p: x.__setitem__(0, 1.0), 'x'),
        ('view-slice-itruediv', lambda x, p: x[..., :2].__itruediv__(2.0), 'x'),
        ('transpose-mul_', lambda x, p: x.t().mul_(2.0), 'x'), ('detach-mul_', lambda x, p: x.detach().mul_(2.0), 'x'),
        ('reshape-view-zero_', lambda x, p: x.view(-1).zero_(), 'x'), ('out-kwarg', lambda x, p: torch.add(x, 1.0, out=x), 'x'),
        ('copy_', lambda x, p: x.copy_(torch.ones_like(x)), 'x'),
        ('masked_fill_', lambda x, p: x.masked_fill_(x > 0, 0.0), 'x'),
        ('index_put_', lambda x, p: x.index_put_((torch.tensor([0]),), torch.tensor(3.0)), 'x'),
        ('masked-setitem', lambda x, p: x.__setitem__(x > 0, 0.0), 'x'),
        ('relu-inplace', lambda x, p: F.relu(x, inplace=True), 'x'), ('clamp_', lambda x, p: x.clamp_(0.0, 0.1), 'x'),
        ('data-rebind', lambda x, p: setattr(p, 'data', torch.ones(4)), 'p'),
        ('expand-param-then-div_', lambda x, p: p[None, 1:3].div_(2.0), 'p'),
        ('batch_norm-training', lambda x, p: F.batch_norm(x, p, torch.ones(4), training=True), 'p'),
        ('clone-then-add_', lambda x, p: x.clone().add_(1.0), None),
        ('index-copy-then-div_', lambda x, p: x[:, torch.tensor([0, 2])].div_(2.0), None),
        ('zeros_like-setitem', lambda x, p: torch.zeros_like(x).__setitem__(x > 0, 1.0), None),
        ('pure', lambda x, p: (x * p).sum(), None),
        ('batch_norm-eval', lambda x, p: F.batch_norm(x, p, torch.ones(4), training=False), None),
    ]
    return T


def run_selftest(ctx):
    reqs, metas = [], []
    for name, fn, target in selftest_cases():
        g = torch.Generator().manual_seed(5)
        x = torch.randn(5, 4, generator=g)
        p = torch.rand(4, generator=g) + 0.5
        callers = {'x': x, 'p': p}
        before = ST.Snapshot(callers, None)
        tr = ST.trace_call(lambda: fn(x, p), callers, None)
        tr.result = None
        changed = before.changed(ST.Snapshot(callers, None))
        reqs.append(model_request(tr))
        metas.append((name, target, tr, changed))
    for (name, target, tr, changed), resp in zip(metas, leandriver.call(reqs)):
        safe = bool(resp.get('i', [0])[0])
        want_changed = set() if target is None else {target}
        ok = (set(changed) == want_changed) and (safe == (target is None)) and tr.raised is None
        ctx.case(key=('selftest', name), branch='translator-selftest', nontrivial=target is not None, n=1)
        if not ok:
            ctx.disagree('c13_selftest', {'form': name, 'expected_write_to': target},
                         {'snapshot_changed': {k: v for k, v in changed.items()}, 'raised': repr(tr.raised)},
                         {'traceSafe': safe, 'events': tr.events},
                         'the translator / snapshot did not attribute this in-place form as expected')


def correspondence(ctx):
    torch.set_num_threads(1)
    tier = 'thorough' if not ctx.quick() else 'quick'
    run_selftest(ctx)
    cases = enumerate_cases(tier, ctx.seed)
    if tier == 'thorough':          # more value seeds (other branch outcomes of the data-dependent masks)
        for extra in (1, 2):
            cases += enumerate_cases(tier, ctx.seed + 1000 * extra)
    results, reqs = [], []
    for case in cases:
        try:
            res = run_case(case)
        except Exception as e:
            ctx.case(key=None, branch='harness-error:' + type(e).__name__, nontrivial=False)
            ctx.notes.append('case %s could not be prepared: %r' % (case.ident(), e))
            continue
        results.append((case, res))
        reqs.append(model_request(res['trace']))
    # histories
    hists = []
    for (cfg, mode, seq, hseed) in history_cases(tier, ctx.seed):
        try:
            h = run_history(cfg, mode, seq, hseed)
        except Exception as e:
            ctx.notes.append('history %s/%s could not be run: %r' % (cfg.name, mode, e))
            continue
        big = concat_traces(h['traces'])
        hists.append((cfg, mode, seq, hseed, h, big))
        reqs.append(model_request(big))
    n_main = len(reqs)
    # every single call of every history (the whitelist may shrink inside a history: ActNorm initialises once)
    per_call = []
    for (cfg, mode, seq, hseed, h, big) in hists:
        for i, tr in enumerate(h['traces']):
            per_call.append((cfg, mode, seq, hseed, i, tr))
            reqs.append(model_request(tr))
    resps = leandriver.call(reqs)
    for (cfg, mode, seq, hseed, i, tr), resp in zip(per_call, resps[n_main:]):
        if not resp.get('i') or not resp['i'][0]:
            off = (resp.get('f') or [[], []])[0]
            ctx.proof_broken.append('premise of Properties.C13.history_sound fails (driver: traceSafe = false) for call %d %s of history '
                                    '%s/%s seed %d: writes to %s' % (i, list(seq[i]), cfg.name, mode, hseed,
                                                                    [tr.names.get(s) for s in off][:4]))
    resps = resps[:n_main]
    known_skel = _STATE.get('skeletons')
    seen_skel, unseen = set(), 0
    sampled = set()
    for (case, res), resp in zip(results, resps[:len(results)]):
        tr = res['trace']
        nwrites = sum(1 for t, _ in tr.events if t == ST.WRITE)
        sk = skeleton_key(tr)
        seen_skel.add(sk)
        if known_skel is not None and sk not in known_skel:
            unseen += 1
        if tr.raised is not None:
            msg = str(tr.raised)
            kind = type(tr.raised).__name__
            ctx.case(key=('err',) + case.key(), branch='error:' + kind, nontrivial=False, n=1)
            if any(h in msg for h in INPLACE_HINTS):
                ctx.count('error-mentions-inplace')
        else:
            smp = None
            if nwrites > 0 and case.cfg.name not in sampled and (len(sampled) % 2 == 0 or res['changed']):
                sampled.add(case.cfg.name)
                smp = {'case': case.ident(), 'events': len(tr.events), 'writes': nwrites, 'owned': len(tr.owned),
                       'whitelist': len(tr.wl), 'changed': sorted(res['changed'])[:6]}
            ctx.case(key=case.key(), branch='%s/%s/%s' % (case.mode, case.call, case.kind), nontrivial=nwrites > 0,
                     sample=smp, n=1)
            ctx.count('writes>0' if nwrites else 'no-inplace-op')
            if tr.wl:
                ctx.count('whitelisted-statistics-present')
            if any(res['changed']):
                ctx.count('state-moved(whitelisted or not)')
        compare_case(ctx, case, res, resp)
    for (cfg, mode, seq, hseed, h, big), resp in zip(hists, resps[len(results):]):
        ident = {'config': cfg.name, 'mode': mode, 'history': [list(s) for s in seq], 'seed': hseed}
        ctx.case(key=('hist', cfg.name, mode), branch='history/' + mode, nontrivial=any(t == ST.WRITE for t, _ in big.events),
                 n=len(seq))
        compare_case(ctx, ident, {'trace': big, 'changed': h['changed']}, resp, where='history')
        if h['order_ok'] is False and bool(resp.get('i', [0])[0]):
            ctx.disagree('c13_order', ident, 'a call inside the sequence returned other bits than the same call on a fresh module',
                         'history_sound + repeat_same_output: identical', '')
    ctx.extra['skeletons_seen_in_correspondence'] = len(seen_skel)
    ctx.extra['correspondence_cases_with_skeleton_not_in_Generated'] = unseen
    ctx.extra['histories'] = len(hists)


# ---- search / replay --------------------------------------------------------------------------------------
def oracle_case(case):
    """the property's own oracle on one case: list of (what, match) failures"""
    fails = []
    try:
        res = run_case(case)
    except Exception as e:
        return fails
    bad = snapshot_violations(res, case.mode)
    for name, why in bad.items():
        role = 'caller tensor' if name.startswith('A:') else 'model state'
        fails.append(('%s %s changed (%s) during %s of %s in %s mode [atom %s, input kind %s]'
                      % (role, name, ', '.join(why), case.call, case.cfg.name, case.mode, case.atom, case.kind),
                      {'config': case.cfg.name, 'mode': case.mode, 'call': case.call, 'tensor': name.split(' ')[0],
                       'symptom': 'modified'}))
    if res['raised'] is not None and any(h in str(res['raised']) for h in INPLACE_HINTS) and case.kind in ('grad', 'expanded'):
        fails.append(('%s of %s in %s mode attempts an in-place write on the caller tensor (%s input): %s'
                      % (case.call, case.cfg.name, case.mode, case.kind, str(res['raised'])[:160]),
                      {'config': case.cfg.name, 'mode': case.mode, 'call': case.call, 'tensor': 'A:inputs',
                       'symptom': 'inplace-attempt'}))
    if res.get('repeat_equal') is False:
        fails.append(('repeated %s of %s in eval mode is not bit-identical' % (case.call, case.cfg.name),
                      {'config': case.cfg.name, 'mode': case.mode, 'call': case.call, 'tensor': 'output',
                       'symptom': 'not-repeatable'}))
    return fails


def search(ctx):
    torch.set_num_threads(1)
    seen = set()
    budget = 240 if ctx.quick() else 900
    import time
    t0 = time.time()
    # call histories on ONE instance: every evaluation-mode call must return, bit for bit, what the same call returns when it is the
    # first call on a fresh identical model (a side effect on the model that is neither a parameter nor a buffer is visible only so)
    for (cfg, mode, seq, hseed) in history_cases('thorough', ctx.seed):
        if mode != 'eval' or time.time() - t0 > budget / 3:
            continue
        try:
            h = run_history(cfg, mode, seq, hseed)
        except Exception:
            continue
        if h.get('order_ok') is False:
            match = {'config': cfg.name, 'mode': mode, 'call': 'history', 'tensor': 'output', 'symptom': 'history-dependent'}
            k = json.dumps(match, sort_keys=True)
            if k not in seen:
                seen.add(k)
                ctx.fail('results of %s depend on the calls made before on the same instance (history %s)' % (cfg.name, [list(q) for q in seq]),
                         {'config': cfg.name, 'mode': mode, 'history': [list(q) for q in seq], 'seed': hseed}, detail=None, match=match)
        if len(ctx.failing) >= 5:
            return
    for seed in (ctx.seed, ctx.seed + 1):
        for case in enumerate_cases('thorough', seed, kinds_full=True):
            if time.time() - t0 > budget:
                return
            for what, match in oracle_case(case):
                k = json.dumps(match, sort_keys=True)
                if k in seen:
                    continue
                seen.add(k)
                ctx.fail(what, case.ident(), detail=None, match=match)
        if ctx.failing:
            return


def _case_from_ident(d):
    reg = {c.name: c for c in zoo.registry()}
    cfg = reg.get(d.get('config'))
    if cfg is None:
        return None
    return Case(cfg, d['mode'], d['call'], d['atom'], d['input_kind'], int(d['seed']))


def replay(ctx, payload):
    torch.set_num_threads(1)
    f = payload.get('failing') or {}
    fc = f.get('case') or {}
    if 'history' in fc:
        reg = {c.name: c for c in zoo.registry()}
        cfg = reg.get(fc.get('config'))
        if cfg is None:
            return None
        h = run_history(cfg, fc['mode'], [tuple(q) for q in fc['history']], int(fc['seed']))
        return h.get('order_ok') is False
    case = _case_from_ident(fc)
    if case is None:
        return None
    fails = oracle_case(case)
    for what, _ in fails:
        print('  ' + what)
    return bool(fails)


def replay_finding(ctx, entry):
    torch.set_num_threads(1)
    m = entry.get('match', {})
    reg = {c.name: c for c in zoo.registry()}
    cfg = reg.get(m.get('config'))
    if cfg is None:
        return None
    for case in enumerate_cases('thorough', 0, kinds_full=True):
        if case.cfg.name != cfg.name or case.mode != m.get('mode', case.mode) or case.call != m.get('call', case.call):
            continue
        for what, mt in oracle_case(case):
            if all(mt.get(k) == v for k, v in m.items()):
                return True
    return False
