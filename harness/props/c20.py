"""C20 — tensor and mask utilities obey their algebraic specifications.

Theorems: Properties.C20 (tile/repeat_rows index laws, split/merge mutually inverse, sum_except_batch shape and
value, searchsorted half-open-bin spec on the executable `searchsortedG` + purity of the two-buffer program,
cbrt, logabsdet, masks pattern/count, get_temperature, type predicates incl. `is_power_of_two n <-> exists k, n = 2^k`).
Correspondence: the helpers of nflows.utils on EVERY shape with <= 3 dims and sizes 0..4 (contiguous and
non-contiguous views, arange-tagged integer data, every count argument incl. malformed ones), exact comparison of
shapes / data / exception kinds, every argument tensor compared before/after the call (bytes of the underlying
storage, `_version`, shape/stride/offset); searchsorted on sorted random knots at knots / neighbours / ends in
float32+float64 with large magnitudes; cbrt / get_temperature / logabsdet / KDE under a stated tolerance."""
import itertools, math
import numpy as np
import torch
from harness.common import leandriver, bits

PROPERTY = 'C20'
LEVEL = 'proof'
REQUIRED_THEOREMS = ['Properties.C20.' + n for n in (
    'tile_spec', 'tile_length', 'tile_ok', 'tile_eq_repeatRows', 'repeat_rows_ok', 'repeat_rows_spec',
    'merge_ok', 'merge_split_id', 'split_merge_id', 'split_merge_id_infer_partial', 'split_infer_empty_counterexample', 'merged_index',
    'empty_trailing_ok',
    'sum_except_batch_shape', 'sum_except_batch_value', 'sum_except_batch_reduce', 'sum_except_batch_all_batch',
    'sum_except_batch_keeps_batch_example',
    'searchsorted_spec', 'searchsorted_spec_real', 'searchsorted_result_eq', 'searchsorted_pure', 'searchsorted_noclone_mutates_counterexample',
    'cbrt_cube', 'cbrt_neg', 'cbrt_executed_eq', 'logabsdet_spec', 'detL_small',
    'alternating_mask_spec', 'alternating_mask_count', 'mid_split_spec', 'mid_split_count', 'random_mask_count',
    'temperature_spec', 'is_power_of_two_iff', 'predicates_table',
    'detL_is_det', 'detL_is_det_of_rows', 'detL_of_request', 'logabsdet_executed', 'detL_algebra', 'split_returns_iff', 'split_merge_id_infer',
    'split_empty_witness')]
RULE = ("structural helpers (tile, repeat_rows, merge_leading_dims, split_leading_dim, sum_except_batch): EXHAUSTIVE over all shapes "
        "with <= 3 dims and sizes 0..4 (156 shapes) x {contiguous, permuted view} x every count argument 1..5 and the malformed ones "
        "(0, -1, True, False, 2.0, None, '2', numpy int) / every candidate split shape over {-1,0..4}; data = arange tags (int64), compared "
        "exactly with the Lean model's (shape, flat data) or error kind; arguments snapshotted before/after; searchsorted: sorted random knots "
        "(K in 1..8, magnitudes 1..1e4, float32/float64, eps in {1e-6, 1e-3, 0}) with inputs at every knot, both nextafter neighbours, "
        "ends, outside, interior — indices exact, argument buffer bitwise; cbrt: signed atoms 0, tiny, huge, random; masks: features 0..12; "
        "predicates: ints -3..17, 2^k and 2^k+-1 up to 2^70, bools, floats, None, str, numpy/tensor values.  A case is non-trivial when the "
        "call succeeds and the result is not the (flattened) input itself; distinct by (function, shape, layout, argument).")
EXPLANATION = ("Lean proofs for all shapes/sizes of the index laws, bin-search spec, mask patterns/counts and predicates on the executable "
               "definitions the driver runs; tie = exhaustive small-shape differential run against nflows.utils incl. argument immutability")
ASSUMPTIONS = ["torch.reshape / repeat / expand / sum / slogdet / multinomial behave as documented (row-major reshape; multinomial without "
               "replacement returns distinct in-range indices)",
               "inputs are finite floats (NaN is not generated for searchsorted / cbrt)",
               "floating-point helpers (cbrt, get_temperature, logabsdet, KDE) are compared under a tolerance; their theorems are over the reals"]

MAXDIM = 4


# ---------------------------------------------------------------------------------------------------------------
# helpers
def U():
    import nflows.utils as u
    return u


def errkind(e):
    for k in ('TypeError', 'ValueError', 'IndexError', 'RuntimeError', 'AssertionError'):
        if type(e).__name__ == k:
            return k
    for cls, k in ((TypeError, 'TypeError'), (ValueError, 'ValueError'), (IndexError, 'IndexError'), (RuntimeError, 'RuntimeError')):
        if isinstance(e, cls):
            return k
    return 'other'


def all_shapes(lo=0, hi=MAXDIM):
    out = [()]
    for nd in (1, 2, 3):
        out += list(itertools.product(range(lo, hi + 1), repeat=nd))
    return out


def numel(shape):
    n = 1
    for s in shape:
        n *= s
    return n


def make_tensor(shape, layout, offset=0):
    """arange-tagged int64 tensor of the given logical shape; layout 'c' contiguous, 'p' permuted (non-contiguous) view"""
    n = numel(shape)
    if layout == 'c' or len(shape) < 2:
        base = torch.arange(n, dtype=torch.int64) + offset
        return base.reshape(shape), base
    rs = tuple(reversed(shape))
    base = torch.arange(n, dtype=torch.int64) + offset
    perm = tuple(reversed(range(len(shape))))
    return base.reshape(rs).permute(perm), base


def snap(t, base=None):
    b = t if base is None else base
    st = t.untyped_storage()
    raw = bytes(st.tolist()) if st.nbytes() <= 1 << 16 else None
    return (t._version, b._version, tuple(t.shape), tuple(t.stride()), t.storage_offset(), raw, t.dtype)


def changed(t, s, base=None):
    """list of things that differ between the snapshot and now"""
    now = snap(t, base)
    names = ('_version', 'base._version', 'shape', 'stride', 'storage_offset', 'storage bytes', 'dtype')
    return [names[i] for i in range(len(names)) if now[i] != s[i]]


class Odd:
    """a value sent to the count arguments; `py` is what the implementation gets, `js` the PyVal encoding for the model"""
    def __init__(self, py, js, label):
        self.py, self.js, self.label = py, js, label


def pyval(v):
    if isinstance(v, bool):
        return {'t': 'bool', 'v': int(v)}
    if isinstance(v, int):
        return {'t': 'int', 'v': v}
    if isinstance(v, float):
        return {'t': 'float'}
    if v is None:
        return {'t': 'none'}
    if isinstance(v, str):
        return {'t': 'str'}
    return {'t': 'other'}


def label(v):
    return '%s:%r' % (type(v).__name__, v if not isinstance(v, torch.Tensor) else v.tolist())


BAD_COUNTS = [0, -1, True, False, 2.0, None, '2', np.int64(2)]


def call(fn, *a, **k):
    try:
        return 'ok', fn(*a, **k)
    except Exception as e:  # noqa
        return errkind(e), None


def tensor_result(r):
    if not isinstance(r, torch.Tensor):
        return {'not_a_tensor': repr(type(r))}
    return {'shape': list(r.shape), 'data': r.reshape(-1).tolist()}


def model_tensor(resp):
    if resp.get('e'):
        return resp['e'], None
    return 'ok', {'shape': (resp['f'][0] if resp['f'] else []), 'data': resp['i']}


# ---------------------------------------------------------------------------------------------------------------
# structural helpers: case generators (shared by correspondence and search)
def split_candidates(s0, quick):
    vals = [-1, 0, 1, 2, 3, 4]
    out = [[]]
    for L in (1, 2, 3):
        for sh in itertools.product(vals, repeat=L):
            if L == 3 and quick:
                # quick tier: keep the 3-factor splits that are valid or nearly valid
                p = 1
                for v in sh:
                    p *= (1 if v == -1 else v)
                if not (p == s0 or (sh.count(-1) == 1 and p != 0 and s0 % p == 0) or sh.count(-1) == 2):
                    continue
            out.append(list(sh))
    out.append([-2, 3]); out.append([6]); out.append([2, 6]); out.append([-1, 5])
    return out


def structural_cases(quick):
    """yield (fn name, shape, layout, argument (python value), label)"""
    for shape in all_shapes(0, MAXDIM if quick else MAXDIM + 1):       # thorough: sizes 0..5
        for layout in (('c', 'p') if len(shape) >= 2 else ('c',)):
            for n in [1, 2, 3, 4, 5] + ([] if quick else [6, 7]) + BAD_COUNTS:
                yield 'tile', shape, layout, n
                yield 'repeat_rows', shape, layout, n
            for k in [1, 2, 3, 4] + BAD_COUNTS:
                yield 'merge_leading_dims', shape, layout, k
            for k in [0, 1, 2, 3, 4, -1, True, False, 1.0, None, np.int64(1)]:
                yield 'sum_except_batch', shape, layout, k
            s0 = shape[0] if shape else 1
            for sh in split_candidates(s0, quick):
                yield 'split_leading_dim', shape, layout, sh


OPNAME = {'tile': 'c20.tile', 'repeat_rows': 'c20.repeat_rows', 'merge_leading_dims': 'c20.merge',
          'sum_except_batch': 'c20.sum', 'split_leading_dim': 'c20.split'}


def run_structural(fn, shape, layout, arg):
    u = U()
    off = -3 if fn == 'sum_except_batch' else 0
    x, base = make_tensor(shape, layout, off)
    s = snap(x, base)
    before = x.clone()
    argin = list(arg) if isinstance(arg, list) else arg
    kind, r = call(getattr(u, fn), x, argin)
    ch = changed(x, s, base)
    if not torch.equal(x, before):
        ch.append('values')
    if isinstance(arg, list) and argin != arg:
        ch.append('shape-argument list')
    return x, kind, r, ch


def correspondence_structural(ctx):
    reqs, metas = [], []
    for (fn, shape, layout, arg) in structural_cases(ctx.quick()):
        x, kind, r, ch = run_structural(fn, shape, layout, arg)
        req = {'op': OPNAME[fn], 'shape': list(shape), 'data': x.reshape(-1).tolist()}
        if fn == 'split_leading_dim':
            req['sh'] = arg
        else:
            req['n'] = pyval(arg)
        reqs.append(req)
        metas.append((fn, shape, layout, arg, kind, r, ch, x))
    resps = leandriver.call(reqs)
    for (fn, shape, layout, arg, kind, r, ch, x), resp in zip(metas, resps):
        mk, mt = model_tensor(resp)
        case = {'function': fn, 'shape': list(shape), 'layout': layout, 'arg': label(arg)}
        if ch:
            ctx.disagree(fn, case, 'argument changed: %s' % ch, 'argument unchanged (pure function)', 'the call modified its argument')
        if kind != 'ok':
            ctx.case(key=('err', fn, shape, layout, label(arg)), branch='%s/error:%s' % (fn, kind), nontrivial=False)
            if mk != kind:
                ctx.disagree(fn, case, kind, mk if mk != 'ok' else mt, 'implementation raised %s, model %s' % (kind, mk))
            continue
        it = tensor_result(r)
        flat_in = x.reshape(-1).tolist()
        nontrivial = not (it.get('data') == flat_in and (it.get('shape') in (list(shape), [len(flat_in)])))
        ctx.case(key=(fn, shape, layout, label(arg)), branch='%s/ok' % fn, nontrivial=nontrivial,
                 sample=dict(case, impl=it, model=mt) if (shape == (2, 3) and layout == 'p' and
                                                           type(arg) is int and (fn, arg) in (('tile', 2), ('repeat_rows', 2), ('sum_except_batch', 1))) else None)
        if mk != 'ok':
            ctx.disagree(fn, case, it, mk, 'model raised %s, implementation returned a value' % mk)
        elif it != mt:
            ctx.disagree(fn, case, it, mt, 'results differ')
        elif fn != 'sum_except_batch' and isinstance(r, torch.Tensor) and r.dtype != x.dtype:
            ctx.disagree(fn, case, str(r.dtype), str(x.dtype), 'dtype of a reshape helper changed')
    ctx.exhaustive = True


# ---------------------------------------------------------------------------------------------------------------
# searchsorted
def search_configs(ctx):
    Ks = [1, 2, 3, 5, 8]
    scales = [(0.0, 1.0), (-3.0, 1.0), (1e2, 1.0), (1e3, 10.0), (1e4, 100.0), (-1e4, 1e4)]
    for prec in ('f64', 'f32'):
        for K in Ks:
            for (off, sc) in scales:
                for eps in (None, 1e-3, 0.0):
                    for shared in (False, True):
                        if shared and (eps is not None or K not in (1, 3)):
                            continue
                        yield prec, K, off, sc, eps, shared


def make_knots(prec, K, off, sc, R, gen):
    dt = torch.float64 if prec == 'f64' else torch.float32
    w = torch.rand(R, K, generator=gen, dtype=torch.float64) + 0.05
    kn = torch.cat([torch.zeros(R, 1, dtype=torch.float64), torch.cumsum(w, 1)], 1) * sc + off
    kn = kn.to(dt)
    # strictly increasing after rounding?
    ok = bool((kn[:, 1:] > kn[:, :-1]).all())
    return kn, ok


def search_atoms(kn, gen):
    dt = kn.dtype
    R, K1 = kn.shape
    inf = torch.tensor(float('inf'), dtype=dt)
    cols, kinds = [], []
    for k in range(K1):
        c = kn[:, k].clone()
        nm = 'first' if k == 0 else ('last' if k == K1 - 1 else 'knot')
        cols.append(c); kinds.append(nm)
        cols.append(torch.nextafter(c, inf)); kinds.append(nm + '+')
        cols.append(torch.nextafter(c, -inf)); kinds.append(nm + '-')
    lo, hi = kn[:, 0], kn[:, -1]
    for _ in range(3):
        cols.append((lo.double() + (hi - lo).double() * torch.rand(R, generator=gen, dtype=torch.float64)).to(dt)); kinds.append('interior')
    cols.append(lo - (hi - lo) - 1); kinds.append('below')
    cols.append(hi + (hi - lo) + 1); kinds.append('above')
    cols.append(hi + torch.tensor(1e-6, dtype=dt)); kinds.append('last+eps')
    return cols, kinds


def correspondence_searchsorted(ctx, gen):
    u = U()
    R = 3 if ctx.quick() else 6
    reqs, metas = [], []
    for (prec, K, off, sc, eps, shared) in search_configs(ctx):
        kn, ok = make_knots(prec, K, off, sc, R, gen)
        if not ok:
            continue
        bins = kn[0].clone() if shared else kn.clone()
        cols, kinds = search_atoms(kn if not shared else kn[0:1].expand(R, -1), gen)
        for c, kd in zip(cols, kinds):
            inp = c.clone()
            sb, si = snap(bins), snap(inp)
            kind, r = call(u.searchsorted, bins, inp) if eps is None else call(u.searchsorted, bins, inp, eps)
            chb, chi = changed(bins, sb), changed(inp, si)
            if not shared and kind == 'ok':
                # the same call with an extra broadcast dimension ([R,1,K+1] bins, [R,1] inputs) must give the same bins
                k2, r2 = call(u.searchsorted, bins.unsqueeze(1), inp.unsqueeze(1)) if eps is None else call(u.searchsorted, bins.unsqueeze(1), inp.unsqueeze(1), eps)
                if k2 != 'ok' or tuple(r2.shape) != (R, 1) or r2.reshape(-1).tolist() != r.tolist():
                    kind, r = 'ok', (r2.reshape(-1) if k2 == 'ok' and r2.numel() == R else torch.full((R,), -99))
                chb = chb + changed(bins, sb)
            rows = bins.unsqueeze(0).expand(R, -1) if shared else bins
            reqs.append({'op': 'c20.searchsorted', 'p': prec, 'i': [K + 1],
                         'f': [bits.tensor_bits(kn if not shared else kn[0:1].expand(R, -1).contiguous()), bits.tensor_bits(c)],
                         'd': [bits.f64_bits(1e-6 if eps is None else eps)]})
            metas.append((prec, K, off, sc, eps, shared, kd, kind, r, chb + chi, bits.tensor_bits(rows.contiguous()), c, kn))
    resps = leandriver.call(reqs)
    for (prec, K, off, sc, eps, shared, kd, kind, r, ch, after_bits, c, kn), resp in zip(metas, resps):
        case = {'function': 'searchsorted', 'prec': prec, 'K': K, 'offset': off, 'scale': sc, 'eps': eps, 'shared_bins': shared, 'atom': kd,
                'knots_bits': bits.tensor_bits(kn), 'inputs_bits': bits.tensor_bits(c)}
        n = c.numel()
        if ch:
            ctx.disagree('searchsorted', case, 'argument changed: %s' % ch, 'argument unchanged', 'searchsorted modified an argument')
        if kind != 'ok':
            ctx.case(key=('err', 'searchsorted', prec, K, kd), branch='searchsorted/error:' + kind, nontrivial=False, n=n)
            ctx.disagree('searchsorted', case, kind, resp['i'], 'implementation raised')
            continue
        il = r.tolist()
        ctx.case(key=('searchsorted', prec, K, off, eps, shared, kd), branch='searchsorted/%s/%s' % (prec, kd), n=n,
                 nontrivial=any(v != 0 for v in il),
                 sample=dict({k: case[k] for k in ('function', 'prec', 'K', 'offset', 'eps', 'atom')}, impl=il, model=resp['i']) if (kd == 'last' and K == 3 and off == 1e2 and prec == 'f32' and eps is None and not shared) else None)
        if il != resp['i']:
            ctx.disagree('searchsorted', case, il, resp['i'], 'bin indices differ')
        if after_bits != resp['f'][0]:
            ctx.disagree('searchsorted', case, 'bin_locations after the call differ from before', 'unchanged', 'argument buffer after the call differs from the model (pure)')


# ---------------------------------------------------------------------------------------------------------------
# scalar helpers: cbrt, get_temperature, logabsdet, kde
def cbrt_atoms(prec, gen, n):
    dt = torch.float64 if prec == 'f64' else torch.float32
    fi = torch.finfo(dt)
    base = [0.0, -0.0, 1.0, -1.0, 8.0, -27.0, 1e-3, -1e-3, fi.tiny, -fi.tiny, fi.tiny * fi.eps, -fi.tiny * fi.eps, fi.max, -fi.max,
            fi.max / 3, 1e30, -1e30, 1e-30, 0.1, -0.3, 2.0, -2.0, 64.0, 1e6, -1e6]
    r = torch.exp(torch.randn(n, generator=gen, dtype=torch.float64) * 8) * torch.sign(torch.randn(n, generator=gen, dtype=torch.float64))
    return torch.cat([torch.tensor(base, dtype=torch.float64), r]).to(dt)


def cbrt_tol(prec, x, y):
    eps = 2.0 ** -52 if prec == 'f64' else 2.0 ** -23
    if x == 0:
        return 0.0
    return 8 * eps * (1 + abs(math.log(abs(x))) / 3) * abs(y) + (5e-324 if prec == 'f64' else 1.5e-45) * 4


def correspondence_scalar(ctx, gen):
    u = U()
    reqs, metas = [], []
    for prec in ('f64', 'f32'):
        x = cbrt_atoms(prec, gen, 40 if ctx.quick() else 400)
        s = snap(x)
        kind, y = call(u.cbrt, x)
        reqs.append({'op': 'c20.cbrt', 'p': prec, 'f': [bits.tensor_bits(x)]})
        metas.append(('cbrt', prec, x, kind, y, changed(x, s)))
    for m in [0.5, 1.0, 5.0, 6.5, 7.5, 10.0, 100.0, 1e4, -3.0, -0.25, 0.0, 20.0, 13.0]:
        for b in [None, 0.5, 0.9, 0.99, 0.25]:
            kind, t = call(u.get_temperature, m) if b is None else call(u.get_temperature, m, b)
            bb = 1 - 1e-3 if b is None else b
            mb = torch.Tensor([m, bb])
            reqs.append({'op': 'c20.temp', 'p': 'f32', 'f': [bits.tensor_bits(mb)]})
            metas.append(('get_temperature', m, b, kind, t, []))
    for n in (1, 2, 3, 4):
        mats = []
        g = np.random.RandomState(ctx.seed * 31 + n)
        for _ in range(6 if ctx.quick() else 40):
            mats.append(g.randint(-3, 4, size=(n, n)))
        mats.append(np.eye(n, dtype=int)[::-1].copy())          # permutation (det = +-1)
        mats.append(-2 * np.eye(n, dtype=int))                   # negative entries
        mats.append(np.ones((n, n), dtype=int))                  # singular for n >= 2
        for M in mats:
            t = torch.tensor(M, dtype=torch.float64)
            s = snap(t)
            kind, v = call(u.logabsdet, t)
            reqs.append({'op': 'c20.logabsdet', 'i': [n], 'data': [int(v_) for v_ in M.reshape(-1)]})
            metas.append(('logabsdet', n, M, kind, v, changed(t, s)))
    # (N, D, distance of the query from the samples): near queries, and queries tens of kernel bandwidths away, where every kernel
    # term underflows unless the log-sum-exp is shifted (the log-density there is an ordinary negative number)
    for (N, D, far) in [(1, 1, 0), (2, 1, 0), (3, 2, 0), (5, 3, 0), (4, 2, 0), (5, 2, 1), (8, 1, 1), (3, 3, 1), (6, 2, 2)]:
        for prec in ('f32', 'f64'):
            dt = torch.float32 if prec == 'f32' else torch.float64
            sm = torch.randn(N, D, generator=gen, dtype=torch.float64).to(dt)
            q = torch.randn(D, generator=gen, dtype=torch.float64).to(dt)
            if far:
                q = q + (14.0 if prec == 'f32' else 38.0) * far
            ss, sq = snap(sm), snap(q)
            kind, v = call(u.gaussian_kde_log_eval, sm, q)
            std = N ** (-1 / (D + 4))
            dconst = float(-np.log(N) - (D / 2) * np.log(2 * np.pi) - D * np.log(std))
            reqs.append({'op': 'c20.kde', 'p': prec, 'i': [N, D], 'f': [bits.tensor_bits(sm), bits.tensor_bits(q)],
                         'd': [bits.f64_bits(std), bits.f64_bits(dconst)]})
            metas.append(('kde', (N, D, far), prec, kind, v, changed(sm, ss) + changed(q, sq)))
    for n in (1, 2, 3, 5, 8):
        torch.manual_seed(ctx.seed * 17 + n)
        kind, q = call(u.random_orthogonal, n)
        reqs.append({'op': 'c20.pred', 'v': {'t': 'none'}})          # no model counterpart: the spec QtQ = I is checked directly
        metas.append(('random_orthogonal', n, None, kind, q, []))
    resps = leandriver.call(reqs)
    for meta, resp in zip(metas, resps):
        fn = meta[0]
        if meta[-1]:
            ctx.disagree(fn, {'function': fn, 'args': repr(meta[1:3])}, 'argument changed: %s' % meta[-1], 'unchanged', 'argument modified')
        if fn == 'cbrt':
            _, prec, x, kind, y, _ = meta
            if kind != 'ok':
                ctx.disagree('cbrt', {'function': 'cbrt', 'prec': prec}, kind, 'ok', 'implementation raised'); continue
            my = bits.dec(resp['f'][0], prec)
            xl, yl = x.tolist(), y.tolist()
            for xv, yv, mv in zip(xl, yl, my):
                sgn = 'zero' if xv == 0 else ('neg' if xv < 0 else 'pos')
                ctx.case(key=('cbrt', prec, bits.f64_bits(xv)), branch='cbrt/%s/%s' % (prec, sgn), nontrivial=(xv != 0 and abs(xv) != 1),
                         sample={'function': 'cbrt', 'prec': prec, 'x': xv, 'impl': yv, 'model': mv} if (xv == -27.0 and prec == 'f64') else None)
                if not (abs(yv - mv) <= cbrt_tol(prec, xv, mv) or (math.isnan(yv) and math.isnan(mv))):
                    ctx.disagree('cbrt', {'function': 'cbrt', 'prec': prec, 'x': xv, 'x_bits': bits.f64_bits(xv)}, yv, mv, 'cbrt differs by %.3e' % abs(yv - mv))
        elif fn == 'get_temperature':
            _, m, b, kind, t, _ = meta
            case = {'function': 'get_temperature', 'max_value': m, 'bound': b}
            if kind != 'ok':
                ctx.disagree(fn, case, kind, 'ok', 'implementation raised'); continue
            is_t = isinstance(t, torch.Tensor)
            mv = bits.dec(resp['f'][0], 'f32')[0]
            ctx.case(key=('temp', m, b), branch='get_temperature/' + ('tensor' if is_t else 'one'), nontrivial=is_t,
                     sample=dict(case, impl=(t.tolist() if is_t else t), model=mv) if (m == 100.0 and b is None) else None)
            if int(is_t) != resp['i'][0]:
                ctx.disagree(fn, case, 'tensor' if is_t else repr(t), resp['i'], 'min(t, 1) picked a different branch')
            elif is_t:
                iv = t.reshape(-1).tolist()
                if list(t.shape) != [1] or t.dtype != torch.float32:
                    ctx.disagree(fn, case, [list(t.shape), str(t.dtype)], [[1], 'torch.float32'], 'shape/dtype of the temperature')
                elif not (abs(iv[0] - mv) <= 4e-6 * (1 + abs(mv)) or iv[0] == mv or (math.isnan(iv[0]) and math.isnan(mv))):
                    ctx.disagree(fn, case, iv[0], mv, 'temperature differs')
            elif not (isinstance(t, int) and t == 1):
                ctx.disagree(fn, case, repr(t), 1, 'expected the int 1')
        elif fn == 'logabsdet':
            _, n, M, kind, v, _ = meta
            case = {'function': 'logabsdet', 'n': n, 'matrix': M.tolist()}
            if kind != 'ok':
                ctx.disagree(fn, case, kind, 'ok', 'implementation raised'); continue
            det = resp['i'][0]
            mv = bits.dec(resp['f'][0], 'f64')[0]
            iv = float(v)
            sign = 'zero' if det == 0 else ('neg' if det < 0 else 'pos')
            ctx.case(key=('logabsdet', n, str(M.tolist())), branch='logabsdet/n%d/det-%s' % (n, sign), nontrivial=(abs(det) > 1),
                     sample=dict(case, impl=iv, model=mv, det=det) if (n == 3 and det < -1) else None)
            if det == 0:
                if not (iv == -math.inf or iv < -25):
                    ctx.disagree(fn, case, iv, mv, 'singular matrix: expected -inf (or a rounding-level value)')
            elif not abs(iv - mv) <= 1e-9 * (1 + abs(mv)):
                ctx.disagree(fn, case, iv, mv, 'log|det| differs')
        elif fn == 'kde':
            _, (N, D, far), prec, kind, v, _ = meta
            case = {'function': 'gaussian_kde_log_eval', 'N': N, 'D': D, 'prec': prec, 'far_query': far}
            mv = bits.dec(resp['f'][0], prec)[0]
            if kind != 'ok':
                ctx.case(key=('kde-err', N, D, far, prec), branch='kde/%s/error:%s' % (prec, kind), nontrivial=False)
                ctx.disagree(fn, case, kind, mv, 'implementation raised, model returned a value')
                continue
            iv = float(v)
            ctx.case(key=('kde', N, D, far, prec), branch='kde/%s/%s' % (prec, 'far' if far else 'ok'), nontrivial=True,
                     sample=dict(case, impl=iv, model=mv) if (N, D, far) == (3, 2, 0) else None)
            want = torch.float32 if prec == 'f32' else torch.float64
            tol = (2e-5 if prec == 'f32' else 1e-10) * (1 + abs(mv))
            if not abs(iv - mv) <= tol:
                ctx.disagree(fn, case, iv, mv, 'KDE log-density differs')
            elif v.dtype != want:
                ctx.disagree(fn, case, str(v.dtype), str(want), 'KDE result dtype differs from the inputs')
        elif fn == 'random_orthogonal':
            _, n, _, kind, q, _ = meta
            case = {'function': 'random_orthogonal', 'size': n}
            if kind != 'ok':
                ctx.case(key=('rorth-err', n), branch='random_orthogonal/error:%s' % kind, nontrivial=False)
                ctx.disagree(fn, case, kind, 'orthogonal [n, n] matrix', 'implementation raised'); continue
            ctx.case(key=('rorth', n), branch='random_orthogonal/ok', nontrivial=n > 1)
            err = float((q.double().T @ q.double() - torch.eye(n, dtype=torch.float64)).abs().max()) if tuple(q.shape) == (n, n) else float('inf')
            if not err <= 1e-5:
                ctx.disagree(fn, case, {'shape': list(q.shape), 'max|QtQ - I|': err}, 'orthogonal [n, n] matrix', 'random_orthogonal is not orthogonal')


# ---------------------------------------------------------------------------------------------------------------
# masks and predicates
def correspondence_masks(ctx):
    u = U()
    reqs, metas = [], []
    for f in range(0, 13):
        for kind_, fn, even in (('alternating', u.create_alternating_binary_mask, True), ('alternating', u.create_alternating_binary_mask, False),
                                ('midsplit', u.create_mid_split_binary_mask, None)):
            kind, m = call(fn, f) if even is None else call(fn, f, even)
            reqs.append({'op': 'c20.mask', 's': [kind_], 'i': [f, int(bool(even))]})
            metas.append((kind_, f, even, kind, m))
        reqs.append({'op': 'c20.randmask', 'i': [f]})
        metas.append(('random', f, None, None, None))
    resps = leandriver.call(reqs)
    draws = 25 if ctx.quick() else 400
    for (kind_, f, even, kind, m), resp in zip(metas, resps):
        case = {'function': 'create_%s_binary_mask' % kind_, 'features': f, 'even': even}
        if kind_ != 'random':
            if kind != 'ok':
                ctx.case(key=('err', kind_, f, even), branch='mask/%s/error:%s' % (kind_, kind), nontrivial=False)
                if resp.get('e') != kind:
                    ctx.disagree(kind_, case, kind, resp.get('e') or resp['i'], 'implementation raised')
                continue
            ml = m.tolist()
            ctx.case(key=(kind_, f, even), branch='mask/%s' % kind_, nontrivial=f >= 2,
                     sample=dict(case, impl=ml) if f == 5 else None)
            if resp.get('e') or ml != resp['i'] or m.dtype != torch.uint8:
                ctx.disagree(kind_, case, [ml, str(m.dtype)], resp.get('e') or resp['i'], 'mask differs')
            continue
        for d in range(draws if f > 0 else 1):
            torch.manual_seed(ctx.seed * 100003 + f * 1009 + d)
            kind, m = call(u.create_random_binary_mask, f)
            if kind != 'ok':
                ctx.case(key=('err', 'random', f), branch='mask/random/error:%s' % kind, nontrivial=False)
                if resp.get('e') != kind:
                    ctx.disagree('random', case, kind, resp.get('e') or resp['i'], 'implementation raised')
                continue
            ml = m.tolist()
            ctx.case(key=('random', f, tuple(ml)), branch='mask/random', nontrivial=f >= 2,
                     sample=dict(case, impl=ml, model_count=resp['i']) if (f == 7 and d == 0) else None)
            if resp.get('e'):
                ctx.disagree('random', case, ml, resp['e'], 'model raised'); continue
            if len(ml) != f or any(v not in (0, 1) for v in ml) or sum(ml) != resp['i'][0] or m.dtype != torch.uint8:
                ctx.disagree('random', dict(case, draw=d), {'mask': ml, 'count': sum(ml)}, {'count': resp['i'][0]}, 'random mask: length / entries / count')


def pred_values():
    vals = list(range(-3, 18)) + [31, 32, 33, 63, 64, 65, 1023, 1024, 1025, 2 ** 31, 2 ** 31 - 1, 2 ** 32, 2 ** 53 + 1, 2 ** 63, 2 ** 64, 2 ** 64 - 1,
                                   2 ** 70, 2 ** 70 + 1, 2 ** 70 - 1, -4, -8, -2 ** 40]
    vals += [True, False, 0.0, 1.0, 2.0, -1.0, 0.5, float('inf'), None, '4', '', 'a']
    vals += [np.int64(4), np.float64(4.0), np.bool_(True), torch.tensor(4), [4], (4,), 4 + 0j]
    return vals


PREDS = ['is_bool', 'is_int', 'is_positive_int', 'is_nonnegative_int', 'is_power_of_two']


def correspondence_preds(ctx):
    u = U()
    vals = pred_values()
    reqs = [{'op': 'c20.pred', 'v': pyval(v)} for v in vals]
    resps = leandriver.call(reqs)
    for v, resp in zip(vals, resps):
        out = []
        for p in PREDS:
            kind, r = call(getattr(u, p), v)
            out.append(kind if kind != 'ok' else (int(r) if isinstance(r, bool) else repr(r)))
        case = {'function': 'typechecks', 'value': label(v)}
        ctx.case(key=('pred', label(v)), branch='pred/' + pyval(v)['t'], nontrivial=any(o == 1 for o in out),
                 sample=dict(case, impl=out, model=resp['i']) if v is True else None)
        if out != resp['i']:
            ctx.disagree('typechecks', case, dict(zip(PREDS, out)), dict(zip(PREDS, resp['i'])), 'predicate table differs')


def correspondence(ctx):
    gen = torch.Generator().manual_seed(ctx.seed * 7919 + 20)
    correspondence_structural(ctx)
    correspondence_searchsorted(ctx, gen)
    correspondence_scalar(ctx, gen)
    correspondence_masks(ctx)
    correspondence_preds(ctx)
    logabsdet_scaled(ctx)
    usage_args(ctx)


# ---------------------------------------------------------------------------------------------------------------
# the property's own oracle (independent numpy / plain-Python references), run on the implementation only
def _np_of(x):
    return np.array(x.tolist(), dtype=np.int64).reshape(tuple(x.shape))


def oracle_structural(report, quick=True):
    u = U()
    for shape in all_shapes(lo=1):
        for layout in (('c', 'p') if len(shape) >= 2 else ('c',)):
            x, base = make_tensor(shape, layout, -3)
            ref = _np_of(x)
            for n in (1, 2, 3, 4, 5):
                for fn in ('tile', 'repeat_rows'):
                    if fn == 'repeat_rows' and len(shape) == 0:
                        continue
                    s = snap(x, base)
                    kind, r = call(getattr(u, fn), x, n)
                    case = {'function': fn, 'shape': list(shape), 'layout': layout, 'n': n}
                    if changed(x, s, base) or not np.array_equal(_np_of(x), ref):
                        report('%s modified its argument' % fn, case, {'function': fn, 'symptom': 'argument-modified'})
                    exp = np.repeat(ref.reshape(-1), n) if fn == 'tile' else np.repeat(ref, n, axis=0)
                    if kind != 'ok':
                        report('%s raised %s on a valid call' % (fn, kind), case, {'function': fn, 'symptom': 'raises'})
                    elif tuple(r.shape) != exp.shape or not np.array_equal(_np_of(r), exp):
                        report('%s: copies are not placed consecutively (expected shape %s data %s, got shape %s data %s)'
                               % (fn, list(exp.shape), exp.reshape(-1).tolist()[:12], list(r.shape), r.reshape(-1).tolist()[:12]),
                               case, {'function': fn, 'symptom': 'wrong-result'})
            for bad in (0, -1, 2.0, None):
                for fn in ('tile', 'repeat_rows', 'merge_leading_dims'):
                    if len(shape) == 0 and fn != 'tile':
                        continue
                    kind, r = call(getattr(u, fn), x, bad)
                    if kind != 'TypeError':
                        report('%s(x, %r) did not raise TypeError (%s)' % (fn, bad, kind), {'function': fn, 'shape': list(shape), 'arg': repr(bad)},
                               {'function': fn, 'symptom': 'error-contract'})
            # merge / split are mutually inverse; merge has the documented shape
            for k in range(1, len(shape) + 2):
                s = snap(x, base)
                kind, m = call(u.merge_leading_dims, x, k)
                case = {'function': 'merge_leading_dims', 'shape': list(shape), 'layout': layout, 'num_dims': k}
                if changed(x, s, base):
                    report('merge_leading_dims modified its argument', case, {'function': 'merge_leading_dims', 'symptom': 'argument-modified'})
                if k > len(shape):
                    if kind != 'ValueError':
                        report('merge_leading_dims with num_dims > dim did not raise ValueError (%s)' % kind, case, {'function': 'merge_leading_dims', 'symptom': 'error-contract'})
                    continue
                exp = ref.reshape((-1,) + tuple(shape[k:]))
                if kind != 'ok':
                    report('merge_leading_dims raised %s on a valid call' % kind, case, {'function': 'merge_leading_dims', 'symptom': 'raises'}); continue
                if tuple(m.shape) != exp.shape or not np.array_equal(_np_of(m), exp):
                    report('merge_leading_dims: wrong result shape %s / data' % (list(m.shape),), case, {'function': 'merge_leading_dims', 'symptom': 'wrong-result'}); continue
                sm = snap(m)
                kind2, back = call(u.split_leading_dim, m, list(shape[:k]))
                if changed(m, sm):
                    report('split_leading_dim modified its argument', case, {'function': 'split_leading_dim', 'symptom': 'argument-modified'})
                if kind2 != 'ok' or tuple(back.shape) != tuple(shape) or not np.array_equal(_np_of(back), ref):
                    report('split_leading_dim(merge_leading_dims(x, %d), %s) != x' % (k, list(shape[:k])), case, {'function': 'split_leading_dim', 'symptom': 'not-inverse'})
            if len(shape) >= 1:
                s0 = shape[0]
                for a in range(1, s0 + 1):
                    if s0 % a:
                        continue
                    for sh in ([a, s0 // a], [-1, s0 // a], [a, -1], [1, a, s0 // a]):
                        sh_arg = list(sh)
                        kind, sp = call(u.split_leading_dim, x, sh_arg)
                        case = {'function': 'split_leading_dim', 'shape': list(shape), 'layout': layout, 'split': sh}
                        if sh_arg != list(sh):
                            report('split_leading_dim changed the `shape` list it was given: %s -> %s (a re-used list then carries a stale shape)' % (list(sh), sh_arg),
                                   case, {'function': 'split_leading_dim', 'symptom': 'argument-modified'})
                        full = [v if v != -1 else s0 // max(1, -int(np.prod(sh))) for v in sh]
                        exp = ref.reshape(tuple(full) + tuple(shape[1:]))
                        if kind != 'ok' or tuple(sp.shape) != exp.shape or not np.array_equal(_np_of(sp), exp):
                            report('split_leading_dim: wrong result', case, {'function': 'split_leading_dim', 'symptom': 'wrong-result'}); continue
                        kind2, back = call(u.merge_leading_dims, sp, len(sh))
                        if kind2 != 'ok' or tuple(back.shape) != tuple(shape) or not np.array_equal(_np_of(back), ref):
                            report('merge_leading_dims(split_leading_dim(x, %s), %d) != x' % (sh, len(sh)), case, {'function': 'merge_leading_dims', 'symptom': 'not-inverse'})
            # sum_except_batch: batch dims preserved, each batch entry is the sum of its block
            for k in range(0, len(shape) + 1):
                s = snap(x, base)
                kind, r = call(u.sum_except_batch, x, k)
                case = {'function': 'sum_except_batch', 'shape': list(shape), 'layout': layout, 'num_batch_dims': k}
                if changed(x, s, base):
                    report('sum_except_batch modified its argument', case, {'function': 'sum_except_batch', 'symptom': 'argument-modified'})
                exp = ref.reshape(tuple(shape[:k]) + (-1,)).sum(-1)
                if kind != 'ok' or tuple(r.shape) != tuple(shape[:k]) or not np.array_equal(_np_of(r), exp):
                    report('sum_except_batch(x%s, %d): expected shape %s values %s, got %s %s' % (list(shape), k, list(shape[:k]), exp.reshape(-1).tolist()[:8],
                           (list(r.shape) if kind == 'ok' else kind), (r.reshape(-1).tolist()[:8] if kind == 'ok' else '')),
                           case, {'function': 'sum_except_batch', 'symptom': 'wrong-result'})
            kind, r = call(u.sum_except_batch, x, -1)
            if kind != 'TypeError':
                report('sum_except_batch(x, -1) did not raise TypeError', {'function': 'sum_except_batch', 'shape': list(shape)}, {'function': 'sum_except_batch', 'symptom': 'error-contract'})


def oracle_batch_lost(report):
    """num_batch_dims == ndim: every dimension is a batch dimension, nothing is to be summed"""
    u = U()
    for shape in [(3,), (2, 3), (2, 1, 2)]:
        x, base = make_tensor(shape, 'c', 1)
        k = len(shape)
        kind, r = call(u.sum_except_batch, x, k)
        if kind != 'ok' or tuple(r.shape) != tuple(shape) or not torch.equal(r, x):
            report('sum_except_batch(x%s, num_batch_dims=%d) sums the batch away: got shape %s value %s, expected x itself'
                   % (list(shape), k, list(r.shape) if kind == 'ok' else kind, r.reshape(-1).tolist() if kind == 'ok' else ''),
                   {'function': 'sum_except_batch', 'shape': list(shape), 'num_batch_dims': k},
                   {'function': 'sum_except_batch', 'symptom': 'batch-lost', 'num_batch_dims': 'ndim'})


def oracle_empty_trailing(report):
    """tensors with an empty trailing block: merging one leading dim is a no-op, repeating rows gives [s0*n, 0]"""
    u = U()
    x = torch.zeros(2, 0, dtype=torch.int64)
    kind, r = call(u.merge_leading_dims, x, 1)
    if kind != 'ok' or tuple(r.shape) != (2, 0):
        report('merge_leading_dims(x[2,0], 1) raises %s (reshape(-1, 0) cannot infer the leading size); expected x itself' % kind,
               {'function': 'merge_leading_dims', 'shape': [2, 0], 'num_dims': 1},
               {'function': 'merge_leading_dims', 'symptom': 'empty-trailing-dims-raise'})
    kind, r = call(u.repeat_rows, x, 3)
    if kind != 'ok' or tuple(r.shape) != (6, 0):
        report('repeat_rows(x[2,0], 3) raises %s; expected an empty tensor of shape [6, 0]' % kind,
               {'function': 'repeat_rows', 'shape': [2, 0], 'num_reps': 3},
               {'function': 'repeat_rows', 'symptom': 'empty-trailing-dims-raise'})


def oracle_fixed_witnesses(report):
    """the witnesses of the fixed findings F12 (searchsorted mutated its argument), F9 (eps absorbed in float32) and
    F14 (random_orthogonal could not be called); match dicts as listed in known_findings.json"""
    u = U()
    bins = torch.tensor([0.0, 50.0, 100.0], dtype=torch.float32)
    keep = bins.clone()
    v0 = bins._version
    kind, r = call(u.searchsorted, bins, torch.tensor([100.0], dtype=torch.float32))
    if not torch.equal(bins, keep) or bins._version != v0:
        report('searchsorted modified its bin_locations argument: %s -> %s' % (keep.tolist(), bins.tolist()),
               {'function': 'searchsorted', 'bin_locations': keep.tolist()}, {'function': 'searchsorted', 'symptom': 'mutates-argument'})
    if kind != 'ok' or r.tolist() != [1]:
        report('searchsorted(float32 knots [0, 50, 100], input 100.) = %s, expected bin 1 (last bin closed)' % (r.tolist() if kind == 'ok' else kind),
               {'function': 'searchsorted', 'bin_locations': keep.tolist(), 'input': 100.0, 'dtype': 'float32'},
               {'function': 'searchsorted', 'symptom': 'index-out-of-range'})
    torch.manual_seed(0)
    kind, q = call(u.random_orthogonal, 3)
    if kind != 'ok':
        report('random_orthogonal(3) raises %s' % kind, {'function': 'random_orthogonal', 'size': 3}, {'function': 'random_orthogonal', 'symptom': 'raises'})
    elif tuple(q.shape) != (3, 3) or float((q.T @ q - torch.eye(3)).abs().max()) > 1e-5:
        report('random_orthogonal(3) is not an orthogonal [3, 3] matrix', {'function': 'random_orthogonal', 'size': 3},
               {'function': 'random_orthogonal', 'symptom': 'not-orthogonal'})


def oracle_searchsorted(report, seed=0, quick=True):
    u = U()
    gen = torch.Generator().manual_seed(seed + 77)

    class C:  # minimal ctx stand-in for search_configs
        pass
    for (prec, K, off, sc, eps, shared) in search_configs(None):
        kn, ok = make_knots(prec, K, off, sc, 3, gen)
        if not ok or shared:
            continue
        cols, kinds = search_atoms(kn, gen)
        for c, kd in zip(cols, kinds):
            if kd in ('below', 'above', 'last+eps', 'last+'):
                continue
            c = torch.min(torch.max(c, kn[:, 0]), kn[:, -1])      # in-range inputs only
            bins = kn.clone()
            sb = snap(bins)
            kind, r = call(u.searchsorted, bins, c) if eps is None else call(u.searchsorted, bins, c, eps)
            case = {'function': 'searchsorted', 'prec': prec, 'K': K, 'offset': off, 'scale': sc, 'eps': eps, 'atom': kd,
                    'knots_bits': bits.tensor_bits(kn), 'inputs_bits': bits.tensor_bits(c)}
            ch = changed(bins, sb)
            if ch or not torch.equal(bins, kn):
                report('searchsorted modified its bin_locations argument (%s); last edge before %r after %r' % (ch, kn[0, -1].item(), bins[0, -1].item()),
                       case, {'function': 'searchsorted', 'symptom': 'argument-modified'})
            if kind != 'ok':
                report('searchsorted raised %s' % kind, case, {'function': 'searchsorted', 'symptom': 'raises'}); continue
            knl, cl, rl = kn.tolist(), c.tolist(), r.tolist()
            for row in range(len(cl)):
                xv, i = cl[row], rl[row]
                good = (0 <= i < K) and knl[row][i] <= xv and (xv < knl[row][i + 1] or (i == K - 1 and xv == knl[row][K]))
                if not good:
                    report('searchsorted: x=%r with knots %r returned bin %r, which does not contain x (half-open bins, last closed)' % (xv, knl[row], i),
                           dict(case, row=row), {'function': 'searchsorted', 'symptom': 'wrong-bin'})
                    break


def oracle_scalar(report, seed=0):
    u = U()
    gen = torch.Generator().manual_seed(seed + 5)
    for prec in ('f64', 'f32'):
        x = cbrt_atoms(prec, gen, 60)
        s = snap(x)
        kind, y = call(u.cbrt, x)
        if changed(x, s):
            report('cbrt modified its argument', {'function': 'cbrt'}, {'function': 'cbrt', 'symptom': 'argument-modified'})
        if kind != 'ok':
            report('cbrt raised', {'function': 'cbrt', 'prec': prec}, {'function': 'cbrt', 'symptom': 'raises'}); continue
        ref = np.cbrt(np.array(x.tolist(), dtype=np.float64))
        for xv, yv, rv in zip(x.tolist(), y.tolist(), ref.tolist()):
            if not abs(yv - rv) <= cbrt_tol(prec, xv, rv) * 4 + (0 if prec == 'f64' else 1e-7 * abs(rv)):
                report('cbrt(%r) = %r, expected %r' % (xv, yv, rv), {'function': 'cbrt', 'prec': prec, 'x': xv, 'x_bits': bits.f64_bits(xv)},
                       {'function': 'cbrt', 'symptom': 'wrong-value'})
                break
    for m in [7.5, 10.0, 100.0, 1e4, -3.0, 0.5, 5.0]:
        for b in [None, 0.5, 0.9]:
            kind, t = call(u.get_temperature, m) if b is None else call(u.get_temperature, m, b)
            bb = 1 - 1e-3 if b is None else b
            case = {'function': 'get_temperature', 'max_value': m, 'bound': b}
            if kind != 'ok':
                report('get_temperature raised %s' % kind, case, {'function': 'get_temperature', 'symptom': 'raises'}); continue
            tv = float(t)
            exact = (math.log(bb) - math.log1p(-bb)) / m
            if exact <= 1 - 1e-4:
                if not abs(1 / (1 + math.exp(-tv * m)) - bb) <= 2e-5:
                    report('get_temperature(%r, %r) = %r: sigmoid(T*max) = %r != bound' % (m, b, tv, 1 / (1 + math.exp(-tv * m))), case,
                           {'function': 'get_temperature', 'symptom': 'wrong-value'})
            elif exact >= 1 + 1e-4 and tv != 1:
                report('get_temperature(%r, %r) = %r, expected 1 (temperature above 1)' % (m, b, tv), case, {'function': 'get_temperature', 'symptom': 'not-clamped'})
    g = np.random.RandomState(seed + 3)
    for n in (1, 2, 3, 4):
        for _ in range(10):
            M = g.randint(-3, 4, size=(n, n)).astype(np.float64)
            t = torch.tensor(M)
            s = snap(t)
            kind, v = call(u.logabsdet, t)
            case = {'function': 'logabsdet', 'matrix': M.tolist()}
            if changed(t, s):
                report('logabsdet modified its argument', case, {'function': 'logabsdet', 'symptom': 'argument-modified'})
            d = round(float(np.linalg.det(M)))
            if kind != 'ok':
                report('logabsdet raised', case, {'function': 'logabsdet', 'symptom': 'raises'}); continue
            if d != 0 and not abs(float(v) - math.log(abs(d))) <= 1e-9 * (1 + abs(math.log(abs(d)))):
                report('logabsdet = %r, log|det| = %r (det = %d)' % (float(v), math.log(abs(d)), d), case, {'function': 'logabsdet', 'symptom': 'wrong-value'})
    for (N, D, far) in [(1, 1, 0.0), (3, 2, 0.0), (5, 3, 0.0), (5, 2, 14.0), (8, 1, 20.0), (200, 2, 10.0)]:
        sm = torch.randn(N, D, generator=gen)
        q = torch.randn(D, generator=gen) + far
        kind, v = call(u.gaussian_kde_log_eval, sm, q)
        case = {'function': 'gaussian_kde_log_eval', 'N': N, 'D': D, 'dtype': 'float32', 'samples': sm.reshape(-1).tolist()[:16], 'query': q.tolist()}
        std = N ** (-1 / (D + 4))
        a = (q.double() - sm.double()).numpy()
        comp = -0.5 * (a * a).sum(-1) / std ** 2 - math.log(N) - D / 2 * math.log(2 * math.pi) - D * math.log(std)
        ref = float(np.log(np.exp(comp - comp.max()).sum()) + comp.max())
        if kind != 'ok' or not abs(float(v) - ref) <= 1e-4 * (1 + abs(ref)):
            report('gaussian_kde_log_eval = %r, direct formula %r' % (float(v) if kind == 'ok' else kind, ref), case,
                   {'function': 'gaussian_kde_log_eval', 'symptom': 'wrong-value'})


def oracle_kde_dtype(report):
    u = U()
    sm = torch.tensor([[0.0, 1.0], [1.0, -1.0], [0.5, 0.25]], dtype=torch.float64)
    q = torch.tensor([0.25, 0.5], dtype=torch.float64)
    kind, v = call(u.gaussian_kde_log_eval, sm, q)
    if kind != 'ok':
        report('gaussian_kde_log_eval raises %s for float64 samples/query (torch.eye(D) is built in the default dtype)' % kind,
               {'function': 'gaussian_kde_log_eval', 'samples': sm.tolist(), 'query': q.tolist(), 'dtype': 'float64'},
               {'function': 'gaussian_kde_log_eval', 'symptom': 'dtype-error', 'dtype': 'float64'})


def oracle_masks(report, seed=0):
    u = U()
    for f in range(1, 13):
        for even in (True, False):
            kind, m = call(u.create_alternating_binary_mask, f, even)
            exp = [1 if (i % 2 == 0) == even else 0 for i in range(f)]
            if kind != 'ok' or m.tolist() != exp or sum(m.tolist()) != ((f + 1) // 2 if even else f // 2):
                report('create_alternating_binary_mask(%d, even=%r) = %s, expected %s' % (f, even, m.tolist() if kind == 'ok' else kind, exp),
                       {'function': 'create_alternating_binary_mask', 'features': f, 'even': even}, {'function': 'create_alternating_binary_mask', 'symptom': 'wrong-pattern'})
        kind, m = call(u.create_mid_split_binary_mask, f)
        exp = [1] * ((f + 1) // 2) + [0] * (f // 2)
        if kind != 'ok' or m.tolist() != exp:
            report('create_mid_split_binary_mask(%d) = %s, expected %s' % (f, m.tolist() if kind == 'ok' else kind, exp),
                   {'function': 'create_mid_split_binary_mask', 'features': f}, {'function': 'create_mid_split_binary_mask', 'symptom': 'wrong-pattern'})
        for d in range(20):
            torch.manual_seed(seed * 13 + f * 101 + d)
            kind, m = call(u.create_random_binary_mask, f)
            ml = m.tolist() if kind == 'ok' else None
            if kind != 'ok' or len(ml) != f or any(v not in (0, 1) for v in ml) or sum(ml) != (f + 1) // 2:
                report('create_random_binary_mask(%d) = %s: expected %d ones' % (f, ml if kind == 'ok' else kind, (f + 1) // 2),
                       {'function': 'create_random_binary_mask', 'features': f, 'torch_seed': seed * 13 + f * 101 + d},
                       {'function': 'create_random_binary_mask', 'symptom': 'wrong-count'})
                break


def oracle_preds(report):
    u = U()
    for v in pred_values():
        isint = type(v) in (int, bool)
        exp = {'is_bool': type(v) is bool, 'is_int': isint, 'is_positive_int': isint and v > 0, 'is_nonnegative_int': isint and v >= 0,
               'is_power_of_two': isint and v > 0 and bin(int(v)).count('1') == 1}
        for p in PREDS:
            kind, r = call(getattr(u, p), v)
            if kind != 'ok' or bool(r) != exp[p] or not isinstance(r, bool):
                report('%s(%s) = %r, expected %r' % (p, label(v), r if kind == 'ok' else kind, exp[p]), {'function': p, 'value': label(v)},
                       {'function': p, 'symptom': 'wrong-answer'})


ORACLES = [('structural', lambda rep, ctx: oracle_structural(rep, ctx.quick())),
           ('searchsorted', lambda rep, ctx: oracle_searchsorted(rep, ctx.seed, ctx.quick())),
           ('scalar', lambda rep, ctx: oracle_scalar(rep, ctx.seed)),
           ('masks', lambda rep, ctx: oracle_masks(rep, ctx.seed)),
           ('preds', lambda rep, ctx: oracle_preds(rep)),
           # witnesses of the findings that were fixed in /repo (F9, F12, F14, G1, G2, G3a, G3b), with their specific match dicts
           ('fixed_witnesses', lambda rep, ctx: oracle_fixed_witnesses(rep)),
           ('batch_lost', lambda rep, ctx: oracle_batch_lost(rep)),
           ('empty_trailing', lambda rep, ctx: oracle_empty_trailing(rep)),
           ('kde_dtype', lambda rep, ctx: oracle_kde_dtype(rep)),
           ('logabsdet_scaled', lambda rep, ctx: logabsdet_scaled(ctx, rep)),
           ('usage_args', lambda rep, ctx: usage_args(ctx, rep))]


def _collect(ctx, names=None):
    if names is None and getattr(ctx, '_c20_found', None) is not None:
        return ctx._c20_found                      # the implementation does not change within one run
    found = []
    per_fn = {}

    def report(what, case, match):
        key = (match.get('function'), match.get('symptom'))
        per_fn[key] = per_fn.get(key, 0) + 1
        if per_fn[key] <= 3:                       # a few witnesses per (function, symptom) are enough
            found.append({'what': what, 'case': case, 'match': match})
    for name, fn in ORACLES:
        if names is not None and name not in names:
            continue
        try:
            fn(report, ctx)
        except Exception as e:  # an oracle crashing on the implementation is itself reported
            found.append({'what': 'oracle %s raised %r' % (name, e), 'case': {'oracle': name}, 'match': {'function': name, 'symptom': 'oracle-exception'}})
    if names is None:
        ctx._c20_found = found
    return found


def logabsdet_scaled(ctx, report=None):
    """logabsdet must be log|det| also where det itself over/underflows (spec: sum of log|diag| for triangular matrices)"""
    from nflows.utils import torchutils as u
    g = torch.Generator().manual_seed(ctx.seed + 77)
    for dt in (torch.float32, torch.float64):
        for (n, scale) in ((30, 0.01), (40, -50.0), (2, 1e-30), (2, 1e25), (128, 0.04), (100, 2.5)):
            if dt == torch.float64 and abs(scale) in (1e-30, 1e25):
                n = 12
            M = torch.tril(torch.randn(n, n, generator=g, dtype=torch.float64)) * 0.1
            d = scale * (1.0 + 0.1 * torch.rand(n, generator=g, dtype=torch.float64))
            M[range(n), range(n)] = d
            want = d.abs().log().sum().item()
            try:
                got = float(u.logabsdet(M.to(dt)))
            except Exception as e:
                got = float('nan')
            ok = math.isfinite(got) and abs(got - want) <= (1e-3 if dt == torch.float32 else 1e-9) * (1 + abs(want))
            case = {'function': 'logabsdet', 'n': n, 'diag_scale': scale, 'dtype': str(dt)}
            if report is None:
                ctx.case(key=('logabsdet-scaled', n, scale, str(dt)), branch='logabsdet/scaled', nontrivial=True)
                if not ok:
                    ctx.disagree('c20.logabsdet', case, got, want, 'logabsdet differs from sum(log|diag|) of a triangular matrix')
            elif not ok:
                report('logabsdet = %r, log|det| = %r' % (got, want), case, {'function': 'logabsdet', 'symptom': 'wrong-value-scaled'})


def usage_args(ctx, report=None):
    """how callers use the helpers: (a) a result kept and edited in place by the caller (a mask flipped for the next layer) must not
    change what the next call with the same arguments returns; (b) the shape argument of split_leading_dim given as any iterable
    (list, tuple, torch.Size, numpy array, range-free generator / iterator / map — consumed once) gives the result of the list"""
    u = U()

    def out(what, case, match, impl=None, want=None):
        if report is None:
            ctx.disagree(match['function'], case, impl, want, what)
        else:
            report(what, case, match)
    # (a) freshness of results
    fresh = [('create_alternating_binary_mask', lambda: u.create_alternating_binary_mask(5, True), [1, 0, 1, 0, 1]),
             ('create_alternating_binary_mask', lambda: u.create_alternating_binary_mask(4, False), [0, 1, 0, 1]),
             ('create_mid_split_binary_mask', lambda: u.create_mid_split_binary_mask(5), [1, 1, 1, 0, 0]),
             ('tile', lambda: u.tile(torch.tensor([1.0, 2.0]), 2), [1.0, 1.0, 2.0, 2.0]),
             ('repeat_rows', lambda: u.repeat_rows(torch.tensor([[1.0], [2.0]]), 2), [1.0, 1.0, 2.0, 2.0]),
             ('tril_indices', lambda: u.tril_indices(3, -1), None), ('triu_indices', lambda: u.triu_indices(3, 1), None)]
    for name, f, want in fresh:
        if not hasattr(u, name):
            continue
        try:
            a = f()
            first = a.clone()
            if torch.is_tensor(a) and a.numel():
                a.mul_(-1).add_(1)                     # the caller flips / edits its copy in place
            b = f()
            ok = torch.equal(b, first) and (want is None or b.reshape(-1).tolist() == want)
            got = b.reshape(-1).tolist()
        except Exception as e:
            ok, got = False, 'raised %s' % type(e).__name__
        case = {'function': name, 'history': ['r = %s(...)' % name, 'r.mul_(-1).add_(1)', '%s(...) again' % name], 'second_result': got, 'expected': want}
        if report is None:
            ctx.case(key=('usage-fresh', name, str(want)), branch='usage/fresh-result', nontrivial=True)
        if not ok:
            out('%s: after the caller edited an earlier result in place, the same call returns %s (expected %s)' % (name, got, want if want is not None else 'the first result'),
                case, {'function': name, 'symptom': 'result-aliased'}, got, want)
    # (b) the shape argument as any iterable
    x = torch.arange(24.0).reshape(6, 4)
    x1 = torch.arange(5.0).reshape(1, 5)
    kinds = {'list': lambda sh: list(sh), 'tuple': lambda sh: tuple(sh), 'torch.Size': lambda sh: torch.Size(sh), 'numpy': lambda sh: np.array(sh),
             'generator': lambda sh: (v for v in sh), 'iterator': lambda sh: iter(list(sh)), 'map': lambda sh: map(int, sh)}
    for xx, sh in ((x, [2, 3]), (x, [3, -1]), (x, [-1, 2]), (x, [6]), (x, [-1]), (x1, [1, 1]), (x, [2, 2])):
        try:
            ref = u.split_leading_dim(xx, list(sh)); refk = 'ok'
        except Exception as e:
            ref, refk = None, errkind(e)
        for kn, mk in kinds.items():
            if kn == 'torch.Size' and any(v < 0 for v in sh):
                continue
            try:
                r = u.split_leading_dim(xx, mk(sh)); k = 'ok'
            except Exception as e:
                r, k = None, errkind(e)
            ok = (k == refk) and (k != 'ok' or (tuple(r.shape) == tuple(ref.shape) and torch.equal(r, ref)))
            case = {'function': 'split_leading_dim', 'x_shape': list(xx.shape), 'shape_argument': sh, 'given_as': kn,
                    'result': list(r.shape) if k == 'ok' else k, 'expected': list(ref.shape) if refk == 'ok' else refk}
            if report is None:
                ctx.case(key=('usage-iterable', tuple(xx.shape), tuple(sh), kn), branch='usage/shape-iterable/' + kn, nontrivial=True)
            if not ok:
                out('split_leading_dim(x%s, shape %s given as %s) -> %s, with a list -> %s' % (list(xx.shape), sh, kn, case['result'], case['expected']),
                    case, {'function': 'split_leading_dim', 'symptom': 'shape-iterable'}, case['result'], case['expected'])


def search(ctx):
    for f in _collect(ctx):
        ctx.fail(f['what'], f['case'], match=f['match'])


def replay_finding(ctx, entry):
    m = entry.get('match', {})
    for f in _collect(ctx):
        if all(f['match'].get(k) == v for k, v in m.items()):
            return True
    return False


def replay(ctx, payload):
    f = payload.get('failing') or {}
    m = f.get('match', {})
    if not m:
        return None
    hits = [g for g in _collect(ctx) if all(g['match'].get(k) == v for k, v in m.items())]
    return bool(hits)


def generate_lean(ctx):
    """no translator for C20; this hook only makes sure the property module (not part of the default lake target) is
    compiled from the files on disk before the audit elaborates it"""
    import subprocess
    p = subprocess.run(['lake', 'build', 'NflowsModel.Properties.C20'], cwd=leandriver.LEAN_DIR, stdout=subprocess.PIPE, stderr=subprocess.STDOUT, timeout=3000)
    if p.returncode != 0:
        raise RuntimeError('Properties/C20.lean does not build: ' + p.stdout.decode(errors='replace')[-1500:])
