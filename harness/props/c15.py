"""C15 — saving and reloading a model reproduces the same function.

Theorems: Properties.C15 — THIN theorems about the state-dict inventory model (Core/Thin.lean, Core/Inventory.lean):
`reload_sound`, `afterLoad_entry`, `reload_same_function` (function-determining entries only), `reload_after_history`
(every history of updates of persisted entries before saving), exactness of the check (`reloadSafeU_exact`).

Translator (the tie): `generate_lean` walks, on every run, the module tree of every registry configuration built from the
RUNNING implementation under 5 seeds (parameters, buffers with `_non_persistent_buffers_set`, every other tensor / ndarray /
number / bool / string / callable in each submodule's `__dict__`), marks an entry constructor-determined iff its value is
bitwise equal across the 5 instances, decides "function-determining" for the suspicious entries (seed-dependent and not
persisted) by swapping the value between two instances and comparing outputs, and writes one
`theorem inv_<k>_reloadSafe : reloadSafeU inv used = true := by decide` per configuration into
lean/NflowsModel/Generated/C15.lean (namespace Properties.C15).  Correspondence: for every configuration x history before saving
(fresh, 2 training steps, data-dependent init / running statistics, both, eval-mode calls with the weight cache filled) x seed pair
from VERIF_SEED: build A, apply the history, save through torch.save/torch.load, build B under another seed, load; (1) the driver's
`afterLoad inv (applyHist saved hist) fresh` is compared entry by entry with the real instance B after `load_state_dict`;
(2) forward / inverse / log_prob / transform_to_noise / seeded sample in eval mode and a training-mode forward are compared BITWISE.
"""
import os, io, json, copy
import torch

from harness.common import leandriver, zoo, inventory as INV, storetrace as ST

PROPERTY = 'C15'
LEVEL = 'proof'
REQUIRED_THEOREMS = ['Properties.C15.reload_sound', 'Properties.C15.afterLoad_entry', 'Properties.C15.reload_same_function',
                     'Properties.C15.reload_after_history', 'Properties.C15.reloadSafeU_all_used', 'Properties.C15.reloadSafeU_exact']
RULE = ("cases = (configuration from harness/common/zoo.py, history before saving in {fresh, train2, ddinit, ddinit+train2, f64+ddinit+train2 (both models converted with .double() first), eval_calls}, "
        "seed pair (A, B) derived from VERIF_SEED); the inventory (kinds, constructor-determined flags from 5 seeds, used flags) is "
        "extracted from the running code; the Lean driver's afterLoad/applyHist prediction is compared entry by entry with the real "
        "load_state_dict, and the functions of the saved and of the reloaded instance are compared bitwise.  A case is distinct by "
        "(configuration, history) and non-trivial when instance B differed from A before loading (outputs differ bitwise) or the "
        "history moved at least one entry")
EXPLANATION = ("The theorems are about the inventory model (entries with a kind, a constructor-determined flag and a used flag; load_state_dict = "
               "afterLoad), NOT about the Python: they prove that an inventory passing `reloadSafeU` reloads to the same evaluation for "
               "every eval, every pair of instances built from the same constructor arguments and every history of updates of persisted "
               "entries.  The premise (`reloadSafeU inv used = true`) is established per run from inventories of the running code: by "
               "`decide` for every registry configuration (Generated/C15.lean); `afterLoad` is executed by the driver against the real "
               "load_state_dict and a bitwise behavioural differential is the ground truth.  Classes/configurations outside the "
               "registry are not covered (DESIGN section 8 item 3).")
ASSUMPTIONS = ["constructor-determined := bitwise equal across instances built under 5 different seeds with the same arguments",
               "function-determining (used) is decided by value swapping only for entries that are seed-dependent and not persisted; "
               "all other entries count as used",
               "the `training` flag and the linear transforms' `using_cache` flag are mode switches of the comparison (both instances are put "
               "into the same mode), not part of the saved function",
               "load_state_dict with default arguments (strict, in-place copy); save through torch.save / torch.load(weights_only=True)",
               "CPU, float32, batch 5; dropout probability 0 in every configuration"]
TRUSTED_EXTRA = ["the module-tree walker harness/common/inventory.py (translator for Generated/C15.lean)"]

GEN_PATH = os.path.join(os.path.dirname(os.path.dirname(os.path.dirname(os.path.abspath(__file__)))),
                        'lean', 'NflowsModel', 'Generated', 'C15.lean')
CTOR_SEEDS = [11, 23, 37, 41, 53]
_STATE = {}


# ---- evaluating "the function" of an instance -----------------------------------------------------------------
def fixed_inputs(cfg, k=0):
    gen = torch.Generator().manual_seed(9000 + k)
    atom = cfg.get_atoms('eval')[-1].split('+')[0]
    if isinstance(cfg.domain, tuple):
        atom = 'mixed'
    return cfg.gen(atom, gen), cfg.gen_ctx(gen)


def _dtype_of(m):
    for t in list(m.parameters()) + list(m.buffers()):
        if t.is_floating_point():
            return t.dtype
    return torch.float32


def _cast(m, t):
    return t if t is None or not t.is_floating_point() else t.to(_dtype_of(m))


def evaluate(m, cfg, train_forward=True, toggle=True):
    """-> dict call -> bytes | ('raised', type).  eval-mode calls first, one training-mode forward last.
    toggle=False: the model is used exactly in the state it is in (no eval()/train() call: those may refresh per-instance caches)"""
    out = {}
    x, c = fixed_inputs(cfg)
    x, c = _cast(m, x), _cast(m, c)
    was = m.training
    if toggle:
        m.eval()

    def rec(name, fn):
        try:
            with torch.no_grad():
                out[name] = b'|'.join(ST.tensor_bytes(t) for t in ST.tensors_in(fn()))
        except Exception as e:
            out[name] = ('raised', type(e).__name__)

    if cfg.kind == 'transform':
        rec('forward', lambda: m(x, context=c))
        y = None
        try:
            with torch.no_grad():
                y = m(x, context=c)[0].detach().clone()
        except Exception:
            pass
        if y is not None:
            rec('inverse', lambda: m.inverse(y, context=c))
    else:
        rec('log_prob', lambda: m.log_prob(x, context=c))
        if 'sample' in cfg.get_calls():
            def smp():
                torch.manual_seed(4242)
                return m.sample(3, context=c)
            rec('sample', smp)
        if cfg.kind == 'flow':
            rec('transform_to_noise', lambda: m.transform_to_noise(x, context=c))
    if train_forward:
        m2 = _copy(m)
        m2.train()
        if cfg.kind == 'transform':
            fn = lambda: m2(x, context=c)
        else:
            fn = lambda: m2.log_prob(x, context=c)
        try:
            with torch.no_grad():
                out['forward(train)'] = b'|'.join(ST.tensor_bytes(t) for t in ST.tensors_in(fn()))
        except Exception as e:
            out['forward(train)'] = ('raised', type(e).__name__)
    if toggle:
        m.train(was)
    return out


def _copy(m):
    for sub in m.modules():
        if hasattr(sub, 'cache') and hasattr(sub.cache, 'invalidate'):
            sub.cache.invalidate()
    return copy.deepcopy(m)


HISTORIES = ['fresh', 'train2', 'ddinit', 'ddinit+train2', 'f64+ddinit+train2', 'eval_calls']


def histories_for(cfg):
    hs = ['fresh', 'train2']
    if cfg.batch_stats:
        # 'f64' = both models converted with .double() right after construction (Module._apply replaces parameter and buffer tensors)
        hs += ['ddinit', 'ddinit+train2', 'f64+ddinit+train2']
    if cfg.cache:
        hs += ['eval_calls']
    return hs


def apply_history(m, cfg, hist, seed):
    gen = torch.Generator().manual_seed(seed)
    atom = cfg.get_atoms('train')[0].split('+')[0]
    if isinstance(cfg.domain, tuple):
        atom = 'mixed'

    def loss_of(x, c):
        if cfg.kind == 'transform':
            y, ld = m(x, context=c)
            return (y ** 2).mean() - ld.mean()
        return -m.log_prob(x, context=c).mean()

    _gen, _gen_ctx = cfg.gen, cfg.gen_ctx

    class _Cfg:           # inputs in the dtype of the model
        @staticmethod
        def gen(a, g):
            return _cast(m, _gen(a, g))

        @staticmethod
        def gen_ctx(g):
            return _cast(m, _gen_ctx(g))
    cfg_kind = cfg.kind
    cfg = _Cfg
    cfg.kind = cfg_kind
    for step in hist.split('+'):
        if step in ('fresh', 'f64'):
            continue
        if step == 'ddinit':
            m.train()
            with torch.no_grad():
                loss_of(cfg.gen(atom, gen), cfg.gen_ctx(gen))
        elif step == 'train2':
            m.train()
            params = [p for p in m.parameters() if p.requires_grad]
            if not params:
                continue
            opt = torch.optim.SGD(params, lr=0.05)
            for _ in range(2):
                opt.zero_grad()
                l = loss_of(cfg.gen(atom, gen), cfg.gen_ctx(gen))
                if l.requires_grad:
                    l.backward()
                    opt.step()
            opt.zero_grad(set_to_none=True)
        elif step == 'eval_calls':
            m.eval()
            for sub in m.modules():
                if hasattr(sub, 'use_cache'):
                    sub.use_cache(True)
            with torch.no_grad():
                x, c = cfg.gen(atom, gen), cfg.gen_ctx(gen)
                y, _ = m(x, context=c)
                m.inverse(y, context=c)


def mirror_modes(A, B):
    """put B into the same user-set modes as A (`use_cache`); train/eval is set by `evaluate`"""
    for sa, sb in zip(A.modules(), B.modules()):
        if hasattr(sa, 'using_cache') and hasattr(sb, 'use_cache'):
            sb.use_cache(bool(sa.using_cache))


def save_load_roundtrip(sd):
    buf = io.BytesIO()
    torch.save(sd, buf)
    buf.seek(0)
    return torch.load(buf, weights_only=True)


# ---- translator ------------------------------------------------------------------------------------------------
def _owners(module):
    """path -> (owner, attr, kind) for swapping"""
    return {e.path: e for e in INV.walk(module)}


def _swap_changes_outputs(cfg, a, b, path):
    """does replacing the attribute that holds `path` in instance a by b's value change a's outputs?"""
    ea, eb = _owners(a).get(path), _owners(b).get(path)
    if ea is None or eb is None or ea.owner is None or ea.attr is None:
        return True
    base = evaluate(a, cfg)
    try:
        if ea.kind == INV.BUF_NP:
            old = ea.owner._buffers[ea.attr]
            ea.owner._buffers[ea.attr] = eb.owner._buffers[eb.attr].clone()
            try:
                new = evaluate(a, cfg)
            finally:
                ea.owner._buffers[ea.attr] = old
        else:
            old = vars(ea.owner)[ea.attr]
            vars(ea.owner)[ea.attr] = copy.deepcopy(vars(eb.owner)[eb.attr])
            try:
                new = evaluate(a, cfg)
            finally:
                vars(ea.owner)[ea.attr] = old
    except Exception:
        return True
    return new != base


def extract_inventory(cfg):
    """inventory of one configuration from 5 instances of the running code"""
    insts = [zoo.build(cfg, s) for s in CTOR_SEEDS]
    walks = [INV.walk(m) for m in insts]
    paths = []
    seen = set()
    for w in walks:
        for e in w:
            if e.path not in seen:
                seen.add(e.path)
                paths.append(e.path)
    by = [{e.path: e for e in w} for w in walks]
    entries = []
    for p in paths:
        es = [b.get(p) for b in by]
        present = [e for e in es if e is not None]
        kind = present[0].kind
        if any(e.kind != kind for e in present):
            kind = max(e.kind for e in present if e.kind != INV.ALIAS) if any(e.kind != INV.ALIAS for e in present) else INV.ALIAS
        ctor = len(present) == len(es) and len({e.digest for e in present}) == 1
        entries.append({'path': p, 'kind': kind, 'ctor': ctor, 'used': True})
    for ent in entries:
        if ent['kind'] in (INV.BUF_NP, INV.PLAIN) and not ent['ctor']:
            ent['used'] = _swap_changes_outputs(cfg, insts[0], insts[1], ent['path'])
    return entries


def _rle(items, fmt):
    out, i = [], 0
    while i < len(items):
        j = i
        while j < len(items) and items[j] == items[i]:
            j += 1
        n = j - i
        out.append(('List.replicate %d %s' % (n, fmt(items[i]))) if n > 2 else '[' + ', '.join(fmt(items[i]) for _ in range(n)) + ']')
        i = j
    return ' ++ '.join(out) if out else '[]'


def lean_inventory(entries):
    kn = INV.KIND_NAMES
    inv = _rle([(e['kind'], e['ctor']) for e in entries], lambda kc: '(⟨.%s, %s⟩ : Entry)' % (kn[kc[0]], 'true' if kc[1] else 'false'))
    if all(e['used'] for e in entries):
        used = '[]'
    else:
        used = _rle([e['used'] for e in entries], lambda u: 'true' if u else 'false')
    return inv, used


def safe_py(entries):
    return all((not e['used']) or e['kind'] in (INV.PARAM, INV.BUF_P, INV.ALIAS) or e['ctor'] for e in entries)


def registry_for(ctx_or_tier):
    tier = ctx_or_tier if isinstance(ctx_or_tier, str) else ('quick' if ctx_or_tier.quick() else 'thorough')
    return [c for c in zoo.registry() if c.kind != 'func' and (tier == 'thorough' or c.tier == 'quick')]


def generate_lean(ctx):
    torch.set_num_threads(1)
    regs = registry_for(ctx)
    invs = {}
    lines = ['import NflowsModel.Core.Inventory',
             '/-! GENERATED by harness/props/c15.py (translator) from the running implementation — do not edit.',
             '    One theorem per registry configuration: the inventory of its module tree (parameters, buffers, every other',
             '    tensor / ndarray / number / bool / string / callable attribute), `ctorDetermined` := bitwise equal across instances',
             '    built under the seeds %s, `used` flags (missing = used) from value swapping. -/' % CTOR_SEEDS,
             'set_option maxRecDepth 100000',
             'open Thin Thin.Inventory', 'namespace Properties.C15', '']
    rejected = []
    for k, cfg in enumerate(regs):
        try:
            entries = extract_inventory(cfg)
        except Exception as e:
            ctx.notes.append('inventory of %s could not be extracted: %r' % (cfg.name, e))
            ctx.proof_broken.append('Generated.C15: inventory extraction failed for %s (%s)' % (cfg.name, type(e).__name__))
            continue
        invs[cfg.name] = entries
        cnt = {}
        for e in entries:
            cnt[INV.KIND_NAMES[e['kind']]] = cnt.get(INV.KIND_NAMES[e['kind']], 0) + 1
        susp = [e['path'] for e in entries if e['kind'] in (INV.BUF_NP, INV.PLAIN) and not e['ctor']]
        inv, used = lean_inventory(entries)
        desc = '%s — %d entries %s' % (cfg.name, len(entries), json.dumps(cnt, sort_keys=True))
        if susp:
            desc += '; seed-dependent and not persisted: ' + ', '.join('%s (%s)' % (p, 'used' if [e for e in entries if e['path'] == p][0]['used'] else 'not read by the function') for p in susp[:6])
        lines.append('/-- %s -/' % desc.replace('-/', '- /'))
        lines.append('theorem inv_%d_reloadSafe : reloadSafeU (%s) (%s) = true := by decide' % (k, inv, used))
        if not safe_py(entries):
            rejected.append((cfg.name, [e['path'] for e in entries if e['used'] and e['kind'] in (INV.BUF_NP, INV.PLAIN) and not e['ctor']]))
    lines += ['', 'end Properties.C15', '']
    text = '\n'.join(lines)
    old = open(GEN_PATH).read() if os.path.exists(GEN_PATH) else None
    if old != text:
        os.makedirs(os.path.dirname(GEN_PATH), exist_ok=True)
        with open(GEN_PATH, 'w') as fh:
            fh.write(text)
    _STATE['invs'] = invs
    ctx.extra['translator'] = {'configurations': len(invs), 'entries': sum(len(v) for v in invs.values()),
                               'rejected': len(rejected), 'file_changed': old != text,
                               'seed_dependent_unpersisted_but_unused': sorted({(n, e['path']) for n, v in invs.items() for e in v
                                                                                if not e['used']})[:20]}
    for name, paths in rejected[:5]:
        ctx.notes.append('translator: inventory of %s rejected by reloadSafeU (python pre-check): %s' % (name, paths[:5]))


# ---- correspondence ---------------------------------------------------------------------------------------------
def seed_pairs(ctx):
    base = 100 + 7 * ctx.seed
    pairs = [(base + 1, base + 2)]
    if not ctx.quick():
        pairs += [(base + 3, base + 4), (base + 5, base + 6)]
    return pairs


def one_case(cfg, hist, sa, sb, entries):
    """-> dict with everything needed for the comparison (no ctx access)"""
    A = zoo.build(cfg, sa)
    if hist.startswith('f64'):
        A = A.double()
    pre = INV.digests(A)
    apply_history(A, cfg, hist, sa * 13 + 5)
    post = INV.digests(A)
    sd = save_load_roundtrip(A.state_dict())
    B = zoo.build(cfg, sb)
    if hist.startswith('f64'):
        B = B.double()
    fresh = INV.digests(B)
    outB0 = evaluate(B, cfg, train_forward=False)
    load_error = None
    try:
        B.load_state_dict(sd)
    except Exception as e:
        load_error = repr(e)[:300]
    after = INV.digests(B)
    mirror_modes(A, B)
    outA = evaluate(A, cfg)
    outB = evaluate(B, cfg)
    diff_calls = sorted(k for k in set(outA) | set(outB) if outA.get(k) != outB.get(k))
    # the other usual order: the fresh model is put in evaluation mode BEFORE the state is loaded
    B2 = zoo.build(cfg, sb)
    if hist.startswith('f64'):
        B2 = B2.double()
    B2.eval()
    try:
        B2.load_state_dict(sd)
        mirror_modes(A, B2)
        outB2 = evaluate(B2, cfg, train_forward=False, toggle=False)        # used as it is: build().eval(); load_state_dict(sd); model(x)
        diff_calls = sorted(set(diff_calls) | {k + '@eval-before-load' for k in outB2 if outA.get(k) != outB2.get(k)})
        # ... and a fresh model that was already USED in evaluation mode (anything it remembers from its own parameters is stale now)
        B3 = zoo.build(cfg, sb)
        if hist.startswith('f64'):
            B3 = B3.double()
        B3.eval()
        mirror_modes(A, B3)
        evaluate(B3, cfg, train_forward=False, toggle=False)
        B3.load_state_dict(sd)
        outB3 = evaluate(B3, cfg, train_forward=False, toggle=False)
        diff_calls = sorted(set(diff_calls) | {k + '@used-before-load' for k in outB3 if outA.get(k) != outB3.get(k)})
    except Exception as e:
        load_error = load_error or repr(e)[:300]
    b_differed = any(outA.get(k) != outB0.get(k) for k in outB0)
    return {'pre': pre, 'post': post, 'fresh': fresh, 'after': after, 'load_error': load_error, 'diff_calls': diff_calls,
            'b_differed_before_load': b_differed, 'raised': sorted(k for k, v in outA.items() if isinstance(v, tuple))}


def model_request(entries, r, ids):
    def vid(d):
        if d is None:
            return -1
        if d not in ids:
            ids[d] = len(ids)
        return ids[d]
    paths = [e['path'] for e in entries]
    saved = [vid(r['pre'].get(p)) for p in paths]
    fresh = [vid(r['fresh'].get(p)) for p in paths]
    hist = []
    for i, p in enumerate(paths):
        if r['post'].get(p) != r['pre'].get(p):
            hist += [i, vid(r['post'].get(p))]
    flat = []
    for e in entries:
        flat += [e['kind'], 1 if e['ctor'] else 0]
    req = {'op': 'c15_inv', 'i': flat, 'used': [1 if e['used'] else 0 for e in entries], 'saved': saved, 'fresh': fresh, 'hist': hist}
    actual = [vid(r['after'].get(p)) for p in paths]
    return req, actual, hist


def correspondence(ctx):
    torch.set_num_threads(1)
    invs = _STATE.get('invs')
    regs = registry_for(ctx)
    if invs is None:
        invs = {}
        for cfg in regs:
            invs[cfg.name] = extract_inventory(cfg)
    reqs, metas = [], []
    outside_premise = 0
    for cfg in regs:
        entries = invs.get(cfg.name)
        if entries is None:
            continue
        for hist in histories_for(cfg):
            for (sa, sb) in seed_pairs(ctx):
                ident = {'config': cfg.name, 'history': hist, 'seed_a': sa, 'seed_b': sb}
                try:
                    r = one_case(cfg, hist, sa, sb, entries)
                except Exception as e:
                    ctx.case(branch='harness-error:' + type(e).__name__, nontrivial=False)
                    ctx.notes.append('case %s could not be run: %r' % (ident, e))
                    continue
                ids = {}
                req, actual, h = model_request(entries, r, ids)
                reqs.append(req)
                metas.append((cfg, hist, ident, r, entries, actual, h))
    resps = leandriver.call(reqs)
    for (cfg, hist, ident, r, entries, actual, h), resp in zip(metas, resps):
        moved = len(h) // 2
        ctx.case(key=(cfg.name, hist), branch='history:' + hist, nontrivial=bool(r['b_differed_before_load'] or moved),
                 sample={'case': ident, 'entries': len(entries), 'moved_by_history': moved,
                         'b_differed_before_load': r['b_differed_before_load'], 'diff_after_load': r['diff_calls']}
                 if (cfg.random_ctor and hist != 'fresh') else None)
        ctx.count('B differed from A before loading' if r['b_differed_before_load'] else 'B equal to A before loading')
        ints = resp.get('i', [])
        if resp.get('e') or len(ints) != 2 + len(entries):
            ctx.disagree('c15_inv', ident, None, resp, 'driver error / malformed response')
            continue
        safe_u = bool(ints[0])
        pred = ints[2:]
        if safe_u != safe_py(entries):
            ctx.disagree('c15_inv', ident, safe_py(entries), safe_u, 'Lean reloadSafeU differs from the Python reference evaluation')
        # (1) entry-by-entry: model afterLoad vs the real load_state_dict
        bad = [(entries[i]['path'], INV.KIND_NAMES[entries[i]['kind']]) for i in range(len(entries)) if pred[i] != actual[i]]
        if bad:
            ctx.disagree('c15_inv/afterLoad', ident, {'entries_after_load_differ_from_model': bad[:8]}, None,
                         'the real load_state_dict left %d entr%s in another state than afterLoad predicts' % (len(bad), 'y' if len(bad) == 1 else 'ies'))
        if r['load_error']:
            ctx.disagree('c15_inv/load', ident, r['load_error'], 'load_state_dict succeeds', 'load_state_dict raised')
        # premises of the theorems on this case
        refuted = [e['path'] for e in entries if e['ctor'] and e['kind'] in (INV.BUF_NP, INV.PLAIN)
                   and r['pre'].get(e['path']) != r['fresh'].get(e['path'])]
        if refuted:
            ctx.disagree('c15_inv/ctor', ident, {'differs_between_seeds': refuted[:8]}, 'constructor-determined',
                         'an entry flagged constructor-determined (5 translator seeds) differs between the instances of this case')
        touched = [entries[h[2 * j]]['path'] for j in range(moved)
                   if entries[h[2 * j]]['kind'] in (INV.BUF_NP, INV.PLAIN) and entries[h[2 * j]]['used']]
        if touched:
            outside_premise += 1
            ctx.count('history moved a non-persisted entry (outside the premise of reload_after_history)')
        if not safe_u:
            off = (resp.get('f') or [[]])[0]
            ctx.proof_broken.append('premise of Properties.C15.reload_same_function fails (driver: reloadSafeU = false) for %s: %s'
                                    % (cfg.name, [entries[i]['path'] for i in off][:5]))
        # (2) behaviour
        if r['diff_calls']:
            why = 'saved and reloaded instance differ bitwise on ' + ', '.join(r['diff_calls'])
            if touched:
                why += '; the history moved non-persisted entr%s %s (premise of reload_after_history violated)' % ('y' if len(touched) == 1 else 'ies', touched[:4])
            ctx.disagree('c15_behaviour', ident, {'differs_on': r['diff_calls']},
                         'identical (reload_same_function)' if safe_u and not touched else 'no promise', why)
    ctx.extra['histories_outside_theorem_premise'] = outside_premise
    unused = sorted({(n, e['path']) for n, v in invs.items() for e in v if not e['used']})
    if unused:
        ctx.infos.append('%d entr%s seed-dependent and not persisted but not read by the function (swapping the value between '
                         'instances leaves every output bit-identical), e.g. %s of %s — tolerated by reloadSafeU via used = false'
                         % (len(unused), 'y is' if len(unused) == 1 else 'ies are', unused[0][1], unused[0][0]))


# ---- search / replay ---------------------------------------------------------------------------------------------
def behavioural(cfg, hist, sa, sb):
    A = zoo.build(cfg, sa)
    if hist.startswith('f64'):
        A = A.double()
    apply_history(A, cfg, hist, sa * 13 + 5)
    sd = save_load_roundtrip(A.state_dict())
    B = zoo.build(cfg, sb)
    if hist.startswith('f64'):
        B = B.double()
    try:
        B.load_state_dict(sd)
    except Exception as e:
        return ['load_state_dict raised ' + type(e).__name__]
    mirror_modes(A, B)
    oa, ob = evaluate(A, cfg), evaluate(B, cfg)
    diff = sorted(k for k in set(oa) | set(ob) if oa.get(k) != ob.get(k))
    B2 = zoo.build(cfg, sb)
    if hist.startswith('f64'):
        B2 = B2.double()
    B2.eval()
    try:
        B2.load_state_dict(sd)
    except Exception as e:
        return diff + ['load_state_dict raised ' + type(e).__name__]
    mirror_modes(A, B2)
    ob2 = evaluate(B2, cfg, train_forward=False, toggle=False)
    diff = sorted(set(diff) | {k + '@eval-before-load' for k in ob2 if oa.get(k) != ob2.get(k)})
    B3 = zoo.build(cfg, sb)
    if hist.startswith('f64'):
        B3 = B3.double()
    B3.eval()
    mirror_modes(A, B3)
    evaluate(B3, cfg, train_forward=False, toggle=False)
    try:
        B3.load_state_dict(sd)
    except Exception as e:
        return diff + ['load_state_dict raised ' + type(e).__name__]
    ob3 = evaluate(B3, cfg, train_forward=False, toggle=False)
    return sorted(set(diff) | {k + '@used-before-load' for k in ob3 if oa.get(k) != ob3.get(k)})


def search(ctx):
    torch.set_num_threads(1)
    seen = set()
    for cfg in registry_for('thorough'):
        for hist in histories_for(cfg):
            for (sa, sb) in [(101 + 7 * ctx.seed, 102 + 7 * ctx.seed), (211, 307), (5, 6)]:
                try:
                    diff = behavioural(cfg, hist, sa, sb)
                except Exception:
                    continue
                for call in diff:
                    match = {'config': cfg.name, 'history': hist, 'call': call, 'symptom': 'reload-differs'}
                    k = json.dumps(match, sort_keys=True)
                    if k in seen:
                        continue
                    seen.add(k)
                    ctx.fail('%s of %s differs bitwise between the saved instance (seed %d, history %s) and a fresh instance (seed %d) '
                             'after load_state_dict' % (call, cfg.name, sa, hist, sb),
                             {'config': cfg.name, 'history': hist, 'seed_a': sa, 'seed_b': sb, 'call': call}, match=match)


def replay(ctx, payload):
    torch.set_num_threads(1)
    case = (payload.get('failing') or {}).get('case') or {}
    reg = {c.name: c for c in zoo.registry()}
    cfg = reg.get(case.get('config'))
    if cfg is None:
        return None
    diff = behavioural(cfg, case['history'], int(case['seed_a']), int(case['seed_b']))
    print('  differs on: %s' % diff)
    return case.get('call') in diff if case.get('call') else bool(diff)


def replay_finding(ctx, entry):
    torch.set_num_threads(1)
    m = entry.get('match', {})
    reg = {c.name: c for c in zoo.registry()}
    cfg = reg.get(m.get('config'))
    if cfg is None:
        return None
    hists = [m['history']] if m.get('history') else histories_for(cfg)
    for hist in hists:
        for (sa, sb) in [(101, 102), (211, 307)]:
            diff = behavioural(cfg, hist, sa, sb)
            if (m.get('call') in diff) if m.get('call') else bool(diff):
                return True
    return False
