"""C10 — weight caching in linear transforms is transparent over every history.

Theorems: Properties.C10 (inductive invariant of the cache machine `Cache.step`, transparency over ALL histories by
induction over the op list, tightness of the one forced hypothesis, counterexamples by `decide`).
Correspondence: lock-step of the same machine (Lean driver op `cache_hist`) against LULinear, QRLinear, SVDLinear,
NaiveLinear and OneByOneConvolution (4-D inputs): after every step the white-box state and the observable
(outputs / log-abs-dets / input gradients / exception kind / dtypes) are compared; for an `ok` step the model says from
which parameter VERSION the outputs and the log-abs-det were computed and the harness recomputes exactly that with a
separate uncached module (current version = the property itself).
"""
import itertools, time
import torch
from harness.common import leandriver, linhist as L

PROPERTY = 'C10'
LEVEL = 'proof'
REQUIRED_THEOREMS = ['Properties.C10.cache_transparent_partial', 'Properties.C10.cache_transparent_partial_from',
                     'Properties.C10.invariant_step', 'Properties.C10.second_backward_counterexample',
                     'Properties.C10.noRepeatedBackward_tight', 'Properties.C10.update_in_eval_counterexample',
                     'Properties.C10.load_cast_repaired', 'Properties.C10.training_cache_empty',
                     'Properties.C10.cache_off_is_uncached', 'Properties.C10.trace_outputs',
                     'Properties.C10.lu_cached_paths_agree', 'Properties.C10.qr_cached_paths_agree', 'Properties.C10.svd_cached_paths_agree', 'Properties.C10.conv_cached_forward_agrees', 'Properties.C10.naive_combined_routine_agrees', 'Properties.C10.current_version_denotes_current_value']
RULE = ("histories over {train, eval, use_cache:1/0/bad, fwd, inv, update, load, cast:f64, cast:f32, fwdBwd} on 7 configurations of "
        "the 5 classes: (A) exhaustive: every history of length <= 2 from a fresh module and [eval, use_cache:1] followed by every "
        "sequence of length <= 3 (thorough: <= 4), updates only in training mode (the property's alphabet); (B) sampled length 4-5 "
        "continuations; (C) random histories of length 6-30 (some built with using_cache=True); (D) histories WITH updates in "
        "evaluation mode (outside the property's alphabet, no fwdBwd) to check the model's stale-version predictions. "
        "A history is non-trivial when at least one call was answered from a filled cache (a hit); distinct = (class, signature) "
        "with signature = sequence of (observation op, uncached/miss/hit/stale/error) interleaved with the de-duplicated "
        "state-changing ops between them")
EXPLANATION = ("Lean proof by induction over the op list that the cache machine answers every history like recomputation "
               "from the current parameters (hypotheses: updates in training mode = the property's alphabet; no repeated cached "
               "backward = known finding F11c, shown tight); tie = lock-step differential run of the same Lean machine "
               "against the five real classes, white-box cache state and version-exact outputs after every step")
ASSUMPTIONS = ["parameters are abstracted to a version number and a dtype; random updates/loads change every cached quantity by far more than the tolerance (3e-4 rel. float32, 1e-9 float64)",
               "fwdBwd uses loss = outputs.sum() + logabsdet.sum() (as a flow's log-likelihood does)",
               "device conversion is not exercised (CPU only); it goes through the same `_apply` override as dtype conversion",
               "updates in evaluation mode are outside the property's alphabet; there the real code may additionally raise an in-place-modification autograd error on a later backward (not modelled, not generated)"]

ALPHA = ['train', 'eval', 'use_cache:1', 'use_cache:0', 'fwd', 'inv', 'update', 'load', 'cast:f64', 'cast:f32', 'fwdBwd']
PREFIX = ['eval', 'use_cache:1']


# ---------------------------------------------------------------------------------------------------------------
def gen_exhaustive(maxlen_fresh, maxlen_prefixed, allow_eval_update=False):
    out = []
    for n in range(1, maxlen_fresh + 1):
        for h in itertools.product(ALPHA, repeat=n):
            out.append(list(h))
    for n in range(1, maxlen_prefixed + 1):
        for h in itertools.product(ALPHA, repeat=n):
            out.append(PREFIX + list(h))
    if not allow_eval_update:
        out = [h for h in out if L.in_alphabet(h)]
    return out


def random_history(rng, n, eval_updates=False, no_bwd=False):
    ops = ['eval', 'use_cache:1', 'train', 'use_cache:0', 'fwd', 'inv', 'fwdBwd', 'update', 'load', 'cast:f64', 'cast:f32', 'use_cache:bad']
    w = [2, 2, 1, 1, 3, 3, 2, 1.5, 1, 0.7, 0.7, 0.2]
    if eval_updates:
        w[7] = 3
    h, tr = [], True
    while len(h) < n:
        op = rng.choices(ops, w)[0]
        if op == 'update' and not tr and not eval_updates:
            continue
        if op == 'fwdBwd' and no_bwd:
            continue
        if op == 'train':
            tr = True
        elif op == 'eval':
            tr = False
        h.append(op)
    return h


def gen_cases(ctx, for_search=False):
    """list of (stream, cls, cfg, seed, using_cache, hist)"""
    quick = ctx.quick()
    rng = ctx.rng
    cfgs = L.configs(quick)
    primary = set()
    cases = []
    ex = gen_exhaustive(2, 3 if quick else 4)
    for (cls, cfg) in cfgs:
        first = cls not in primary
        primary.add(cls)
        seed = rng.randrange(1 << 30)
        if first:
            for h in ex:
                cases.append(('A', cls, cfg, seed, False, h))
        else:
            for h in rng.sample(ex, min(len(ex), 250)):
                cases.append(('A', cls, cfg, seed, False, h))
        nB = 250 if quick else 3000
        for _ in range(nB):
            n = rng.choice([4, 5])
            while True:
                h = PREFIX + [rng.choice(ALPHA) for _ in range(n)]
                if L.in_alphabet(h):
                    break
            cases.append(('B', cls, cfg, seed, False, h))
        # constructor flag using_cache=True, then [eval] + short continuations
        for _ in range(60 if quick else 600):
            n = rng.choice([2, 3, 4])
            while True:
                h = ['eval'] + [rng.choice(ALPHA) for _ in range(n)]
                if L.in_alphabet(h):
                    break
            cases.append(('B', cls, cfg, seed, True, h))
        for _ in range(30 if quick else 400):
            cases.append(('C', cls, cfg, rng.randrange(1 << 30), rng.random() < 0.3, random_history(rng, rng.randint(6, 30))))
        if not for_search:
            for _ in range(50 if quick else 500):
                h = PREFIX + random_history(rng, rng.randint(3, 9), eval_updates=True, no_bwd=True)
                cases.append(('D', cls, cfg, rng.randrange(1 << 30), False, h))
    # frozen parameters: the cached tensors carry no autograd graph, so the modelled second-backward error (known finding F11c) does not
    # arise there; those configurations run the histories WITHOUT a repeated cached backward (the hypothesis of the theorem)
    cases = [c for c in cases if not (c[2].get('frozen') and not L.hypotheses(c[5], c[4])[1])]
    return cases


def model_req(cls, using_cache, hist):
    return {'op': 'cache_hist', 's': [L.KIND[cls]] + list(hist), 'i': [1, int(using_cache), 0]}


def model_rows(resp, n):
    if resp.get('e'):
        raise RuntimeError('model error: %s' % resp['e'])
    ints = resp['i']
    assert len(ints) == 12 * n + 2 and len(resp['s']) == n, 'model answered %d ints for %d steps' % (len(ints), n)
    return [ints[12 * k:12 * k + 12] for k in range(n)], resp['s'], ints[12 * n:]


def signature(hist, rows, kinds, using_cache):
    sig, hit, last = [], False, None
    prev = [1, int(using_cache), 1, 1, 1]
    for op, row, kd in zip(hist, rows, kinds):
        if op in L.OBS:
            cached = (prev[0] == 0 and prev[1] == 1)
            if kd != 'ok':
                st = 'E'
            elif not cached:
                st = 'U'
            else:
                filled = (prev[3] == 0 and prev[4] == 0) if op == 'inv' else (prev[2] == 0 and prev[4] == 0)
                st = 'H' if filled else 'M'
                if row[5] != row[11] or row[7] != row[11]:
                    st = 'S'
                if st == 'H':
                    hit = True
            sig.append(op + ':' + st)
            last = None
        else:
            if op != last:
                sig.append(op)
            last = op
        prev = row[:5]
    return tuple(sig), hit


def compare_history(ctx, stream, cls, cfg, seed, using_cache, hist, resp, record=True):
    """lock-step one history; returns number of disagreements added"""
    rows, kinds, hyp = model_rows(resp, len(hist))
    pu, pb, _ = L.hypotheses(hist, using_cache)
    if [int(pu), int(pb)] != hyp:
        ctx.disagree('cache_hist/hypotheses', {'history': list(hist), 'using_cache': using_cache}, [int(pu), int(pb)], hyp,
                     'Python twins of updatesOnlyInTraining / noRepeatedBackward differ from the Lean definitions')
    if hyp == [1, 1] and any(k not in ('-', 'ok', 'TypeError') or (k == 'ok' and (row[5] != row[11] or row[7] != row[11]))
                             for k, row in zip(kinds, rows)):
        ctx.disagree('cache_hist/theorem', {'history': list(hist)}, None, kinds,
                     'driver output contradicts Properties.C10.cache_transparent_partial (stale build?)')
    r = L.Runner(cls, cfg, seed, using_cache)
    base = {'class': cls, 'cfg': cfg, 'seed': seed, 'using_cache': using_cache, 'history': list(hist), 'stream': stream}
    nd = 0
    skipped = set()

    def dis(i, impl, model, why):
        nonlocal nd
        nd += 1
        ctx.disagree('cache_hist/' + cls, dict(base, step=i, op=hist[i]), impl, model, why)

    for i, op in enumerate(hist):
        res = r.step(op)
        row, mk = rows[i], kinds[i]
        # (a) white-box state, best effort
        wb = r.whitebox()
        for j, nm in enumerate(('training', 'using_cache', 'cache.weight is None', 'cache.inverse is None', 'cache.logabsdet is None')):
            if wb[j] is None:
                skipped.add(nm)
            elif wb[j] != row[j]:
                dis(i, {'state': wb}, {'state': row[:5]}, 'white-box state differs: ' + nm)
                break
        # harness bookkeeping must agree with the model's abstraction
        if r.ver != row[9] or L.DTN[r.dtype] != ('f32', 'f64')[row[10]]:
            dis(i, {'ver': r.ver, 'dt': L.DTN[r.dtype]}, {'ver': row[9], 'dt': row[10]}, 'version/dtype bookkeeping differs')
        # (b) observable
        if res['kind'] != mk:
            dis(i, {'kind': res['kind'], 'msg': res.get('msg')}, {'kind': mk}, 'outcome kind differs')
            if res['kind'] != 'ok' or mk != 'ok':
                if op in L.OBS:
                    ctx.count('%s/%s' % (op, 'disagree'))
                continue
        if mk == 'ok' and res['kind'] == 'ok':
            wv, wdt, lv, ldt = row[5], row[6], row[7], row[8]
            y0, ld0, g0 = r.reference(op, res['x'], wv, lv)
            okd = (L.DTN.get(res['y'].dtype) == ('f32', 'f64')[wdt]) and (L.DTN.get(res['ld'].dtype) == ('f32', 'f64')[ldt])
            if not okd:
                dis(i, {'dtypes': [str(res['y'].dtype), str(res['ld'].dtype)]}, {'dtypes': [wdt, ldt]}, 'output dtypes differ')
            oky, dy = L.close(res['y'], y0, r.dtype)
            if not oky:
                dis(i, {'outputs_maxdiff': dy}, {'from_version': wv, 'current_version': row[11]},
                    'outputs are not the ones computed from parameter version %d' % wv)
            okl, dl = L.close(res['ld'], ld0, r.dtype)
            if not okl:
                dis(i, {'logabsdet_maxdiff': dl}, {'from_version': lv, 'current_version': row[11]},
                    'log-abs-det is not the one computed from parameter version %d' % lv)
            if op == 'fwdBwd':
                okg, dg = L.close(res['grad'], g0, r.dtype)
                if not okg:
                    dis(i, {'input_grad_maxdiff': dg}, {'from_version': wv}, 'input gradient differs from the uncached one')
    if record:
        sig, hit = signature(hist, rows, kinds, using_cache)
        for s in sig:
            if ':' in s and s.split(':')[0] in L.OBS:
                ctx.count(s.replace(':', '/').replace('/U', '/uncached').replace('/M', '/miss').replace('/H', '/hit')
                          .replace('/S', '/stale(eval-update)').replace('/E', '/error'))
        errs = [k for k in kinds if k not in ('-', 'ok')]
        ctx.case(key=(cls, sig), nontrivial=hit, n=1, branch='stream-' + stream,
                 sample={'class': cls, 'cfg': cfg, 'history': hist, 'model_outcomes': kinds,
                         'model_state_after_each_step': [row[:5] for row in rows]} if (hit and len(hist) >= 6 and not errs) else None)
        for nm in skipped:
            note = 'white-box observable absent, skipped: ' + nm
            if note not in ctx.notes:
                ctx.notes.append(note)
    return nd


def correspondence(ctx):
    torch.set_num_threads(1)
    cases = gen_cases(ctx)
    resps = leandriver.call([model_req(c[1], c[4], c[5]) for c in cases])
    budget = 75 if ctx.quick() else 800
    t0 = time.time()
    done = 0
    nA = sum(1 for c in cases if c[0] == 'A')
    doneA = 0
    for c, resp in zip(cases, resps):
        if time.time() - t0 > budget and c[0] != 'A':
            continue
        compare_history(ctx, *c, resp)
        done += 1
        doneA += c[0] == 'A'
        if len(ctx.disagreements) > 200:
            break
    ctx.exhaustive = False
    ctx.extra['exhaustive_stream_A'] = (doneA == nA)
    ctx.extra['histories_generated'] = len(cases)
    ctx.extra['histories_run_on_impl'] = done
    ctx.extra['steps_compared'] = sum(len(c[5]) for c in cases[:done])
    ctx.extra['model_histories'] = len(resps)


# ---- the property's own oracle (only when something broke) ------------------------------------------------------
def _report(ctx, cls, cfg, seed, uc, hist, symptom):
    case = {'class': cls, 'cfg': cfg, 'seed': seed, 'using_cache': uc, 'history': hist, 'symptom': symptom}
    if symptom == 'second-backward':
        ctx.fail('second forward+backward through the cached tensors raises on %s (history %s)' % (cls, hist), case,
                 match={'symptom': 'second-backward', 'class': cls})
    else:
        ctx.fail('%s on %s%s: cached transform differs from recomputation after history %s'
                 % (symptom, cls, ' (constructed with using_cache=True)' if uc else '', hist), case,
                 match={'class': cls, 'history': hist, 'symptom': symptom})


def search(ctx):
    torch.set_num_threads(1)
    t0 = time.time()
    budget = 80 if ctx.quick() else 600
    todo = []
    for d in ctx.disagreements:                       # first: the disagreeing cases themselves
        c = d.get('case') or {}
        if 'history' in c and c.get('class') in L.CLASSES and L.in_alphabet(c['history']):
            todo.append(('X', c['class'], c['cfg'], c['seed'], c.get('using_cache', False), c['history']))
            # a white-box state difference (a cache entry that should have been dropped) is only observable later: complete the
            # history with the continuations that would expose a stale entry
            if len(todo) < 400:
                for suffix in (['update', 'eval', 'use_cache:1', 'fwd'], ['update', 'eval', 'use_cache:1', 'inv'],
                               ['train', 'update', 'eval', 'use_cache:1', 'fwd'], ['train', 'update', 'eval', 'use_cache:1', 'inv'],
                               ['use_cache:1', 'fwd'], ['use_cache:1', 'inv']):
                    h2 = list(c['history']) + suffix
                    if L.in_alphabet(h2):
                        todo.append(('X', c['class'], c['cfg'], c['seed'], c.get('using_cache', False), h2))
    gen = [c for c in gen_cases(ctx, for_search=True)]
    gen.sort(key=lambda c: len(c[5]))
    todo += gen
    seen_min = {}
    seen_hist = set()
    for (_, cls, cfg, seed, uc, hist) in todo:
        if time.time() - t0 > budget:
            ctx.notes.append('search budget exhausted')
            break
        hk = (cls, str(cfg), uc, tuple(hist))
        if hk in seen_hist:
            continue
        seen_hist.add(hk)
        bad = L.run_oracle(cls, cfg, seed, hist, uc)
        for symptom in sorted({s for _, s in bad}):
            k = (cls, symptom)
            if len(seen_min.get(k, ())) >= (1 if symptom == 'second-backward' else 2):
                continue
            h = L.shrink(cls, cfg, seed, hist, symptom, uc)
            if tuple(h) in seen_min.get(k, ()):
                continue
            seen_min.setdefault(k, []).append(tuple(h))
            _report(ctx, cls, cfg, seed, uc, h, symptom)
    ctx.extra['search_histories'] = len(seen_hist)


WITNESS = {
    'second-backward': [['eval', 'use_cache:1', 'fwdBwd', 'fwdBwd']],
    'stale-after-load': [['eval', 'use_cache:1', 'fwd', 'load', 'fwd'], ['eval', 'use_cache:1', 'inv', 'load', 'inv']],
    'dtype-after-cast': [['eval', 'use_cache:1', 'fwd', 'cast:f64', 'fwd'], ['eval', 'use_cache:1', 'inv', 'cast:f64', 'inv'],
                         ['eval', 'use_cache:1', 'fwd', 'cast:f64', 'fwd', 'cast:f32', 'fwd']],
    'naive-cold-inverse-dtype': [['cast:f64', 'eval', 'use_cache:1', 'inv']],
}
BY_ID = {'F11a': 'stale-after-load', 'F11b': 'dtype-after-cast', 'F11c': 'second-backward', 'F11d': 'naive-cold-inverse-dtype'}


def _first_bad(cls, cfg, h):
    bad = L.run_oracle(cls, cfg, 12345, h)
    return bad[0] if bad else None


def replay_finding(ctx, entry):
    """re-run the witness histories of a listed finding; True iff the SAME defect shows again"""
    torch.set_num_threads(1)
    m = entry.get('match', {}) or {}
    symptom = m.get('symptom') or BY_ID.get(str(entry.get('id', ''))[:4])
    classes = [m['class']] if m.get('class') in L.CLASSES else \
        (['NaiveLinear'] if symptom == 'naive-cold-inverse-dtype' else L.CLASSES)
    hists = [m['history']] if isinstance(m.get('history'), list) else WITNESS.get(symptom)
    if not hists:
        return None
    for cls in classes:
        for (c, cfg) in L.configs(True):
            if c != cls:
                continue
            for h in hists:
                fb = _first_bad(cls, cfg, h)
                if fb is None:
                    continue
                i, s = fb
                if symptom == 'second-backward':
                    if s == 'second-backward':
                        return True
                elif symptom == 'stale-after-load':
                    # the defect: everything fine up to the load, wrong values after it
                    if 'load' in h and i > h.index('load') and s.startswith('stale'):
                        return True
                elif symptom == 'dtype-after-cast':
                    if 'cast:f64' in h and i > h.index('cast:f64') and (s.startswith('error:RuntimeError') or s == 'dtype-differs' or s.startswith('stale')):
                        return True
                elif symptom == 'naive-cold-inverse-dtype':
                    if s == 'error:RuntimeError:dtype':
                        return True
                else:
                    return True
    return False


def replay(ctx, payload):
    torch.set_num_threads(1)
    f = payload.get('failing') or {}
    if (f.get('match') or {}).get('regression'):
        rid = f['match']['regression']
        still = replay_finding(ctx, {'id': rid, 'match': f.get('case') or {}})
        print('replay: regression of fixed finding %s -> reproduces: %s' % (rid, still))
        return bool(still)
    c = f.get('case') or {}
    if 'history' not in c:
        return None
    bad = L.run_oracle(c['class'], c['cfg'], c.get('seed', 0), c['history'], c.get('using_cache', False))
    print('replay: class=%s using_cache=%s history=%s -> failing steps %s' % (c['class'], c.get('using_cache', False), c['history'], bad))
    return bool(bad)
