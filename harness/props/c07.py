"""C07 — coupling layers leave identity features untouched and condition only on them.

Theorems: Properties.C07 (index partition, identity pass-through, conditioner sees only the identity split, transformed
feature depends only on its own input + identity features, parameter layouts).  Correspondence: all masks for small
feature counts (every non-trivial subset, real-valued entries) x coupling classes x 2-D/image x context; identity
features compared BITWISE, the tensor handed to the conditioner compared bitwise with the model's identity split."""
import itertools
import torch
from harness.common import registry as R, tcorr, bits

PROPERTY = 'C07'
LEVEL = 'proof'
REQUIRED_THEOREMS = ['Properties.C07.identity_passthrough', 'Properties.C07.cond_sees_only_identity', 'Properties.C07.transformed_depends_on',
                     'Properties.C07.idx_partition', 'Properties.C07.param_layout_img', 'Properties.C07.exec_identity_passthrough', 'Properties.C07.exec_conditioner_input', 'Properties.C07.exec_refines_abstract_identity',
    "Properties.C07.exec_coupling_param_dependence", "Properties.C07.exec_coupling_param_dependence_row", "Properties.C07.exec_coupling_no_cross_dependence", "Properties.C07.exec_coupling_no_cross_dependence_set", "Properties.C07.exec_coupling_feature_monotone", "Properties.C07.exec_coupling_feature_monotone_additive", "Properties.C07.exec_coupling_feature_monotone_affine", "Properties.C07.exec_coupling_feature_monotone_rq_tails", "Properties.C07.exec_coupling_feature_monotone_rq", "Properties.C07.exec_coupling_feature_monotone_lin", "Properties.C07.exec_coupling_entry_monotone", "Properties.C07.exec_coupling_jacobian_triangular", "Properties.C07.exec_coupling_jacobian_diag_pos", "Properties.C07.exec_coupling_jacobian_det_pos", "Properties.C07.exec_coupling_jacobian_invertible", "Properties.C07.exec_coupling_local_diffeo", "Properties.C07.exec_identity_passthrough_weak", "Properties.C07.exec_identity_unconditional", "Properties.C07.exec_transformed_entry", "Properties.C07.passthrough_needs_not_gt",]
RULE = ("every non-trivial mask subset for n<=4 (thorough: n<=5) with numeric entries drawn from {-2.5,-1,0,0.1,1,3}, x {additive, affine, linear, quadratic, "
        "cubic, rational-quadratic} coupling x {2-D, image} x {context, none} x both directions; distinct = (class, mask pattern, direction, img, ctx); "
        "non-trivial = at least one transformed feature changed")
EXPLANATION = "pass-through and conditioning theorems are generic in the element type (hence bit-for-bit for floats); tie = bitwise comparison of identity features and of the conditioner's input with the model"
ASSUMPTIONS = ["unconditional_transform variants (apply_unconditional_transform=True) are exercised by the search oracle only"]


def mask_entries(ctx):
    import nflows.transforms as T
    nmax = 4 if ctx.quick() else 5
    vals_pos = [0.1, 1.0, 3.0]
    vals_neg = [-2.5, -1.0, 0.0]
    cps = {'lin': T.PiecewiseLinearCouplingTransform, 'quad': T.PiecewiseQuadraticCouplingTransform,
           'cubic': T.PiecewiseCubicCouplingTransform, 'rq': T.PiecewiseRationalQuadraticCouplingTransform}
    E = []
    k = 0
    for n in range(2, nmax + 1):
        for pat in itertools.product([0, 1], repeat=n):
            if sum(pat) in (0, n):
                continue
            mask = [vals_pos[(i + k) % 3] if p else vals_neg[(i + k) % 3] for i, p in enumerate(pat)]
            k += 1
            if k % 4 == 1:
                # integer-valued masks (python ints -> int64 tensor), negative entries mean "identity" as well
                mask = [(1 + (i + k) % 3) if p else -((i + k) % 3) for i, p in enumerate(pat)]
            elif k % 4 == 2:
                mask = [bool(p) for p in pat] if k % 8 == 2 else [int(p) for p in pat]
            fams = list(cps) if (k % 3 == 0 or not ctx.quick()) else [list(cps)[k % 4]]
            for img in (False, True):
                if img and n > 3:
                    continue
                for cx in (None, 2):
                    if cx and ctx.quick() and k % 2 == 0:
                        continue
                    shp = [n, 2, 2] if img else [n]
                    netk = 'conv' if img else 'res'
                    tag = 'm%s/%s/ctx%s' % (''.join('T' if p else 'I' for p in pat), 'img' if img else '2d', cx)
                    E.append(R.Entry('AffineCoupling/' + tag, 'coupling',
                                     (lambda mask=mask, cx=cx, netk=netk: T.AffineCouplingTransform(mask, R.net_fn(netk, cx, 4))),
                                     shp, ctx=cx, extra={'ckind': 'affine', 'mask': mask, 'act': 'default', 'img': img}))
                    E.append(R.Entry('AdditiveCoupling/' + tag, 'coupling',
                                     (lambda mask=mask, cx=cx, netk=netk: T.AdditiveCouplingTransform(mask, R.net_fn(netk, cx, 4))),
                                     shp, ctx=cx, extra={'ckind': 'additive', 'mask': mask, 'img': img}))
                    for fam in fams:
                        E.append(R.Entry('%sCoupling/tails/%s' % (fam, tag), 'coupling',
                                         (lambda fam=fam, mask=mask, cx=cx, netk=netk, kx=k: cps[fam](mask, R.net_fn(netk, cx, 4), num_bins=3, tails='linear', tail_bound=2.0,
                                                                                              **({'apply_unconditional_transform': False} if kx % 2 else {}))),
                                         shp, ctx=cx, spline=dict(fam=fam, tails=True, K=3, B=2.0), extra={'ckind': fam, 'mask': mask, 'img': img}))
    return E


def correspondence(ctx):
    """thorough tier: several independent generator seeds (the quick tier runs one)"""
    for rep in range(1 if ctx.quick() else 6):
        _correspondence_once(ctx, rep)
        if ctx.elapsed() > 1500:
            break


def _correspondence_once(ctx, rep=0):
    gen = torch.Generator().manual_seed(ctx.seed * 3001 + 7 + 104729 * rep)
    jobs = []
    for e in mask_entries(ctx):
        t = tcorr.build(e, gen, torch.float64, 'normal')
        for inverse in (False, True):
            x = R.make_inputs(e, 2, gen, torch.float64, inverse)
            c = R.make_context(e, 2, gen, torch.float64)
            jobs.append(tcorr.make_job(e, t, x, c, inverse, 'normal'))
    tcorr.run_jobs(jobs)
    for j in jobs:
        ok = tcorr.compare(ctx, j, 'C07', observables=('out', 'ld'), check_cond=True)
        if ok and j.kind == 'ok':
            # identity features: bit-for-bit equal to the model's (which are the inputs' bits)
            mask = j.e.extra['mask']
            ident = [i for i, m in enumerate(mask) if m <= 0]
            got = bits.tensor_bits(j.y[:, ident])
            mo = torch.tensor(bits.dec(j.resp[-1]['f'][0], 'f64'), dtype=torch.float64).reshape(j.y.shape)
            want = bits.tensor_bits(mo[:, ident])
            ctx.case(key=('bitwise', j.e.name, j.inverse), branch='identity-bitwise', nontrivial=True, n=len(got))
            if got != want:
                ctx.disagree('C07/identity-bitwise', {'entry': j.e.name, 'inverse': j.inverse}, got[:8], want[:8], 'identity features are not bit-identical to the inputs')
    context_history(ctx, gen)
    mask_history(ctx, gen)
    held_results(ctx, gen)


def context_history(ctx, gen, report=None):
    """the parameters of the transformed features are a function of the identity features AND THE CONTEXT of the call: on ONE
    layer, without autograd, the same inputs evaluated under a first and then a second context must give, for the second call, bit for
    bit what a pristine copy of the layer gives for (inputs, second context) — also when only the transformed features change"""
    import copy
    for e in mask_entries(ctx):
        if e.ctx is None:
            continue
        t = tcorr.build(e, gen, torch.float64, 'normal')
        for inverse in (False, True):
            x = R.make_inputs(e, 2, gen, torch.float64, inverse)
            c1 = R.make_context(e, 2, gen, torch.float64)
            c2 = R.make_context(e, 2, gen, torch.float64)
            pristine = copy.deepcopy(t)
            with torch.no_grad():
                k1, _, _ = R.impl_call(t, x, c1, inverse)
                k2, y2, l2 = R.impl_call(t, x, c2, inverse)
                kf, yf, lf = R.impl_call(pristine, x, c2, inverse)
            case = {'entry': e.name, 'inverse': inverse, 'history': ['call(x, c1)', 'call(x, c2)']}
            bad = (k2 != kf) or (k2 == 'ok' and not (torch.equal(y2, yf) and torch.equal(l2, lf)))
            if report is None:
                ctx.case(key=('ctx-history', e.name, inverse), branch='context-history', nontrivial=True, n=int(x.numel()))
                if bad:
                    ctx.disagree('C07/context-history', case, 'second call differs from a pristine layer on (x, c2)', 'identical',
                                 'parameters do not depend on the context of the call (stale conditioner output)')
            elif bad:
                report('the second of two no-grad calls with the same inputs and a different context returns what the first context gave', case,
                       {'class': e.name.split('/')[0], 'symptom': 'context-ignored'})


def held_results(ctx, gen, report=None):
    """results are VALUES: under no_grad, the outputs of a first call, still held by the caller, keep their identity features (and
    everything else) after the same layer is called again on other inputs, and a call does not write into its argument; and on a LONG
    batch (5000 rows, a context) the conditioner is given, for every row, that row's identity features and that row's context"""
    done = set()
    for e in mask_entries(ctx):
        cls = e.name.split('/')[0]
        key = (cls, e.ctx is not None, len(e.in_shape))
        if key in done:
            continue
        done.add(key)
        t = tcorr.build(e, gen, torch.float64, 'normal')
        mask = e.extra['mask']
        ident = [i for i, m in enumerate(mask) if m <= 0]
        for inverse in (False, True):
            x1 = R.make_inputs(e, 3, gen, torch.float64, inverse)
            x2 = R.make_inputs(e, 3, gen, torch.float64, inverse)
            c1 = R.make_context(e, 3, gen, torch.float64)
            c2 = R.make_context(e, 3, gen, torch.float64)
            f = t.inverse if inverse else t.forward
            try:
                with torch.no_grad():
                    a1 = x1.clone()
                    y1, l1 = f(a1, c1) if c1 is not None else f(a1)
                    y1c, l1c = y1.clone(), l1.clone()
                    a2 = x2.clone()
                    y2, l2 = f(a2, c2) if c2 is not None else f(a2)
            except Exception:
                continue
            case = {'entry': e.name, 'mask': mask, 'inverse': inverse, 'history': ['y1 = call(x1)', 'y2 = call(x2)', 'read y1'],
                    'x1': x1.reshape(-1).tolist()[:12], 'x2': x2.reshape(-1).tolist()[:12]}
            bad = None
            if not torch.equal(y1[:, ident], x1[:, ident]) or not torch.equal(y1, y1c) or not torch.equal(l1, l1c):
                bad = 'the result of a first no-grad call, still held, changed when the layer was called again: its identity features are no longer the inputs it was computed from'
            elif not torch.equal(a1, x1) or not torch.equal(a2, x2):
                bad = 'a no-grad call wrote into its input tensor'
            if report is None:
                ctx.case(key=('held', e.name, inverse), branch='held-results', nontrivial=True, n=int(x1.numel()))
                if bad:
                    ctx.disagree('C07/held-results', case, bad, 'unchanged', bad)
            elif bad:
                report(bad, case, {'class': cls, 'symptom': 'held-result-changed'})
        if e.ctx is None or len(e.in_shape) != 1:
            continue
        N = 5000
        x = R.make_inputs(e, N, gen, torch.float64, False)
        c = R.make_context(e, N, gen, torch.float64)
        rec = R.Recorder(t.transform_net)
        with torch.no_grad():
            kind, y, ld = R.impl_call(t, x, c, False)
        rec.close()
        if kind != 'ok' or not rec.calls or any(len(call[0]) < 2 or not torch.is_tensor(call[0][1]) for call in rec.calls):
            continue
        got_id = torch.cat([call[0][0] for call in rec.calls], 0)
        got_c = torch.cat([call[0][1] for call in rec.calls], 0)
        bad = None
        if got_id.shape != x[:, ident].shape or not torch.equal(got_id, x[:, ident]):
            bad = 'on a batch of %d rows the conditioner was not given the identity features row by row' % N
        elif got_c.shape != c.shape or not torch.equal(got_c, c):
            r = int((got_c != c).any(1).nonzero()[0]) if got_c.shape == c.shape else -1
            bad = 'on a batch of %d rows the conditioner was given, for row %d, the context of another row' % (N, r)
        case = {'entry': e.name, 'mask': mask, 'rows': N, 'conditioner_calls': len(rec.calls)}
        if report is None:
            ctx.case(key=('long-context', e.name), branch='long-batch-context', nontrivial=True, n=N)
            if bad:
                ctx.disagree('C07/long-batch-context', case, bad, 'row-aligned', bad)
        elif bad:
            report(bad, case, {'class': cls, 'symptom': 'context-row-mismatch'})


def mask_history(ctx, gen, report=None):
    """the split is the one of the mask GIVEN AT CONSTRUCTION: a caller who builds several layers from one mask tensor / array and flips
    it in place between them (as SimpleRealNVP does with `mask *= -1`) must get layers that keep their own split — identity features of
    the original mask stay bit-identical, its transformed features are transformed; and the layers of SimpleRealNVP alternate"""
    import numpy as np
    import nflows.transforms as T
    from nflows.flows.realnvp import SimpleRealNVP
    from nflows.transforms.coupling import CouplingTransform
    makers = {'AffineCoupling': lambda m: T.AffineCouplingTransform(m, R.net_fn('res', None, 4)),
              'AdditiveCoupling': lambda m: T.AdditiveCouplingTransform(m, R.net_fn('res', None, 4)),
              'rqCoupling': lambda m: T.PiecewiseRationalQuadraticCouplingTransform(m, R.net_fn('res', None, 4), num_bins=3, tails='linear', tail_bound=2.0)}
    for cls, mk in makers.items():
        for src in ('float-tensor', 'int-tensor', 'numpy'):
            for pat in ([1, -1, 1, -1], [-1, -1, 1], [1, 0]):
                m = {'float-tensor': lambda: torch.tensor([float(v) for v in pat]), 'int-tensor': lambda: torch.tensor(pat),
                     'numpy': lambda: np.array(pat, dtype=np.float32)}[src]()
                torch.manual_seed(int(torch.randint(0, 2 ** 31 - 1, (1,), generator=gen)))
                t = mk(m)
                m *= -1                      # the caller re-uses its mask object for the next layer
                R.perturb(t, 'normal', gen); t = t.double().eval()
                ident = [i for i, v in enumerate(pat) if v <= 0]
                trans = [i for i, v in enumerate(pat) if v > 0]
                x = torch.randn(3, len(pat), generator=gen, dtype=torch.float64)
                why = None
                for inverse in (False, True):
                    k, y, ld = R.impl_call(t, x, None, inverse)
                    if k != 'ok':
                        why = 'raised %s' % k; break
                    if not torch.equal(y[:, ident], x[:, ident]):
                        why = 'features that the construction-time mask marks as identity were changed'; break
                    if bool((y[:, trans] == x[:, trans]).all()):
                        why = 'features that the construction-time mask marks as transformed pass through unchanged'; break
                case = {'class': cls, 'mask': pat, 'mask_source': src, 'history': ['layer = %s(mask, ...)' % cls, 'mask *= -1', 'layer(x)'], 'x': x.reshape(-1).tolist()}
                if report is None:
                    ctx.case(key=('mask-history', cls, src, tuple(pat)), branch='mask-history/' + src, nontrivial=True, n=int(x.numel()))
                    if why:
                        ctx.disagree('C07/mask-history', case, why, 'split of the construction-time mask', why)
                elif why:
                    report('%s built from a %s mask that the caller flips in place afterwards: %s' % (cls, src, why), case, {'class': cls, 'symptom': 'mask-aliased'})
    # a checkpoint of a layer restored into a layer built with ANOTHER mask of the same counts (random masks differ between constructions):
    # the restored layer is the saved one — the saved mask's identity features pass through, its transformed features move
    for cls, mk in makers.items():
        for (pa, pb) in (([1, -1, 1, -1], [-1, 1, -1, 1]), ([1, 1, -1], [-1, 1, 1]), ([-1, 1, -1, -1, 1], [1, -1, -1, 1, -1])):
            torch.manual_seed(int(torch.randint(0, 2 ** 31 - 1, (1,), generator=gen)))
            a = mk(torch.tensor([float(v) for v in pa])); R.perturb(a, 'normal', gen); a = a.double().eval()
            b = mk(torch.tensor([float(v) for v in pb])).double().eval()
            why = None
            try:
                b.load_state_dict(a.state_dict())
                ident = [i for i, v in enumerate(pa) if v <= 0]
                trans = [i for i, v in enumerate(pa) if v > 0]
                x = torch.randn(3, len(pa), generator=gen, dtype=torch.float64)
                for inverse in (False, True):
                    ka, ya, la = R.impl_call(a, x, None, inverse)
                    kb, yb, lb = R.impl_call(b, x, None, inverse)
                    if ka != 'ok' or kb != 'ok':
                        why = 'raised %s / %s' % (ka, kb); break
                    if not torch.equal(yb[:, ident], x[:, ident]):
                        why = 'identity features of the saved mask were changed by the restored layer'; break
                    if not (torch.equal(ya, yb) and torch.equal(la, lb)):
                        why = 'the restored layer is not the saved layer'; break
            except Exception as ex:
                why = 'load_state_dict raised %s' % type(ex).__name__
            case = {'class': cls, 'mask': pa, 'mask_of_the_fresh_layer': pb, 'history': ['a = %s(mask_a)' % cls, 'b = %s(mask_b)' % cls, 'b.load_state_dict(a.state_dict())', 'b(x)']}
            if report is None:
                ctx.case(key=('mask-history', cls, 'reload', tuple(pa)), branch='mask-history/reload', nontrivial=True, n=3 * len(pa))
                if why:
                    ctx.disagree('C07/mask-history', case, why, 'split of the saved mask', why)
            elif why:
                report('%s restored into a layer built with another mask of the same counts: %s' % (cls, why), case, {'class': cls, 'symptom': 'mask-after-reload'})
    # SimpleRealNVP: consecutive coupling layers transform complementary halves
    for feats in (2, 5):
        torch.manual_seed(int(torch.randint(0, 2 ** 31 - 1, (1,), generator=gen)))
        flow = SimpleRealNVP(features=feats, hidden_features=6, num_layers=4, num_blocks_per_layer=1, batch_norm_between_layers=False)
        R.perturb(flow, 'normal', gen); flow = flow.double().eval()
        layers = [mod for mod in flow.modules() if isinstance(mod, CouplingTransform)]
        x = torch.randn(3, feats, generator=gen, dtype=torch.float64)
        moved = []
        for L in layers:
            k, y, _ = R.impl_call(L, x, None, False)
            moved.append(None if k != 'ok' else [bool((y[:, i] != x[:, i]).any()) for i in range(feats)])
        want = [[(i % 2 == 1) if (k % 2 == 0) else (i % 2 == 0) for i in range(feats)] for k in range(len(layers))]
        bad = moved != want
        case = {'class': 'SimpleRealNVP', 'features': feats, 'layers': len(layers), 'moved_features_per_layer': moved, 'x': x.reshape(-1).tolist()}
        if report is None:
            ctx.case(key=('mask-history', 'SimpleRealNVP', feats), branch='mask-history/SimpleRealNVP', nontrivial=True, n=int(x.numel()))
            if bad:
                ctx.disagree('C07/mask-history', case, moved, want, 'coupling layers of SimpleRealNVP do not alternate between the two halves')
        elif bad:
            report('SimpleRealNVP(features=%d): the coupling layers do not alternate between the two halves of the features (layer k moves %s)' % (feats, moved),
                   case, {'class': 'SimpleRealNVP', 'symptom': 'mask-aliased'})


def search(ctx):
    """the property's oracle on the implementation: bitwise identity, conditioner input, dependence pattern"""
    import nflows.transforms as T
    gen = torch.Generator().manual_seed(ctx.seed + 77)
    seen_ch = set()
    context_history(ctx, torch.Generator().manual_seed(ctx.seed + 78),
                    report=lambda what, case, match: (ctx.fail(what, case, match=match), seen_ch.add(match['class'])) if match['class'] not in seen_ch else None)
    seen_hr = set()
    held_results(ctx, torch.Generator().manual_seed(ctx.seed + 80),
                 report=lambda what, case, match: (ctx.fail(what, case, match=match), seen_hr.add((match['class'], match['symptom']))) if (match['class'], match['symptom']) not in seen_hr else None)
    seen_mh = set()
    mask_history(ctx, torch.Generator().manual_seed(ctx.seed + 79),
                 report=lambda what, case, match: (ctx.fail(what, case, match=match), seen_mh.add(match['class'])) if match['class'] not in seen_mh else None)
    for e in mask_entries(ctx):
        t = tcorr.build(e, gen, torch.float64, 'normal')
        mask = e.extra['mask']
        ident = [i for i, m in enumerate(mask) if m <= 0]
        trans = [i for i, m in enumerate(mask) if m > 0]
        for inverse in (False, True):
            x = R.make_inputs(e, 2, gen, torch.float64, inverse)
            c = R.make_context(e, 2, gen, torch.float64)
            rec = R.Recorder(t.transform_net)
            kind, y, ld = R.impl_call(t, x, c, inverse)
            rec.close()
            case = {'entry': e.name, 'mask': mask, 'inverse': inverse}
            cls = e.name.split('/')[0]
            if kind != 'ok':
                continue
            if not torch.equal(y[:, ident], x[:, ident]):
                ctx.fail('identity features changed', case, match={'class': cls, 'symptom': 'identity-changed'}); break
            if rec.calls and not torch.equal(rec.calls[0][0][0], x[:, ident]):
                ctx.fail('conditioner was given something other than the identity features', case, match={'class': cls, 'symptom': 'conditioner-input'}); break
            # perturb one transformed feature: other transformed outputs must not move
            if len(trans) >= 2:
                x2 = x.clone(); x2[:, trans[0]] += 0.37
                k2, y2, _ = R.impl_call(t, x2, c, inverse)
                # (not bit-for-bit: moving one feature across a tail bound changes how many elements the masked spline call
                # processes, and torch's vectorised kernels differ in the last ulp between lengths; a real dependence is O(1))
                tolr = (1e-10 * (1 + torch.exp(ld.abs().clamp(max=25)))).reshape(-1, *([1] * (y.dim() - 1)))
                if k2 == 'ok' and bool(((y2[:, trans[1:]] - y[:, trans[1:]]).abs() > tolr * (1 + y[:, trans[1:]].abs())).any()):
                    ctx.fail('transformed feature depends on another transformed feature', case, match={'class': cls, 'symptom': 'cross-dependence'}); break
        if len(ctx.failing) >= 5 or ctx.elapsed() > 600:
            break
