"""C12 — batch items are evaluated independently in evaluation mode.

Theorems: Properties.C12 (masked gather/scatter = row-wise routing, row-wise maps are permutation-equivariant and
insensitive to other rows, layouts).  Correspondence: every modelled transform in eval mode on batches of size 1, 2,
3, 7 with mixed inside/outside-tail rows — the implementation on the whole batch against the (row-wise by
construction) model; and the recorded conditioner outputs of a batch against those of its rows taken one at a time."""
import torch
from harness.common import registry as R, tcorr, oracles

PROPERTY = 'C12'
LEVEL = 'proof'
REQUIRED_THEOREMS = ['Properties.C12.masked_scatter_gather', 'Properties.C12.rowwise_row', 'Properties.C12.rowwise_perm_equivariant',
                     'Properties.C12.rowwise_sublist', 'Properties.C12.img_param_layout', 'Properties.C12.exec_coupling_row_independent', 'Properties.C12.exec_ar_row_independent', 'Properties.C12.exec_cdf_row_independent', 
                     'Properties.C12.exec_ar_accepted_iff_rows', 'Properties.C12.exec_cdf_accepted_iff_rows', 'Properties.C12.exec_coupling_accepted_iff_rows',
    "Properties.C12.luForward_rowwise", "Properties.C12.luInverse_rowwise", "Properties.C12.qrForward_rowwise", "Properties.C12.qrInverse_rowwise", "Properties.C12.svdForward_rowwise", "Properties.C12.svdInverse_rowwise", "Properties.C12.hhForward_rowwise", "Properties.C12.hhInverse_rowwise", "Properties.C12.naiveForward_rowwise", "Properties.C12.naiveInverse_rowwise", "Properties.C12.luForwardLd_pair", "Properties.C12.luInverseLd_pair", "Properties.C12.qrForwardLd_pair", "Properties.C12.qrInverseLd_pair", "Properties.C12.svdForwardLd_pair", "Properties.C12.svdInverseLd_pair", "Properties.C12.hhForwardLd_pair", "Properties.C12.hhInverseLd_pair", "Properties.C12.rowwise_perm", "Properties.C12.pair_rowwise_row_alone", "Properties.C12.bn_eval_forward_row_independent", "Properties.C12.bn_eval_inverse_row_independent", "Properties.C12.act_forward_row_independent", "Properties.C12.act_inverse_row_independent", "Properties.C12.bn_training_not_row_independent", "Properties.C12.act_init_not_row_independent", "Properties.C12.RowIndep_ok_iff", "Properties.C12.stdNormal_logProb_row_independent", "Properties.C12.diagNormal_logProb_row_independent", "Properties.C12.condNormal_logProb_row_independent", "Properties.C12.bern_logProb_row_independent", "Properties.C12.mog_logProb_row_independent", "Properties.C12.flow_logProb_row_independent", "Properties.C12.rowWise_stdNormal_base", "Properties.C12.conv_forward_item_independent", "Properties.C12.conv_inverse_item_independent",
    "Properties.C12.rowWise_cdfStage", "Properties.C12.rowWise_arStage", "Properties.C12.rowWise_couplingStage", "Properties.C12.rowWise_compStage", "Properties.C12.cdfStage_error_first", "Properties.C12.arStage_error_first", "Properties.C12.flowExec_row_independent", "Properties.C12.flowExec_transform_error", "Properties.C12.flowExec_base_error", "Properties.C12.flowExec_raises_iff", "Properties.C12.flowExec_accepted_iff", "Properties.C12.flowExec_composite", "Properties.C12.flowExec_coupling", "Properties.C12.flowExec_ar", "Properties.C12.flowExec_cdf", "Properties.C12.rowIndepBase_stdNormal", "Properties.C12.rowIndepBase_diagNormal", "Properties.C12.rowIndepBase_condNormal",
    "Properties.C12.rowWise_permStage", "Properties.C12.rowWise_permInvStage", "Properties.C12.rowWise_luStage", "Properties.C12.rowWise_qrStage", "Properties.C12.rowWise_svdStage", "Properties.C12.rowWise_hhStage", "Properties.C12.rowWise_naiveStage", "Properties.C12.rowWise_bnEvalStage", "Properties.C12.rowWise_actStage", "Properties.C12.flowExec_act_lu_coupling",
    "Properties.C12.rowWise_arInvStage", "Properties.C12.arInvStage_zero_features_ld",]
RULE = ("registry (eval mode) x batch sizes {1,2,3,7} x {whole batch vs row-wise model, conditioner outputs batch vs single rows, batch permutation}; "
        "rows mix inside-tail / outside-tail / on-the-bound inputs; distinct = (entry, batch size, direction, check kind); non-trivial = output not the identity")
EXPLANATION = "row-wise structure proved for the places the code is not written row by row; tie = whole-batch implementation vs the row-wise Lean model, plus conditioner batch-vs-row comparison"
ASSUMPTIONS = ["BLAS kernels may differ by a few ulp between batch sizes: conditioner outputs are compared to 1e-9 relative",
               "the batch-global domain check (one bad row rejects the batch) is by design; batches are in-domain"]


def correspondence(ctx):
    """thorough tier: several independent generator seeds (the quick tier runs one)"""
    for rep in range(1 if ctx.quick() else 6):
        _correspondence_once(ctx, rep)
        if ctx.elapsed() > 1500:
            break


def _correspondence_once(ctx, rep=0):
    gen = torch.Generator().manual_seed(ctx.seed * 12007 + 12 + 104729 * rep)
    E = R.entries('quick' if ctx.quick() else 'full')
    jobs = []
    side = []
    for e in E:
        t = tcorr.build(e, gen, torch.float64, 'normal')
        for B in (1, 2, 3, 7):
            for inverse in (False, True):
                x = R.make_inputs(e, B, gen, torch.float64, inverse)
                c = R.make_context(e, B, gen, torch.float64)
                if c is not None and B >= 3 and not inverse:
                    c[B - 1] = c[0]          # first and last context rows coincide, the rows between differ
                j = tcorr.make_job(e, t, x, c, inverse, 'normal', tag='B%d' % B)
                jobs.append(j)
                cond = R.conditioner_of(t)
                if cond is not None and j.kind == 'ok' and B > 1 and not (e.kind == 'ar' and inverse):
                    # conditioner is a row-wise function: outputs on the batch vs on single rows
                    rec = R.Recorder(cond); R.impl_call(t, x, c, inverse); rec.close()
                    whole = rec.calls[0][1]
                    i = int(torch.randint(0, B, (1,), generator=gen))
                    if c is not None and B >= 3 and not inverse:
                        i = 1 + int(torch.randint(0, B - 2, (1,), generator=gen))      # a row between the coinciding ones
                    rec = R.Recorder(cond); k1, y1, ld1 = R.impl_call(t, x[i:i + 1], c[i:i + 1] if c is not None else None, inverse); rec.close()
                    if k1 == 'ok' and rec.calls:
                        side.append((e, B, inverse, i, whole[i:i + 1], rec.calls[0][1], j.y[i:i + 1], y1, j.ld[i:i + 1], ld1,
                                     t, x[i:i + 1], c[i:i + 1] if c is not None else None))
    tcorr.run_jobs(jobs)
    for j in jobs:
        tcorr.compare(ctx, j, 'C12', observables=('out', 'ld'))
    for (e, B, inverse, i, pw, p1, yw, y1, lw, l1, t, xi, ci) in side:
        # conditioning: as in tcorr.compare, a row with |log-det| = L moves by ~ulp * exp(L) under a one-ulp change of its parameters
        # (torch's vectorised kernels differ in the last ulp between batch lengths)
        kap = float(1e-15 * torch.exp(lw.abs().clamp(max=60)).max()) if torch.isfinite(lw).all() else 0.0
        ok = torch.allclose(pw, p1, rtol=1e-9, atol=1e-11) and torch.allclose(yw, y1, rtol=1e-8, atol=1e-10 + kap, equal_nan=True) \
            and torch.allclose(lw, l1, rtol=1e-8, atol=1e-9 + kap, equal_nan=True)
        br = 'row-vs-batch'
        if not ok and inverse and e.spline.get('fam') == 'cubic' and torch.allclose(pw, p1, rtol=1e-9, atol=1e-11):
            # the cubic inverse (trigonometric / Cardano roots) is accurate to ~sqrt(ulp) only — declared eps = 1e-5 of its root selection,
            # tolerance 2e-6 as in the transform-level correspondence — and torch's kernels differ in the last ulp between batch lengths
            if torch.allclose(yw, y1, rtol=0, atol=2e-6, equal_nan=True) and torch.allclose(lw, l1, rtol=1e-3, atol=1e-3 + 1e9 * kap, equal_nan=True):
                ok = True; br = 'row-vs-batch/cubic-root-accuracy'
        if not ok and inverse and torch.allclose(pw, p1, rtol=1e-9, atol=1e-11):
            # an ill-conditioned inverse (a nearly flat bin) amplifies the last-ulp differences between the vectorised and the
            # scalar kernels torch uses for different batch sizes: accept when BOTH answers are preimages of the row in the
            # backward-error sense — the forward map, evaluated on each answer alone, returns the row and the negated log-det
            def preimage(yy, ll):
                k, fy, fl = R.impl_call(t, yy, ci, False)
                return k == 'ok' and torch.allclose(fy, xi, rtol=1e-8, atol=1e-9) and torch.allclose(fl, -ll, rtol=1e-7, atol=1e-7)
            if bool(torch.isfinite(yw).all() and torch.isfinite(y1).all()) and preimage(yw, lw) and preimage(y1, l1):
                ok = True; br = 'row-vs-batch/backward-error'
        ctx.case(key=('rowvsbatch', e.name, B, inverse), branch=br, nontrivial=True, n=int(yw.numel()))
        if not ok:
            ctx.disagree('C12/row-vs-batch', {'entry': e.name, 'B': B, 'row': i, 'inverse': inverse},
                         {'out': yw.reshape(-1).tolist()[:6]}, {'out': y1.reshape(-1).tolist()[:6]}, 'row of the batch result differs from evaluating the row alone')
    _extras(ctx)
    if rep == 0:
        dist_rows(ctx)
        long_batches(ctx, count=True)


def long_batches(ctx, count=False):
    """ONE call on a very long batch (66000 rows: more than 2^16, not a multiple of 2^12 or 2^16): an implementation that processes long
    batches in blocks must pair every block with its own rows of the context and must not leave a partial last block unprocessed.
    Rows at the block borders, evaluated alone, must reproduce their entries of the batch result."""
    import copy
    gen = torch.Generator().manual_seed(ctx.seed + 1213)
    N = 66000
    idx = [0, 4095, 4096, 8191, 8192, 65535, 65536, N - 1]
    seen = set()
    before = len(ctx.failing)
    for e in oracles.all_entries('quick'):
        cls = e.name.split('/')[0]
        numel = 1
        for d_ in e.in_shape:
            numel *= d_
        key = (cls, e.ctx is not None, e.spline.get('fam'), bool(e.spline.get('B')))
        if e.extra.get('big') or e.extra.get('train') or numel > 8 or key in seen or 'UMNN' in e.name or not (e.ctx is not None or e.spline):
            continue
        seen.add(key)
        try:
            t = tcorr.build(e, gen, torch.float64, 'normal')
            for inverse in (False, True):
                x = R.make_inputs(e, N, gen, torch.float64, inverse)
                c = R.make_context(e, N, gen, torch.float64)
                with torch.no_grad():
                    k, y, ld = R.impl_call(copy.deepcopy(t), x, c, inverse)
                if k != 'ok':
                    continue
                if count:
                    ctx.case(key=('long-batch', e.name, inverse), branch='long-batch', nontrivial=True, n=len(idx))
                tol = dict(rtol=1e-4, atol=1e-4) if e.spline.get('fam') == 'cubic' and inverse else dict(rtol=1e-6, atol=1e-8)
                for i in idx:
                    ci = c[i:i + 1] if c is not None else None
                    with torch.no_grad():
                        k1, y1, l1 = R.impl_call(copy.deepcopy(t), x[i:i + 1], ci, inverse)
                    if k1 != 'ok':
                        continue
                    same = torch.allclose(y1, y[i:i + 1], equal_nan=True, **tol) and torch.allclose(l1, ld[i:i + 1], equal_nan=True, **tol)
                    if not same and inverse and bool(torch.isfinite(y1).all() and torch.isfinite(y[i:i + 1]).all()):
                        # ill-conditioned inverse: both answers are preimages in the backward-error sense
                        def pre(yy, ll):
                            kf, fy, fl = R.impl_call(copy.deepcopy(t), yy, ci, False)
                            return kf == 'ok' and torch.allclose(fy, x[i:i + 1], rtol=1e-8, atol=1e-8) and torch.allclose(fl, -ll, rtol=1e-5, atol=1e-5)
                        same = pre(y1, l1) and pre(y[i:i + 1], ld[i:i + 1])
                    if not same:
                        ctx.fail('row %d of a batch of %d rows differs from evaluating the row alone' % (i, N),
                                 {'entry': e.name, 'inverse': inverse, 'rows': N, 'row': i, 'x': x[i].reshape(-1).tolist()[:12],
                                  'context': ci.reshape(-1).tolist()[:12] if ci is not None else None,
                                  'batch': y[i].reshape(-1).tolist()[:6], 'alone': y1.reshape(-1).tolist()[:6]},
                                 match={'class': cls, 'symptom': 'row-dependence', 'rows': 'long'})
                        break
        except Exception as ex:
            ctx.notes.append('C12 long-batch oracle on %s raised %r' % (e.name, ex))
        if len(ctx.failing) - before >= 4:
            break
    if count:
        for f_ in ctx.failing[before:]:
            if not ctx.is_known(f_.get('match', {})):
                ctx.disagree('C12/long-batch', f_['case'], f_['what'], 'property holds', f_['what'])


def search(ctx):
    dist_rows(ctx, report=lambda what, case, match: ctx.fail(what, case, match=match))
    long_batches(ctx)
    direct(ctx)


def dist_rows(ctx, report=None):
    """log-probabilities of distributions and small flows: row i of log_prob(batch) equals log_prob(row i alone) — batches that mix
    ordinary rows with a row far in the tails (|x| ~ 15 standard deviations), both precisions; noise of flows likewise"""
    from nflows.distributions import normal, mixture
    from nflows.flows.base import Flow
    from nflows.flows.autoregressive import MaskedAutoregressiveFlow
    import nflows.transforms as T
    gen = torch.Generator().manual_seed(ctx.seed + 1212)
    D = 3
    def mk():
        torch.manual_seed(ctx.seed + 5)
        return [('StandardNormal', normal.StandardNormal([D]), None), ('DiagonalNormal', normal.DiagonalNormal([D]), None),
                ('ConditionalDiagonalNormal', normal.ConditionalDiagonalNormal([D]), 2 * D),
                ('MADEMoG', mixture.MADEMoG(D, 16, 2, num_blocks=2, num_mixture_components=4, custom_initialization=True), 2),
                ('MADEMoG/noctx', mixture.MADEMoG(D, 16, None, num_blocks=2, num_mixture_components=4, custom_initialization=True), None),
                ('Flow(affine,MADEMoG)', Flow(T.PointwiseAffineTransform(0.5, 2.0), mixture.MADEMoG(D, 8, None, num_blocks=1, num_mixture_components=2)), None),
                ('MaskedAutoregressiveFlow', MaskedAutoregressiveFlow(D, 8, 2, 1), None),
                # a conditional flow with an embedding network (the context batch below REPEATS a row, not grouped and not sorted)
                ('Flow(MAAT,StandardNormal,embedding_net)', Flow(T.MaskedAffineAutoregressiveTransform(D, 8, context_features=3, num_blocks=1),
                                                                normal.StandardNormal([D]), embedding_net=torch.nn.Sequential(torch.nn.Linear(2, 3), torch.nn.Tanh())), 2),
                ('Flow(affine,ConditionalDiagonalNormal,embedding_net)', Flow(T.PointwiseAffineTransform(0.5, 2.0), normal.ConditionalDiagonalNormal([D]),
                                                                              embedding_net=torch.nn.Linear(2, 2 * D)), 2)]
    for dt in (torch.float32, torch.float64):
        for name, d, cw in mk():
            d = d.to(dt); d.eval()
            x = torch.randn(4, D, generator=gen, dtype=torch.float64).to(dt)
            x[2] = torch.tensor([20.0, -18.0, 19.0], dtype=dt)            # one row far in the tails (finite log-density in both precisions)
            c = None if cw is None else (0.5 * torch.randn(4, cw, generator=gen, dtype=torch.float64)).to(dt)
            if c is not None:
                c[3] = c[0] + 1.0       # rows in decreasing-then-increasing order ...
                c[2] = c[0]             # ... with one row occurring twice, not adjacent
            tol = dict(rtol=2e-5, atol=2e-5) if dt == torch.float32 else dict(rtol=1e-10, atol=1e-10)
            try:
                with torch.no_grad():
                    whole = d.log_prob(x, context=c)
                    rows = torch.cat([d.log_prob(x[i:i + 1], context=None if c is None else c[i:i + 1]) for i in range(4)])
                    sub = d.log_prob(x[1:3], context=None if c is None else c[1:3])
                ok = bool(torch.allclose(whole, rows, equal_nan=True, **tol) and torch.equal(torch.isfinite(whole), torch.isfinite(rows))
                          and torch.allclose(sub, rows[1:3], equal_nan=True, **tol))
                got, want = whole.tolist(), rows.tolist()
            except Exception as ex:
                ok, got, want = False, 'raised %r' % (ex,), None
            case = {'class': name, 'dtype': str(dt), 'x': x.reshape(-1).tolist(), 'rows': 4}
            if report is None:
                ctx.case(key=('dist-rows', name, str(dt)), branch='dist-rows/%s' % ('f32' if dt == torch.float32 else 'f64'), nontrivial=True, n=4)
                if not ok:
                    ctx.disagree('C12/dist-rows', case, got, want, 'log_prob of a batch differs from log_prob of its rows evaluated alone')
            elif not ok:
                report('log_prob(batch) of %s (%s) differs from its rows evaluated alone: %s vs %s' % (name, dt, got, want), case,
                       {'class': name.split('/')[0].split('(')[0], 'symptom': 'row-dependence', 'dtype': str(dt)})


def _extras(ctx):
    oracles.direct_on_extras(ctx, 'C12', lambda c, entries=None, count=False: direct(c, entries, count))


def direct(ctx, entries=None, count=False):
    gen = torch.Generator().manual_seed(ctx.seed + 1212)
    for e in (entries if entries is not None else oracles.all_entries('quick')):
        if e.extra.get('big'):
            continue
        try:
            t = tcorr.build(e, gen, torch.float64, 'normal')
            for inverse in (False, True):
                if inverse and e.name.startswith('Squeeze'):
                    continue
                B = 5
                x = R.make_inputs(e, B, gen, torch.float64, inverse)
                c = R.make_context(e, B, gen, torch.float64)
                if c is not None and not inverse:
                    c[B - 1] = c[0]          # first and last context rows coincide, the rows between differ
                if e.extra.get('train'):
                    continue
                import copy
                # every evaluation on its own deep copy: in evaluation mode the state may not change, so copies are equivalent
                k, y, ld = R.impl_call(copy.deepcopy(t), x, c, inverse)
                if k != 'ok':
                    continue
                if count:
                    ctx.case(key=('direct-rows', e.name, inverse), branch='direct-row-vs-batch', nontrivial=True, n=int(x.numel()))
                cls = e.name.split('/')[0]
                tol = dict(rtol=1e-7, atol=1e-9) if 'UMNN' not in e.name else dict(rtol=1e-3, atol=1e-4)
                if e.spline.get('fam') == 'cubic' and inverse:
                    # the trigonometric / Cardano root is accurate to ~sqrt(ulp) only (declared eps = 1e-5 of the root selection); torch's
                    # vectorised kernels differ in the last ulp between batch lengths and the root amplifies that
                    tol = dict(rtol=1e-4, atol=1e-4)
                def same_row(ya, la, yb, lb, xi, ci):
                    """equal within tolerance — or, for an inverse at an ill-conditioned point (a nearly flat bin: |log-det| in the teens), both
                    answers are preimages of the row in the backward-error sense (forward of each returns the row and the negated log-det)"""
                    if torch.allclose(ya, yb, **tol) and torch.allclose(la, lb, **tol):
                        return True
                    if not inverse or not bool(torch.isfinite(ya).all() and torch.isfinite(yb).all()):
                        return False
                    for yy, ll in ((ya, la), (yb, lb)):
                        kf, fy, fl = R.impl_call(copy.deepcopy(t), yy, ci, False)
                        if kf != 'ok' or not torch.allclose(fy, xi, rtol=1e-8, atol=1e-8) or not torch.allclose(fl, -ll, rtol=1e-5, atol=1e-5):
                            return False
                    return True
                for i in (0, 2, B - 1):
                    ci = c[i:i + 1] if c is not None else None
                    k1, y1, l1 = R.impl_call(copy.deepcopy(t), x[i:i + 1], ci, inverse)
                    if k1 != 'ok' or not same_row(y1, l1, y[i:i + 1], ld[i:i + 1], x[i:i + 1], ci):
                        ctx.fail('row %d of the batch result differs from evaluating the row alone' % i, {'entry': e.name, 'inverse': inverse, 'x': x.reshape(-1).tolist()[:12]},
                                 match={'class': cls, 'symptom': 'row-dependence'})
                        break
                # the same on ONE instance (what a user does): the batch, then a row alone, then the batch again
                ts = copy.deepcopy(t)
                ka, ya, la = R.impl_call(ts, x, c, inverse)
                kb, yb, lb = R.impl_call(ts, x[1:2], c[1:2] if c is not None else None, inverse)
                kc, yc, lc = R.impl_call(ts, x, c, inverse)
                if ka == 'ok' and (kb != 'ok' or kc != 'ok' or not torch.allclose(yb, ya[1:2], **tol) or not torch.allclose(lb, la[1:2], **tol)
                                   or not torch.allclose(yc, ya, **tol) or not torch.allclose(lc, la, **tol)):
                    ctx.fail('on one instance, a row evaluated after its batch (or the batch evaluated again) gives a different result',
                             {'entry': e.name, 'inverse': inverse, 'x': x.reshape(-1).tolist()[:12]}, match={'class': cls, 'symptom': 'row-dependence-same-instance'})
                # the batch handed over as a dense non-contiguous tensor (a transposed batch / channels-last image): rows still evaluated alone
                xn = tcorr.noncontiguous(x)
                if xn is not None:
                    kn_, yn, ln = R.impl_call(copy.deepcopy(t), xn, c, inverse)
                    if kn_ == 'ok':
                        for i in (0, B - 1):
                            k1, y1, l1 = R.impl_call(copy.deepcopy(t), x[i:i + 1], c[i:i + 1] if c is not None else None, inverse)
                            if k1 != 'ok' or not same_row(y1, l1, yn[i:i + 1], ln[i:i + 1], x[i:i + 1], c[i:i + 1] if c is not None else None):
                                ctx.fail('row %d of a non-contiguous batch differs from evaluating the row alone' % i,
                                         {'entry': e.name, 'inverse': inverse, 'layout': 'noncontiguous', 'x': x.reshape(-1).tolist()[:12]},
                                         match={'class': cls, 'symptom': 'row-dependence', 'layout': 'noncontiguous'})
                                break
                    else:
                        ctx.fail('a non-contiguous batch raises %s, the contiguous one does not' % kn_, {'entry': e.name, 'inverse': inverse},
                                 match={'class': cls, 'symptom': 'raises', 'layout': 'noncontiguous'})
                perm = torch.randperm(B, generator=gen)
                kp, yp, lp = R.impl_call(copy.deepcopy(t), x[perm], c[perm] if c is not None else None, inverse)
                if kp != 'ok' or not torch.allclose(yp, y[perm], **tol) or not torch.allclose(lp, ld[perm], **tol):
                    ctx.fail('not equivariant under a batch permutation', {'entry': e.name, 'inverse': inverse}, match={'class': cls, 'symptom': 'perm'})
        except Exception as ex:
            ctx.notes.append('C12 oracle on %s raised %r' % (e.name, ex))
        if len(ctx.failing) >= 6 or ctx.elapsed() > 900:
            break
