"""C04 — samples and densities of a flow agree, row by row.

Theorems: Properties.C04 — index algebra of repeat_rows / merge_leading_dims / split_leading_dim; for every number R of
context rows and every n: Flow.sample / Flow.sample_and_log_prob / Distribution.sample_and_log_prob pair noise block i,
draw j with (embedded) context row i; returned log-prob = base log-density - inverse log-abs-det, and (given C02's
ldInv = -ld o inv, T o T^-1 = id) equals log_prob(sample, context row i); push-forward: P(sample in A) = int_A exp(log_prob).
Correspondence: (a) the real Flow / Distribution plumbing run on TAGGED integer tensors, compared exactly with the Lean
model's answer to "who is paired with whom" (op c04_pair); (b) real flows with context-dependent transforms: the base
noise is reproduced by re-seeding, and samples / log-probs are recomputed row by row along the pairing the Lean model
dictates, to a tolerance."""
import math
import torch
from torch import nn
from harness.common import leandriver, distflows as DF
from nflows.distributions.base import Distribution
from nflows.flows.base import Flow
from nflows.transforms.base import Transform

PROPERTY = 'C04'
LEVEL = 'proof'
REQUIRED_THEOREMS = [
    'Properties.C04.pairing', 'Properties.C04.flow_sample_pairing', 'Properties.C04.flow_sample_and_log_prob_pairing',
    'Properties.C04.flow_sample_and_log_prob_consistent', 'Properties.C04.flow_sample_and_log_prob_consistent_noctx',
    'Properties.C04.dist_sample_and_log_prob_pairing', 'Properties.C04.tagged_pairing',
    'Properties.C04.sample_event_probability_1d', 'Properties.C04.sample_cdf_1d', 'Properties.C04.pushforward_density_1d',
                     'Properties.C04.flow_samples_follow_logprob', 'Properties.C04.flow_samples_follow_logprob_on', 'Properties.C04.conditional_flow_samples_follow_logprob', 'Properties.C04.flow_block_follows_conditional_density', 'Properties.C04.rq_flow_salp_consistent',
    "Properties.C04.flowSalpExec_pairing", "Properties.C04.flowSalpExec_consistent",
    "Properties.C04.roundTripStage_cdf_short_false", "Properties.C04.roundTrip_couplingStage", "Properties.C04.roundTrip_couplingStage_affine", "Properties.C04.roundTrip_couplingStage_additive", "Properties.C04.roundTrip_couplingStage_rqTails", "Properties.C04.roundTrip_compStage", "Properties.C04.roundTrip_nonlinStage_exp", "Properties.C04.roundTrip_nonlinStage_affine", "Properties.C04.roundTrip_nonlinStage_leakyRelu", "Properties.C04.roundTrip_nonlinStage_tanh", "Properties.C04.roundTrip_cdfStage_rqTails", "Properties.C04.flowSalpExec_consistent_on", "Properties.C04.flowSalpExec_consistent_coupling", "Properties.C04.flowSalpExec_consistent_coupling_affine", "Properties.C04.flowSalpExec_consistent_coupling_additive", "Properties.C04.flowSalpExec_consistent_coupling_rqTails",
    "Properties.C04.roundTrip_arStage", "Properties.C04.roundTrip_arStage_affine", "Properties.C04.roundTrip_arStage_rq", "Properties.C04.roundTrip_arStage_rqTails", "Properties.C04.flowSalpExec_consistent_ar", "Properties.C04.flowSalpExec_consistent_ar_affine", "Properties.C04.flowSalpExec_consistent_ar_rq", "Properties.C04.flowSalpExec_consistent_ar_rqTails",
    "Properties.C04.roundTrip_permStage", "Properties.C04.roundTrip_actStage", "Properties.C04.roundTrip_bnEvalStage", "Properties.C04.roundTrip_bnEvalStage_of_eps_pos", "Properties.C04.roundTrip_luStage", "Properties.C04.roundTrip_qrStage", "Properties.C04.roundTrip_svdStage", "Properties.C04.roundTrip_hhStage", "Properties.C04.roundTrip_naiveStage", "Properties.C04.roundTrip_nonlinStage_sigmoid", "Properties.C04.roundTrip_nonlinStage_logit", "Properties.C04.roundTrip_nonlinStage_cauchy", "Properties.C04.roundTrip_nonlinStage_cauchyInverse", "Properties.C04.roundTrip_nonlinStage_logTanh", "Properties.C04.roundTrip_glow", "Properties.C04.rowWise_glowFwd", "Properties.C04.rowWise_glowInv", "Properties.C04.flowSalpExec_consistent_glow", "Properties.C04.flowSalpExec_consistent_glow_block",]
RULE = ("(a) tagged: Flow(tag transform, tag base[, tag embedding]) and the default Distribution.sample_and_log_prob on integer-tagged "
        "tensors for R in 1..5 context rows (and none) x n in 1..7 x embedding on/off x {sample_and_log_prob, sample}; every output "
        "entry decodes to (noise draw, context row) pairs compared exactly with the Lean model; (b) seeded: every flow configuration "
        "with a context-dependent transform (masked affine autoregressive, affine coupling with context, element-wise context affine) "
        "over StandardNormal / ConditionalDiagonalNormal, with and without embedding net, event shapes [1],[2],[3],[2,2], randomised "
        "weights, x R in none,1..5 x n in 1..7: noise reproduced by re-seeding, samples and log-probs recomputed row by row along the "
        "model's pairing; a case is distinct by (configuration, R, n, call) and non-trivial when R >= 2 and n >= 2 (a tile-vs-repeat "
        "mix-up is then visible) or, without context, n >= 2")
EXPLANATION = ("Lean theorems about the executed list-level model for all R, n and arbitrary row functions; push-forward theorems via "
               "Mathlib's change of variables; tie = exact tagged run of the real plumbing + seeded reproduction on real flows")
ASSUMPTIONS = [
    "transforms, log-densities and embedding nets act row by row in evaluation mode (property C12)",
    "torch.randn / torch.rand draw from their nominal distributions and re-seeding reproduces the draw (RNG trusted)",
    "the law of large numbers linking empirical distribution functions to probabilities is not formalised; the statistical "
    "clause is tied to the code by the seeded reproduction and (thorough tier search) a Kolmogorov-Smirnov test with a threshold "
    "at the 1e-9 level (20000 draws, distance > 0.025)",
    "differentiability / bijectivity of the transform and ldInv = -ld o inv are hypotheses here (properties C01, C02)",
]

TOL = 1e-8


# ---- tagged doubles: integer-valued tensors through the real Flow / Distribution / torchutils code -----------------
class TagBase(Distribution):
    """'noise' = the flat draw index; log_prob = 1000*noise + context tag; the tag transform returns
    1000*noise + context tag as the sample and 7*noise + 3*context tag + 500000 as log-abs-det, so every output entry
    decodes uniquely to the (noise draw, context row) pairs it was computed from (all exact in float64)"""

    def _sample(self, num_samples, context):
        if context is None:
            return torch.arange(num_samples, dtype=torch.float64).reshape(num_samples, 1)
        R = context.shape[0]
        return torch.arange(R * num_samples, dtype=torch.float64).reshape(R, num_samples, 1)

    def _log_prob(self, inputs, context):
        c = 0.0 if context is None else context[:, 0]
        return inputs[:, 0] * 1000.0 + c


class TagTransform(Transform):
    def forward(self, inputs, context=None):
        raise NotImplementedError()

    def inverse(self, inputs, context=None):
        c = torch.zeros(inputs.shape[0], 1, dtype=inputs.dtype) if context is None else context[:, :1]
        return inputs * 1000.0 + c, inputs[:, 0] * 7.0 + c[:, 0] * 3.0 + 500000.0


class TagEmb(nn.Module):
    def __init__(self, shift):
        super().__init__()
        self.shift = shift

    def forward(self, c):
        return c + self.shift


def tagged(ctx):
    reqs, metas = [], []
    Rs = [1, 2, 3, 4, 5]
    ns = [1, 2, 3, 4, 5, 6, 7]
    for shift in (0, 100):
        flow = Flow(TagTransform(), TagBase(), embedding_net=TagEmb(shift) if shift else None)
        for R in Rs:
            c = torch.arange(R, dtype=torch.float64).reshape(R, 1)
            for n in ns:
                for mode in (0, 1):
                    try:
                        if mode == 0:
                            s, l = flow.sample_and_log_prob(n, context=c)
                            impl = {'dims': list(s.shape[:2]) + list(l.shape), 's': s.reshape(-1).tolist(), 'l': l.reshape(-1).tolist()}
                        else:
                            s = flow.sample(n, context=c)
                            impl = {'dims': list(s.shape[:2]), 's': s.reshape(-1).tolist(), 'l': []}
                    except Exception as e:
                        impl = {'error': DF.err_kind(e)}
                    reqs.append({'op': 'c04_pair', 'i': [R, n, shift, mode]})
                    metas.append((('flow', shift, R, n, mode), impl))
    # large requests (tens of thousands of merged rows in one call): same pairing
    for shift, R, n, mode in ((100, 3, 6000, 0), (0, 2, 9001, 1), (0, 5, 4000, 0)):
        flow = Flow(TagTransform(), TagBase(), embedding_net=TagEmb(shift) if shift else None)
        c = torch.arange(R, dtype=torch.float64).reshape(R, 1)
        try:
            if mode == 0:
                s, l = flow.sample_and_log_prob(n, context=c)
                impl = {'dims': list(s.shape[:2]) + list(l.shape), 's': s.reshape(-1).tolist(), 'l': l.reshape(-1).tolist()}
            else:
                s = flow.sample(n, context=c)
                impl = {'dims': list(s.shape[:2]), 's': s.reshape(-1).tolist(), 'l': []}
        except Exception as e:
            impl = {'error': DF.err_kind(e)}
        reqs.append({'op': 'c04_pair', 'i': [R, n, shift, mode]})
        metas.append((('flow', shift, R, n, mode), impl))
    base = TagBase()
    for R in Rs:
        c = torch.arange(R, dtype=torch.float64).reshape(R, 1)
        for n in ns:
            try:
                s, l = base.sample_and_log_prob(n, context=c)
                impl = {'dims': list(s.shape[:2]) + list(l.shape), 's': s.reshape(-1).tolist(), 'l': l.reshape(-1).tolist()}
            except Exception as e:
                impl = {'error': DF.err_kind(e)}
            reqs.append({'op': 'c04_pair', 'i': [R, n, 0, 2]})
            metas.append((('dist', 0, R, n, 2), impl))
    flow0 = Flow(TagTransform(), TagBase())
    for n in ns:
        try:
            s, l = flow0.sample_and_log_prob(n)
            impl = {'dims': [s.shape[0], l.shape[0]], 's': s.reshape(-1).tolist(), 'l': l.reshape(-1).tolist()}
        except Exception as e:
            impl = {'error': DF.err_kind(e)}
        reqs.append({'op': 'c04_pair', 'i': [0, n, 0, 3]})
        metas.append((('flow-noctx', 0, None, n, 3), impl))
    resps = leandriver.call(reqs)
    for ((kind, shift, R, n, mode), impl), resp in zip(metas, resps):
        f0, f1 = resp['f'][0], resp['f'][1]
        if mode in (0, 1):      # samples: (noise tag, ctx tag) ; logp: [z1, e1, z2, e2]
            s = [f0[2 * k] * 1000.0 + f0[2 * k + 1] for k in range(len(f0) // 2)]
            l = [(f1[4 * k] * 1000.0 + f1[4 * k + 1]) - (f1[4 * k + 2] * 7.0 + f1[4 * k + 3] * 3.0 + 500000.0) for k in range(len(f1) // 4)]
        elif mode == 2:         # default Distribution.sample_and_log_prob: samples are the noise itself
            s = [float(z) for z in f0]
            l = [f1[2 * k] * 1000.0 + f1[2 * k + 1] for k in range(len(f1) // 2)]
        else:
            s = [z * 1000.0 for z in f0]
            l = [f1[2 * k] * 1000.0 - (f1[2 * k + 1] * 7.0 + 500000.0) for k in range(len(f1) // 2)]
        model = {'dims': resp['i'], 's': s, 'l': l}
        case = {'kind': kind, 'emb_shift': shift, 'R': R, 'n': n, 'mode': mode}
        nontrivial = n >= 2 and (R is None or R >= 2)
        ctx.case(key=('tagged', kind, shift, R, n, mode), branch='tagged/%s' % kind, nontrivial=nontrivial,
                 sample=dict(case, impl=impl, model=model) if (R == 2 and n == 3 and mode == 0 and shift == 100) else None)
        if impl != model:
            ctx.disagree('c04/tagged', case, impl, model, 'pairing of noise draws and context rows differs from the model')


# ---- seeded reproduction on real flows ---------------------------------------------------------------------------
def flow_cfgs(seed, rep=0):
    gen = torch.Generator().manual_seed(seed * 31 + 4 + rep * 7919)
    cfgs = DF.configs(events=((1,), (2,), (3,), (2, 2)), gen=gen, randomize=True)
    return [c for c in cfgs if c.model['k'] == 'Flow' and (c.ctx_dependent or not c.supports_ctx)], gen


def pairing_model(Rn_list):
    """ask the Lean model, for each (R, n), which flat noise draw and which context row every output entry uses"""
    reqs = [{'op': 'c04_pair', 'i': [R, n, 0, 0]} for (R, n) in Rn_list]
    out = {}
    for (R, n), resp in zip(Rn_list, leandriver.call(reqs)):
        f0, f1 = resp['f'][0], resp['f'][1]
        K = len(f0) // 2
        out[(R, n)] = {
            'dims': resp['i'],
            'sz': [f0[2 * k] for k in range(K)], 'se': [f0[2 * k + 1] for k in range(K)],
            'bz': [f1[4 * k] for k in range(K)], 'be': [f1[4 * k + 1] for k in range(K)],
            'lz': [f1[4 * k + 2] for k in range(K)], 'le': [f1[4 * k + 3] for k in range(K)],
        }
    return out


def close(a, b, tol=TOL):
    return a.shape == b.shape and bool(torch.all((a - b).abs() <= tol * (1 + a.abs().max() + b.abs())))


def seeded_case(flow, cfg, R, n, seed, gen, pm):
    """-> list of (what, detail) disagreements with the model-dictated recomputation; [] if all agree"""
    bad = []
    ev = cfg.event
    with torch.no_grad():
        if R is None:
            torch.manual_seed(seed)
            samples, lp = flow.sample_and_log_prob(n)
            torch.manual_seed(seed)
            samples_b = flow.sample(n)
            torch.manual_seed(seed)
            noise = flow._distribution.sample(n)
            x, lad = flow._transform.inverse(noise, context=None)
            blp = flow._distribution.log_prob(noise)
            if not close(samples, x):
                bad.append(('samples != T^-1(noise)', float((samples - x).abs().max()) if samples.shape == x.shape else 'shape'))
            if not close(lp, blp - lad):
                bad.append(('log_prob != base.log_prob(noise) - logabsdet_inverse', float((lp - (blp - lad)).abs().max()) if lp.shape == blp.shape else 'shape'))
            if not close(samples_b, x):
                bad.append(('sample() != T^-1(noise)', 'values'))
            direct = flow.log_prob(samples) if samples.shape == x.shape else None
            if direct is None or not close(lp, direct, 1e-6):
                bad.append(('returned log_prob != log_prob(samples)', 'values'))
            bad += batched_case(flow, n, None, seed, 0)
            return bad
        c = torch.randn(R, cfg.ctxw, generator=gen) * 0.7
        torch.manual_seed(seed)
        samples, lp = flow.sample_and_log_prob(n, context=c)
        torch.manual_seed(seed)
        samples_b = flow.sample(n, context=c)
        e = flow._embedding_net(c)
        torch.manual_seed(seed)
        noise = flow._distribution.sample(n, context=e)          # [R, n] + event, flat draw i*n+j at [i, j]
        if list(noise.shape) != [R, n] + ev:
            return [('base noise has unexpected shape', list(noise.shape))]
        flat = noise.reshape(R * n, *ev)
        m = pm[(R, n)]
        if list(samples.shape) != m['dims'][:2] + ev or list(lp.shape) != m['dims'][2:]:
            return [('shapes differ from the model', [list(samples.shape), list(lp.shape), m['dims']])]
        x, _ = flow._transform.inverse(flat[m['sz']], context=e[m['se']])
        _, lad = flow._transform.inverse(flat[m['lz']], context=e[m['le']])
        blp = flow._distribution.log_prob(flat[m['bz']], context=e[m['be']])
        if not close(samples.reshape(R * n, *ev), x):
            bad.append(('samples[i,j] != T^-1(noise[model pairing]; emb(context)[model pairing])', float((samples.reshape(R * n, *ev) - x).abs().max())))
        if not close(lp.reshape(-1), blp - lad):
            bad.append(('log_prob[i,j] != base.log_prob - logabsdet_inverse along the model pairing', float((lp.reshape(-1) - (blp - lad)).abs().max())))
        if not close(samples_b.reshape(-1), x.reshape(-1)):
            bad.append(('sample(n, context)[i,j] != T^-1(noise[model pairing]; emb(context)[model pairing])', 'values'))
        # theorem flow_sample_and_log_prob_consistent: the returned value is log_prob(sample, context row i)
        direct = flow.log_prob(samples.reshape(R * n, *ev), context=c.repeat_interleave(n, 0))
        if not close(lp.reshape(-1), direct, 1e-6):
            bad.append(('returned log_prob[i,j] != log_prob(samples[i,j], context[i])', float((lp.reshape(-1) - direct).abs().max())))
        bad += batched_case(flow, n, c, seed, 1)
        # the SAME context tensor object after the model's parameters moved (an optimiser step, load_state_dict): nothing derived from
        # the context (its embedding) may be remembered from the earlier call
        if n in (2, 5):
            names = {k_ for k_, _ in flow.named_parameters()}
            flow.load_state_dict({k_: (v_ + 0.05 * torch.randn(v_.shape, generator=gen, dtype=v_.dtype) if k_ in names else v_.clone())
                                  for k_, v_ in flow.state_dict().items()})      # (load_state_dict: legitimate in evaluation mode, weight caches follow it)
            torch.manual_seed(seed + 1)
            s2, lp2 = flow.sample_and_log_prob(n, context=c)
            d2 = flow.log_prob(s2.reshape(R * n, *ev), context=c.repeat_interleave(n, 0))
            if not close(lp2.reshape(-1), d2, 1e-6):
                bad.append(('after a parameter update, sample_and_log_prob(n, same context object) returns log-probs that log_prob does not assign to the samples',
                            float((lp2.reshape(-1) - d2).abs().max())))
            torch.manual_seed(seed + 1)
            s3 = flow.sample(n, context=c)
            if not close(s3.reshape(-1), s2.reshape(-1)):
                bad.append(('after a parameter update, sample(n, same context object) and sample_and_log_prob disagree on the draws', 'values'))
    return bad


def batched_case(flow, n, c, seed, dim):
    """sample(n, context, batch_size=b): draw k of context row i is draw (k mod b) of batch (k div b) FOR THAT ROW — the batches,
    drawn one after the other with the same generator state, concatenated along the draw dimension"""
    bad = []
    for b in sorted({2, n - 1} - {0, -1}):
        if b >= n:
            continue
        torch.manual_seed(seed)
        got = flow.sample(n, context=c, batch_size=b)
        torch.manual_seed(seed)
        nb, left = divmod(n, b)
        parts = [flow.sample(k, context=c) for k in [b] * nb + ([left] if left else [])]
        want = torch.cat(parts, dim=dim)
        if got.shape != want.shape or not close(got, want):
            bad.append(('sample(n, context, batch_size=%d) is not its batches concatenated along the draw dimension' % b,
                        float((got - want).abs().max()) if got.shape == want.shape else 'shape'))
    return bad


def seeded(ctx):
    Rs = [None, 1, 2, 3, 4, 5]
    ns = [1, 2, 3, 4, 5, 6, 7]
    pm = pairing_model([(R, n) for R in Rs if R for n in ns])
    for rep in range(1 if ctx.quick() else 4):      # thorough: four independent parameter / context draws
        cfgs, gen = flow_cfgs(ctx.seed, rep)
        seeded_rep(ctx, cfgs, gen, pm, Rs, ns, rep)


def seeded_rep(ctx, cfgs, gen, pm, Rs, ns, rep):
    for cfg in cfgs:
        flow = cfg.build()
        flow.eval()
        for R in Rs:
            if (R is None and cfg.needs_ctx) or (R is not None and not cfg.supports_ctx):
                continue
            for n in ns:
                seed = ctx.seed * 100003 + (R or 0) * 101 + n + rep * 1000003
                case = {'cfg': cfg.name, 'R': R, 'n': n, 'seed': seed}
                try:
                    bad = seeded_case(flow, cfg, R, n, seed, gen, pm)
                except Exception as e:
                    bad = [('implementation raised ' + DF.err_kind(e), str(e)[:200])]
                ctx.case(key=('seeded', cfg.name, R, n, rep), branch='seeded/%s/%s' % ('noctx' if R is None else 'ctx', 'emb' if cfg.emb else 'noemb'),
                         nontrivial=n >= 2 and (R is None or R >= 2),
                         sample=dict(case, checks=['samples', 'log_prob', 'sample()', 'log_prob(samples)']) if (R == 3 and n == 4 and len(ctx.samples) < 4) else None)
                for what, detail in bad:
                    ctx.disagree('c04/seeded', case, {'what': what, 'detail': detail}, 'model pairing', what)


def ks_sweep(ctx, report):
    """thorough tier: every 1-D configuration that can sample; calls `report(cfg, case, what, D)` on a
    Kolmogorov-Smirnov failure; returns the number of configurations tested"""
    cfgs, gen = search_cfgs(ctx)
    tested = 0
    for cfg in cfgs:
        if cfg.event != [1] or cfg.name.startswith('ConditionalIndependentBernoulli'):
            continue
        obj = cfg.build()
        obj.eval()
        case = {'cfg': cfg.name, 'seed': ctx.seed, 'oracle': 'ks'}
        try:
            r = ks_case(obj, cfg, gen, ctx.seed)
        except Exception as e:
            r = ('Kolmogorov-Smirnov run raised %s: %s' % (DF.err_kind(e), str(e)[:120]), None)
        tested += 1
        if r is not None:
            report(cfg, case, r[0], r[1])
    return tested


def correspondence(ctx):
    old = torch.get_default_dtype()
    torch.set_default_dtype(torch.float64)
    try:
        tagged(ctx)
        seeded(ctx)
        if not ctx.quick():
            # theorem sample_cdf_1d: the distribution function of the samples is the integral of exp(log_prob)
            k = ks_sweep(ctx, lambda cfg, case, what, D: ctx.disagree('c04/ks', case, {'ks_distance': D}, 'Properties.C04.sample_cdf_1d', what))
            ctx.case(key=None, branch='ks-1d', nontrivial=False, n=k)
    finally:
        torch.set_default_dtype(old)


# ---- the property's own oracle on the implementation -------------------------------------------------------------
def direct_case(obj, cfg, R, n, seed, gen):
    """log_prob(samples[i,j], context[i]) vs the value returned by sample_and_log_prob; -> None or (what, residual)"""
    with torch.no_grad():
        c = None if R is None else torch.randn(R, cfg.ctxw, generator=gen) * 0.7
        torch.manual_seed(seed)
        samples, lp = obj.sample_and_log_prob(n, context=c)
        want_s = ([n] if R is None else [R, n]) + cfg.event
        if list(samples.shape) != want_s or list(lp.shape) != want_s[:len(want_s) - len(cfg.event)]:
            return ('sample_and_log_prob returned shapes %s, %s' % (list(samples.shape), list(lp.shape)), None)
        for i in range(1 if R is None else R):
            for j in range(n):
                x = (samples[j] if R is None else samples[i, j])[None]
                ci = None if R is None else c[i][None]
                v = obj.log_prob(x, context=ci)[0]
                got = lp[j] if R is None else lp[i, j]
                if not (abs(float(v) - float(got)) <= 1e-6 * (1 + abs(float(v)))):
                    return ('sample_and_log_prob(%d, context rows=%r) of %s: returned log_prob[%s] = %.9g but log_prob(sample, context row %d) = %.9g'
                            % (n, R, cfg.name, j if R is None else (i, j), float(got), i, float(v)), abs(float(v) - float(got)))
    return None


def update_case(obj, cfg, R, n, seed, gen):
    """two no-grad sampling calls with the SAME context tensor object and a load_state_dict (parameters moved) in between: the second
    call's log-probs must be what log_prob assigns to its samples"""
    with torch.no_grad():
        c = torch.randn(R, cfg.ctxw, generator=gen) * 0.7
        torch.manual_seed(seed)
        obj.sample_and_log_prob(n, context=c)
        names = {k_ for k_, _ in obj.named_parameters()}
        obj.load_state_dict({k_: (v_ + 0.3 * torch.randn(v_.shape, generator=gen, dtype=v_.dtype) if k_ in names else v_.clone()) for k_, v_ in obj.state_dict().items()})
        torch.manual_seed(seed + 1)
        s2, lp2 = obj.sample_and_log_prob(n, context=c)
        d2 = obj.log_prob(s2.reshape(R * n, *cfg.event), context=c.repeat_interleave(n, 0))
        res = float((lp2.reshape(-1) - d2).abs().max())
        if not res <= 1e-6 * (1 + float(d2.abs().max())):
            return ('after load_state_dict, sample_and_log_prob(%d, the same context tensor) of %s returns log-probs that differ from log_prob(samples, context) by %.3g'
                    % (n, cfg.name, res), res)
    return None


def block_case(obj, cfg, gen, seed, batch_size=None):
    """sample(n, context): block i must come from the density conditioned on context row i — the average log-density of
    block i under its own context row must beat the one under any other (well separated) context row"""
    if cfg.needs_ctx is False and not cfg.ctx_dependent:
        return None
    R, n = 3, 256
    with torch.no_grad():
        c = torch.randn(R, cfg.ctxw, generator=gen) * 1.5
        torch.manual_seed(seed)
        s = obj.sample(n, context=c) if batch_size is None else obj.sample(n, context=c, batch_size=batch_size)
        if list(s.shape) != [R, n] + cfg.event:
            return ('sample returned shape %s' % list(s.shape), None)
        score = torch.zeros(R, R)
        for i in range(R):
            for k in range(R):
                score[i, k] = obj.log_prob(s[i], context=c[k][None].expand(n, -1)).mean()
        own = torch.diagonal(score)
        best = score.max(dim=1).values
        # a mis-pairing makes some block score far better under a foreign row; equal rows cannot be told apart, so allow slack
        if bool(((best - own) > 0.5).any()):
            return ('sample(%d, context of %d rows) of %s: a block is more likely under a foreign context row (mean log-density matrix %s)'
                    % (n, R, cfg.name, [[round(float(v), 3) for v in row] for row in score]), float((best - own).max()))
    return None


def ks_case(obj, cfg, gen, seed, N=20000):
    """1-D flows: Kolmogorov-Smirnov distance between samples and the CDF obtained by integrating exp(log_prob);
    threshold 0.025 > sqrt(ln(2e9) / (2 N)) = 0.0231, the 1e-9 critical value for N = 20000: it does not false-alarm"""
    with torch.no_grad():
        c = None if (not cfg.needs_ctx and not cfg.supports_ctx) else torch.randn(1, cfg.ctxw, generator=gen) * 0.7
        torch.manual_seed(seed)
        s = obj.sample(N, context=c).reshape(-1)
        if s.numel() != N:
            return None
        lo, hi = float(s.min()) - 12.0, float(s.max()) + 12.0
        grid = torch.linspace(lo, hi, 40001)
        cc = None if c is None else c.expand(grid.numel(), -1)
        dens = torch.exp(obj.log_prob(grid[:, None], context=cc))
        cdf = torch.cumsum((dens[1:] + dens[:-1]) * 0.5 * (grid[1] - grid[0]), 0)
        cdf = torch.cat([torch.zeros(1), cdf])
        mass = float(cdf[-1])
        xs = torch.sort(s).values
        F = cdf[torch.searchsorted(grid, xs).clamp(max=grid.numel() - 1)]
        emp_hi = torch.arange(1, N + 1) / N
        emp_lo = torch.arange(0, N) / N
        D = float(torch.max(torch.max((F - emp_lo).abs()), torch.max((F - emp_hi).abs())))
        if D > 0.025:
            return ('samples of %s do not follow exp(log_prob): Kolmogorov-Smirnov distance %.3f over %d draws (integrated mass %.4f)'
                    % (cfg.name, D, N, mass), D)
    return None


def search_cfgs(ctx):
    gen = torch.Generator().manual_seed(ctx.seed * 31 + 4)
    cfgs = DF.configs(events=((1,), (2,), (3,), (2, 2)), gen=gen, randomize=True)
    return [c for c in cfgs if c.sample_implemented], gen


def search(ctx):
    old = torch.get_default_dtype()
    torch.set_default_dtype(torch.float64)
    try:
        cfgs, gen = search_cfgs(ctx)
        seen = set()
        nbig = 0
        for cfg in cfgs:
            obj = cfg.build()
            obj.eval()
            for R in (None, 1, 2, 3, 5):
                if (R is None and (cfg.needs_ctx or cfg.name.startswith('MADEMoG'))) or (R is not None and not cfg.supports_ctx):
                    continue
                for n in (1, 2, 3, 5, 7):
                    seed = ctx.seed * 7 + n
                    case = {'cfg': cfg.name, 'R': R, 'n': n, 'seed': seed, 'oracle': 'direct'}
                    try:
                        r = direct_case(obj, cfg, R, n, seed, gen)
                    except Exception as e:
                        r = ('raised %s: %s' % (DF.err_kind(e), str(e)[:120]), None)
                    if r is not None and (cfg.name, 'direct') not in seen:
                        seen.add((cfg.name, 'direct'))
                        ctx.fail(r[0], case, detail={'residual': r[1]}, match={'class': cfg.name.split('[')[0], 'symptom': 'logprob-mismatch'})
            if cfg.supports_ctx and cfg.ctx_dependent and cfg.model['k'] == 'Flow' and nbig < 4:
                # one large request: several context rows x thousands of draws in a single call
                nbig += 1
                case = {'cfg': cfg.name, 'R': 3, 'n': 6000, 'seed': ctx.seed, 'oracle': 'direct'}
                try:
                    r = direct_case(obj, cfg, 3, 6000, ctx.seed, gen)
                except Exception as e:
                    r = ('raised %s: %s' % (DF.err_kind(e), str(e)[:120]), None)
                if r is not None and (cfg.name, 'direct') not in seen:
                    seen.add((cfg.name, 'direct'))
                    ctx.fail(r[0], case, detail={'residual': r[1]}, match={'class': cfg.name.split('[')[0], 'symptom': 'logprob-mismatch'})
            if cfg.supports_ctx and cfg.model['k'] == 'Flow' and (cfg.name, 'update') not in seen:
                case = {'cfg': cfg.name, 'R': 2, 'n': 3, 'seed': ctx.seed, 'oracle': 'update'}
                try:
                    r = update_case(cfg.build().eval(), cfg, 2, 3, ctx.seed, gen)
                except Exception as e:
                    r = None
                if r is not None:
                    seen.add((cfg.name, 'update'))
                    ctx.fail(r[0], case, detail={'residual': r[1]}, match={'class': cfg.name.split('[')[0], 'symptom': 'stale-after-update'})
            if cfg.supports_ctx and cfg.ctx_dependent:
                case = {'cfg': cfg.name, 'seed': ctx.seed, 'oracle': 'block'}
                try:
                    r = block_case(obj, cfg, gen, ctx.seed)
                except Exception as e:
                    r = ('raised %s: %s' % (DF.err_kind(e), str(e)[:120]), None)
                if r is not None:
                    ctx.fail(r[0], case, detail={'excess': r[1]}, match={'class': cfg.name.split('[')[0], 'symptom': 'block-density'})
                else:
                    for bs in (100, 64, 128):          # a leftover batch; batch sizes that divide the number of draws (4 and 2 batches)
                        case = {'cfg': cfg.name, 'seed': ctx.seed, 'oracle': 'block', 'batch_size': bs}
                        try:
                            r = block_case(obj, cfg, gen, ctx.seed, batch_size=bs)
                        except Exception as e:
                            r = ('raised %s: %s' % (DF.err_kind(e), str(e)[:120]), None)
                        if r is not None:
                            ctx.fail('with batch_size=%d: ' % bs + r[0], case, detail={'excess': r[1]}, match={'class': cfg.name.split('[')[0], 'symptom': 'block-density-batched'})
                            break
            if len(ctx.failing) >= 8:
                break
        if ctx.tier == 'thorough':
            ks_sweep(ctx, lambda cfg, case, what, D: ctx.fail(what, case, detail={'D': D}, match={'class': cfg.name.split('[')[0], 'symptom': 'ks'}))
    finally:
        torch.set_default_dtype(old)


def replay(ctx, payload):
    f = payload.get('failing') or {}
    case = f.get('case') or {}
    old = torch.get_default_dtype()
    torch.set_default_dtype(torch.float64)
    try:
        cfgs, gen = search_cfgs(ctx)
        for cfg in cfgs:
            if cfg.name != case.get('cfg'):
                continue
            obj = cfg.build()
            obj.eval()
            try:
                if case.get('oracle') == 'direct':
                    return direct_case(obj, cfg, case['R'], case['n'], case['seed'], gen) is not None
                if case.get('oracle') == 'block':
                    return block_case(obj, cfg, gen, case['seed'], batch_size=case.get('batch_size')) is not None
                if case.get('oracle') == 'update':
                    return update_case(obj, cfg, case['R'], case['n'], case['seed'], gen) is not None
                if case.get('oracle') == 'ks':
                    return ks_case(obj, cfg, gen, case['seed']) is not None
            except Exception:
                return True
        return None
    finally:
        torch.set_default_dtype(old)


def replay_finding(ctx, entry):
    return False
