"""C11 — linear-family accessors all describe one and the same affine map.

Theorems: Properties.C11 (LU/QR/SVD/naive matrix identities, Householder orthogonality, executable index order /
assembly / triangular solves / Householder application / constructor rows bridged to the Mathlib statements).
Correspondence: the five parameterisations x features 1-6 x Householder counts 1-13 x init modes x (fresh
initialisation in float32 and float64, random parameters in float64): weight(), weight_inverse(), logabsdet(),
the combined accessors, matrix(), forward, inverse (also through the cache) against the Lean model; constructor
outcomes and initial q-vectors exactly."""
import copy, math
import numpy as np
import math
import torch
from harness.common import leandriver, bits

PROPERTY = 'C11'
LEVEL = 'proof'
REQUIRED_THEOREMS = ['Properties.C11.' + t for t in (
    'lu_det', 'lu_logabsdet', 'lu_forward', 'lu_isUnit', 'lu_weight_inverse',
    'hhApply_involutive', 'hhApply_norm', 'hhSeq_inverse',
    'householder_orthogonal', 'householder_det_abs', 'householderSeq_orthogonal', 'householderSeq_det_abs', 'matrix_eq',
    'qr_forward', 'qr_weight', 'qr_weight_inverse', 'qr_inverse_pass', 'qr_logabsdet',
    'svd_forward', 'svd_weight', 'svd_weight_inverse', 'svd_inverse_pass', 'svd_logabsdet', 'naive_roundtrip',
    'tri_indices_spec', 'lu_assembly', 'lu_assembly_real', 'upper_diag_pos', 'identity_init_diag',
    'triSolve_correct', 'triSolve_matrix', 'hhApply_executed', 'hhSeq_executed', 'hhMatrix_executed', 'hh_passes_executed',
    'householder_init_rows', 'householder_ctor_rejects', 'householder_init_usable',
    'lu_executed', 'qr_executed', 'svd_executed',
    'lu_fresh_usable', 'qr_fresh_usable', 'svd_fresh_usable', 'svd_odd_count_rejected', 'lu_identity_init_is_identity', 'svd_identity_init_is_identity',
    'identity_init_needs_eps_lt_one', 'lu_passes_return_logabsdet', 'householder_passes_return_zero',
    'naive_inverse_is_inverse', 'naive_logabsdet_is_log_abs_det', 'naive_pivot_ne_zero', 'naive_pivots_prod', 'gaussInverse_ok', 'gaussInverse_singular', 'gaussInverse_error_iff', 'naive_roundtrip_executed', 'naive_combined_executed',)]
RULE = ("cases = (class in LU/QR/SVD/Naive/HouseholderSequence, features 1..6, Householder count 1..13 (odd, even, > features, "
        "> 2*features; SVD even only), init mode (identity_init / orthogonal_initialization True/False), parameter kind "
        "(fresh initialisation in native float32, fresh in float64, seeded random parameters in float64 incl. non-unit "
        "q-vectors and non-zero bias; thorough adds more draws and random float32), observable (weight, weight_inverse, "
        "logabsdet, the combined accessors, forward, inverse, forward/inverse through the cache, matrix, L/U placement)); "
        "OneByOneConvolution (channel permutation + LU per pixel) on 6 NCHW shapes; an exhaustive constructor grid "
        "features -1..6 x count -1..13 (outcome and parameter sizes exact; initial q_vectors and the fresh matrix() exact); "
        "tril/triu index lists for n = 0..8 (exact); a singular NaiveLinear weight (error contract). "
        "An accessor case is non-trivial when the weight matrix differs from the identity or the bias from zero (for the "
        "convolution also when the permutation is not the identity); a constructor case when the constructor accepts; an "
        "index case when n >= 2. Distinct by (class, features, count, mode, parameter kind, dtype, observable).")
EXPLANATION = ("proof over the reals of the matrix identities for every size and parameter value, bridged to the executable list "
               "model; tie = differential run of the same Lean definitions against the five classes")
ASSUMPTIONS = ["parameters are finite floats; NaiveLinear weights are non-singular except for the explicit zero-matrix error case",
               "float comparison tolerance 1e-9*cond(W)*(1+|value|) in float64, 2e-5*cond(W)*(1+|value|) in float32",
               "NaiveLinear's torch.inverse/slogdet/lu are modelled by an (unverified) Gauss-Jordan elimination with partial pivoting"]

CLASSES = ['LULinear', 'QRLinear', 'SVDLinear', 'NaiveLinear', 'HouseholderSequence']
REJECT = ('TypeError', 'AssertionError')      # deliberate constructor refusals


def _kind(e):
    for k in ('IndexError', 'TypeError', 'AssertionError', 'ValueError'):
        if type(e).__name__ == k:
            return k
    if isinstance(e, RuntimeError):
        return 'RuntimeError'
    if isinstance(e, (IndexError, TypeError, AssertionError, ValueError)):
        return [k for k, c in (('IndexError', IndexError), ('TypeError', TypeError), ('AssertionError', AssertionError),
                               ('ValueError', ValueError)) if isinstance(e, c)][0]
    return 'other'


def _cls(name):
    from nflows.transforms import lu, qr, svd, linear, orthogonal
    return {'LULinear': lu.LULinear, 'QRLinear': qr.QRLinear, 'SVDLinear': svd.SVDLinear,
            'NaiveLinear': linear.NaiveLinear, 'HouseholderSequence': orthogonal.HouseholderSequence}[name]


def construct(cls, f, k, mode, seed=0):
    torch.manual_seed(seed)
    C = _cls(cls)
    if cls == 'LULinear':
        return C(f, identity_init=False, eps=0.1) if mode == 'eps0.1' else C(f, identity_init=mode)
    if cls == 'QRLinear':
        return C(f, k)
    if cls == 'SVDLinear':
        return C(f, k, identity_init=False, eps=0.1) if mode == 'eps0.1' else C(f, k, identity_init=mode)
    if cls == 'NaiveLinear':
        return C(f, orthogonal_initialization=mode)
    return C(f, k)


def modes(cls):
    if cls in ('LULinear', 'SVDLinear'):
        return [True, False, 'eps0.1']      # identity initialisation on / off; a non-default floor of the diagonal
    return [True, False] if cls == 'NaiveLinear' else [None]


def counts(cls):
    if cls in ('LULinear', 'NaiveLinear'):
        return [None]
    ks = list(range(1, 14))
    return ks


def randomise(m, gen, scale=1.0):
    with torch.no_grad():
        for _, p in m.named_parameters():
            p.copy_(torch.randn(p.shape, generator=gen, dtype=torch.float64).to(p.dtype) * scale)


PARAMS = {
    'LULinear': ['lower_entries', 'upper_entries', 'unconstrained_upper_diag', 'bias'],
    'QRLinear': ['upper_entries', 'log_upper_diag', 'orthogonal.q_vectors', 'bias'],
    'SVDLinear': ['unconstrained_diagonal', 'orthogonal_1.q_vectors', 'orthogonal_2.q_vectors', 'bias'],
    'NaiveLinear': ['_weight', 'bias'],
    'HouseholderSequence': ['q_vectors'],
}


def get_params(m, cls):
    sd = dict(m.named_parameters())
    return [sd[n].detach() for n in PARAMS[cls]]


def _try(fn):
    try:
        r = fn()
        return r
    except Exception as e:  # noqa
        return ('err', _kind(e), repr(e)[:200])


def is_err(v):
    return isinstance(v, tuple) and len(v) == 3 and v[0] == 'err'


def observe(m, cls, X):
    """every public observable of the property, each guarded on its own"""
    obs = {}
    with torch.no_grad():
        if cls == 'HouseholderSequence':
            r = _try(lambda: m.forward(X)); obs['forward'], obs['forward_ld'] = (r, r) if is_err(r) else r
            r = _try(lambda: m.inverse(X)); obs['inverse'], obs['inverse_ld'] = (r, r) if is_err(r) else r
            obs['matrix'] = _try(lambda: m.matrix())
            return obs
        obs['weight'] = _try(lambda: m.weight())
        obs['weight_inverse'] = _try(lambda: m.weight_inverse())
        obs['logabsdet'] = _try(lambda: m.logabsdet())
        r = _try(lambda: m.weight_and_logabsdet()); obs['wal_w'], obs['wal_ld'] = (r, r) if is_err(r) else r
        r = _try(lambda: m.weight_inverse_and_logabsdet()); obs['wial_wi'], obs['wial_ld'] = (r, r) if is_err(r) else r
        r = _try(lambda: m.forward(X)); obs['forward'], obs['forward_ld'] = (r, r) if is_err(r) else r
        r = _try(lambda: m.inverse(X)); obs['inverse'], obs['inverse_ld'] = (r, r) if is_err(r) else r

        def cached(direction):
            c = copy.deepcopy(m).eval()
            c.use_cache(True)
            return (c.forward(X) if direction == 'f' else c.inverse(X))[0]
        obs['cached_forward'] = _try(lambda: cached('f'))
        obs['cached_inverse'] = _try(lambda: cached('i'))

        def reloaded(direction):
            # a layer of a larger model: its cache was filled under OTHER weights, then these weights arrive through the enclosing
            # module's load_state_dict; the cached passes must describe the same affine map as the accessors
            c = copy.deepcopy(m).eval()
            for q in c.parameters():
                q.add_(0.3)
            c.use_cache(True)
            c.forward(X); c.inverse(X)
            outer = torch.nn.ModuleList([c])
            outer.load_state_dict({'0.' + k: v for k, v in m.state_dict().items()})
            return (c.forward(X) if direction == 'f' else c.inverse(X))[0]
        def alternating(direction):
            # two live cached layers of the same class used alternately (two layers of one flow in evaluation mode): each must keep
            # describing ITS OWN affine map
            a = copy.deepcopy(m).eval(); a.use_cache(True)
            o = copy.deepcopy(m).eval()
            o.use_cache(True)
            for q in o.parameters():
                q.add_(0.3)
            o.train(); o.eval()          # its parameters were edited: the documented way to drop its cache
            o.forward(X)
            if direction == 'f':
                a.inverse(X); o.inverse(X)
                return a.forward(X)[0]
            a.forward(X); o.forward(X)
            return a.inverse(X)[0]
        if not is_err(obs['cached_forward']) and not is_err(obs['cached_inverse']):
            obs['alternating_forward'] = _try(lambda: alternating('f'))
            obs['alternating_inverse'] = _try(lambda: alternating('i'))
        if not is_err(obs['cached_forward']) and not is_err(obs['cached_inverse']):
            obs['reloaded_forward'] = _try(lambda: reloaded('f'))
            obs['reloaded_inverse'] = _try(lambda: reloaded('i'))
        if cls == 'LULinear' and hasattr(m, '_create_lower_upper'):
            r = _try(lambda: m._create_lower_upper())
            if not is_err(r):
                obs['L'], obs['U'] = r
    return obs


def model_req(cls, m, X, prec):
    f = int(m.features)
    ps = get_params(m, cls)
    enc = lambda t: bits.tensor_bits(t, prec)
    N = X.shape[0]
    if cls == 'HouseholderSequence':
        return {'op': 'c11/hh', 'p': prec, 'i': [f, int(ps[0].shape[0]), N], 'f': [enc(ps[0]), enc(X)]}
    if cls == 'LULinear':
        return {'op': 'c11/lu', 'p': prec, 'i': [f, N], 'f': [enc(p) for p in ps] + [enc(X)], 'd': [bits.f64_bits(float(m.eps))]}
    if cls == 'QRLinear':
        return {'op': 'c11/qr', 'p': prec, 'i': [f, int(ps[2].shape[0]), N], 'f': [enc(p) for p in ps] + [enc(X)]}
    if cls == 'SVDLinear':
        return {'op': 'c11/svd', 'p': prec, 'i': [f, int(ps[1].shape[0]), N], 'f': [enc(p) for p in ps] + [enc(X)],
                'd': [bits.f64_bits(float(m.eps))]}
    return {'op': 'c11/naive', 'p': prec, 'i': [f, N], 'f': [enc(p) for p in ps] + [enc(X)]}


def model_obs(cls, resp, f, N, prec):
    d = lambda k: bits.dec(resp['f'][k], prec) if k < len(resp['f']) else []
    out = {}
    if cls == 'HouseholderSequence':
        out['forward'], out['inverse'], out['matrix'] = d(0), d(1), d(2)
        out['forward_ld'] = [0.0] * N
        out['inverse_ld'] = [0.0] * N
        return out
    W, Wi, ld, fw, iv = d(0), d(1), d(2), d(3), d(4)
    ld = ld[0] if ld else float('nan')
    out.update({'weight': W, 'weight_inverse': Wi, 'logabsdet': [ld], 'wal_w': W, 'wal_ld': [ld], 'wial_wi': Wi, 'wial_ld': [ld],
                'forward': fw, 'forward_ld': [ld] * N, 'inverse': iv, 'inverse_ld': [-ld] * N,
                'cached_forward': fw, 'cached_inverse': iv, 'reloaded_forward': fw, 'reloaded_inverse': iv,
                'alternating_forward': fw, 'alternating_inverse': iv})
    if cls == 'LULinear':
        out['L'], out['U'] = d(5), d(6)
    return out


def model_cond(cls, mod, f):
    """the MODEL's own conditioning estimate (never the implementation's: a mutation that makes the
    implementation singular must not loosen the tolerance)"""
    try:
        W = np.array(mod['matrix' if cls == 'HouseholderSequence' else 'weight'], dtype=np.float64).reshape(f, f)
        c = float(np.linalg.cond(W))
        return min(c, 1e8) if math.isfinite(c) and c >= 1 else 1e8
    except Exception:
        return 1.0


def conv_cond(case, resp):
    """conditioning of the per-pixel LU map: the model's own LU weight for the same parameters"""
    return model_cond('LULinear', {'weight': bits.dec(resp['f'][4], 'f64')}, case['features'])


def cond_of(cls, m):
    try:
        with torch.no_grad():
            W = m.matrix() if cls == 'HouseholderSequence' else m.weight()
            c = float(torch.linalg.cond(W.double()))
        return c if math.isfinite(c) and c >= 1 else 1e16
    except Exception:
        return 1.0


def nontrivial_of(cls, m):
    try:
        with torch.no_grad():
            W = (m.matrix() if cls == 'HouseholderSequence' else m.weight()).double()
            b = torch.zeros(1) if cls == 'HouseholderSequence' else m.bias.double()
            return bool((W - torch.eye(W.shape[0], dtype=W.dtype)).abs().max() > 1e-6 or b.abs().max() > 0)
    except Exception:
        return True


def compare(ctx, case, cls, obs, mod, merr, kappa, prec, nontriv):
    rt = 1e-9 if prec == 'f64' else 2e-5
    exact = ('L', 'U')
    for name, v in obs.items():
        key = (cls, case['features'], case['num_transforms'], case['mode'], case['params'], prec, name)
        if is_err(v):
            ctx.case(key=key, branch='error:' + v[1], nontrivial=False)
            if merr != v[1]:
                ctx.disagree('c11/' + cls, dict(case, observable=name), v[1] + ' ' + v[2], merr or 'value',
                             'implementation raised, model did not (or a different kind)')
            continue
        ctx.case(key=key, branch='%s/%s/%s' % (cls, case['params'], name), nontrivial=nontriv)
        if merr and name in ('weight_inverse', 'wial_wi', 'cached_inverse', 'wial_ld', 'reloaded_inverse', 'alternating_inverse'):
            ctx.disagree('c11/' + cls, dict(case, observable=name), 'value', merr, 'model raised, implementation returned a value')
            continue
        iv = [float(a) for a in v.detach().double().reshape(-1).tolist()]
        mv = mod.get(name)
        if mv is None:
            continue
        if case['params'] == 'zero-weight' and name in ('inverse', 'reloaded_inverse', 'alternating_inverse'):
            # singular weight: lu_solve returns non-finite values; only the finiteness pattern is compared
            iv = [1.0 if math.isfinite(a) else 0.0 for a in iv]
            mv = [1.0 if math.isfinite(a) else 0.0 for a in mv]
        if len(iv) != len(mv):
            ctx.disagree('c11/' + cls, dict(case, observable=name), 'numel %d' % len(iv), 'numel %d' % len(mv), 'shape differs')
            continue
        scale = 1.0 + max([abs(a) for a in iv if math.isfinite(a)] + [0.0])
        tol = (1e-12 if (name in exact and prec == 'f64') else rt * kappa) * scale
        worst, wi = 0.0, -1
        for i, (a, b) in enumerate(zip(iv, mv)):
            if math.isnan(a) and math.isnan(b):
                continue
            if a == b:
                continue
            dlt = abs(a - b)
            if not (dlt <= tol):
                if not (dlt <= worst):
                    worst, wi = (dlt if math.isfinite(dlt) else float('inf')), i
        if wi >= 0:
            ctx.disagree('c11/' + cls, dict(case, observable=name, index=wi), iv[wi], mv[wi],
                         '%s differs by %.3e (tol %.3e, cond %.3e)' % (name, worst, tol, kappa))


def configs(ctx):
    feats = [1, 2, 3, 4, 5, 6]
    for cls in CLASSES:
        for f in feats:
            for k in counts(cls):
                if cls == 'SVDLinear' and k % 2:
                    continue
                for mode in modes(cls):
                    yield cls, f, k, mode


def param_kinds(ctx):
    # 'rand64t': random parameters with tiny-norm Householder vectors (a reflection depends only on the direction of q)
    return ['fresh32', 'fresh64', 'rand64a', 'rand64b', 'rand64t'] + ([] if ctx.quick() else ['rand64c', 'rand64d', 'rand32'])


def prepare(cls, f, k, mode, pk, seed):
    """-> module (possibly with randomised parameters), X, prec"""
    m = construct(cls, f, k, mode, seed)
    prec = 'f32' if pk.endswith('32') else 'f64'
    gen = torch.Generator().manual_seed(seed * 31 + 7)
    if prec == 'f64':
        m = m.double()
    if pk.startswith('rand'):
        randomise(m, gen, {'a': 1.0, 'b': 0.5, 'c': 2.0, 'd': 1.0}.get(pk[-1], 0.7))
        if pk.endswith('t'):
            with torch.no_grad():
                for n_, p_ in m.named_parameters():
                    if 'q_vectors' in n_:
                        p_.mul_(3e-4)
    X = torch.randn(3, f, generator=gen, dtype=torch.float64).to(torch.float32 if prec == 'f32' else torch.float64)
    return m, X, prec


def large_scaled(ctx, report=None):
    """many features and globally scaled weights: log|det W| is moderate while det W itself over/underflows the dtype — the accessors
    must still describe one map (logabsdet() = log|det weight()|, forward/inverse log-dets = +-logabsdet())"""
    import nflows.transforms as T
    gen = torch.Generator().manual_seed(ctx.seed + 1111)
    for (f, scale) in ((100, 0.3), (100, 2.5), (40, 10.0), (128, 0.25)):
        for cls in ('NaiveLinear', 'LULinear'):
            torch.manual_seed(f * 7 + int(scale * 10))
            m = T.NaiveLinear(f) if cls == 'NaiveLinear' else T.LULinear(f, identity_init=True)
            with torch.no_grad():
                if cls == 'NaiveLinear':
                    m._weight.mul_(scale)                       # orthogonal init times a scalar: condition number 1
                else:
                    m.unconstrained_upper_diag.copy_(torch.log(torch.expm1(torch.full((f,), abs(scale)))))   # softplus^-1
            m.eval()
            X = torch.randn(3, f, generator=gen)
            case = {'class': cls, 'features': f, 'num_transforms': None, 'mode': None, 'params': 'scaled%g' % scale, 'seed': 0}
            fails = oracle_module(m, cls, X, 'f32', kappa=4.0)
            if report is None:
                ctx.case(key=('large-scaled', cls, f, scale), branch='large-scaled/' + cls, nontrivial=True)
                for (sym, what, extra) in fails[:1]:
                    ctx.disagree('c11/large-scaled', case, what, 'accessors agree (log|det| = %g)' % (f * math.log(abs(scale))), sym)
            elif fails:
                report(fails, case)


def side_conditions(ctx):
    """decidable hypotheses of the theorems, checked on the constants read from the code at run time"""
    for cls in ('LULinear', 'SVDLinear'):
        try:
            m = construct(cls, 2, 2, True, 0)
            eps = float(m.eps)
        except Exception as e:  # noqa
            ctx.notes.append('could not read %s.eps: %r' % (cls, e))
            continue
        ctx.extra.setdefault('constants_read', {})[cls + '.eps'] = eps
        if not (0.0 <= eps < 1.0):
            ctx.proof_broken.append('hypothesis 0 <= eps < 1 of Properties.C11.upper_diag_pos / identity_init_diag / lu_executed / '
                                    'svd_executed fails for %s.eps = %r read from the code' % (cls, eps))


CONV_SHAPES = [(1, 1, 1, 1), (2, 1, 2, 3), (2, 2, 1, 1), (1, 3, 2, 2), (2, 3, 3, 2), (2, 4, 2, 3)]


def prepare_conv(B, C, H, W, mode, pk, seed):
    from nflows.transforms.conv import OneByOneConvolution
    torch.manual_seed(seed)
    m = OneByOneConvolution(C, identity_init=mode).double()
    gen = torch.Generator().manual_seed(seed * 31 + 7)
    if pk.startswith('rand'):
        randomise(m, gen, 1.0)
    X = torch.randn(B, C, H, W, generator=gen, dtype=torch.float64)
    return m, X


def oracle_conv(B, C, H, W, mode, pk, seed):
    """OneByOneConvolution: per pixel x -> W P x + b with the accessors' W, log-abs-det H*W*logabsdet(), round trip"""
    case = {'class': 'OneByOneConvolution', 'features': C, 'num_transforms': None, 'mode': mode, 'params': pk, 'seed': seed,
            'shape': [B, C, H, W]}
    out = []
    try:
        m, X = prepare_conv(B, C, H, W, mode, pk, seed)
        with torch.no_grad():
            y, ld = m.forward(X)
            xb, ldi = m.inverse(y)
            Wm, b, lad = m.weight(), m.bias, m.logabsdet()
            perm = m.permutation._permutation
    except Exception as e:  # noqa
        return [(_kind(e), 'raises %r' % (e,), {'accessor': 'forward/inverse'})], case
    kap = cond_of('LULinear', m)
    tt = 1e-8 * kap
    if not (torch.isfinite(y).all() and torch.isfinite(ld).all() and torch.isfinite(xb).all()):
        out.append(('non-finite', 'forward / inverse output is not finite', {}))
        return out, case
    ref = torch.einsum('ij,bjhw->bihw', Wm, X[:, perm]) + b.view(1, -1, 1, 1)
    if (y - ref).abs().max() > tt * (1 + float(ref.abs().max())):
        out.append(('forward', 'forward(x) != weight() (permuted x) + bias per pixel (max dev %.3e)' % float((y - ref).abs().max()), {}))
    if (xb - X).abs().max() > tt * (1 + float(X.abs().max())):
        out.append(('inverse', 'inverse(forward(x)) != x (max dev %.3e)' % float((xb - X).abs().max()), {}))
    if (ld - H * W * lad).abs().max() > tt * (1 + abs(float(lad)) * H * W) or (ldi + H * W * lad).abs().max() > tt * (1 + abs(float(lad)) * H * W):
        out.append(('logabsdet', 'log-abs-det %r is not H*W*logabsdet() = %r' % (ld.tolist(), H * W * float(lad)), {}))
    return out, case


def correspondence(ctx):
    side_conditions(ctx)
    large_scaled(ctx)
    # --- 1. index order (read from the modules, not from numpy directly) -----------------------------------
    reqs, metas = [], []
    for n in range(0, 9):
        if n == 0:
            lo, up = np.tril_indices(0, -1), np.triu_indices(0, 1)
        else:
            t = _cls('LULinear')(n)
            q = _cls('QRLinear')(n, 1)
            lo, up = t.lower_indices, t.upper_indices
            if [list(map(int, a)) for a in q.upper_indices] != [list(map(int, a)) for a in up]:
                ctx.disagree('c11/indices', {'n': n}, 'QR upper_indices', 'LU upper_indices', 'the two classes disagree')
        impl = [len(lo[0])] + [int(a) for a in lo[0]] + [int(a) for a in lo[1]] + [len(up[0])] + [int(a) for a in up[0]] + [int(a) for a in up[1]]
        reqs.append({'op': 'c11/indices', 'i': [n]})
        metas.append(('indices', n, impl))
    # --- 2. constructor grid -------------------------------------------------------------------------------
    for cls in CLASSES:
        for f in range(-1, 7):
            for k in (range(-1, 14) if counts(cls) != [None] else [0]):
                try:
                    m = construct(cls, f, k, modes(cls)[0], 1)
                    names = (['bias'] if cls != 'HouseholderSequence' else []) + [x for x in PARAMS[cls] if x != 'bias']
                    impl = ('ok', [int(dict(m.named_parameters())[n].numel()) for n in names])
                except Exception as e:  # noqa
                    m = None
                    impl = (_kind(e), None)
                reqs.append({'op': 'c11/ctor', 's': [cls], 'i': [f, k]})
                metas.append(('ctor', (cls, f, k), impl))
                if cls == 'HouseholderSequence':
                    if m is not None:
                        with torch.no_grad():
                            try:
                                fin = bool(torch.isfinite(m.matrix()).all() and torch.isfinite(m.forward(torch.eye(f))[0]).all())
                                mat = m.matrix().double().reshape(-1).tolist()
                            except Exception as e:  # noqa
                                fin, mat = _kind(e), None
                        impl2 = ('ok', list(m.q_vectors.shape), m.q_vectors.detach().double().reshape(-1).tolist(),
                                 'finite' if fin is True else ('non-finite' if fin is False else fin), mat)
                    else:
                        impl2 = impl
                    reqs.append({'op': 'c11/hh_init', 'i': [f, k]})
                    metas.append(('hh_init', (f, k), impl2))
    # --- 3. accessors and passes ---------------------------------------------------------------------------
    sub = 0
    for (cls, f, k, mode) in configs(ctx):
        for pk in param_kinds(ctx):
            sub += 1
            seed = ctx.seed * 100003 + sub
            case = {'class': cls, 'features': f, 'num_transforms': k, 'mode': mode, 'params': pk, 'seed': seed}
            try:
                m, X, prec = prepare(cls, f, k, mode, pk, seed)
            except Exception as e:  # noqa
                ctx.case(key=('ctor-fail', cls, f, k, mode), branch='construct-error:' + _kind(e), nontrivial=False)
                ctx.disagree('c11/construct', case, _kind(e) + ' ' + repr(e)[:200], 'ok', 'constructor refused a size the model accepts')
                continue
            obs = observe(m, cls, X)
            reqs.append(model_req(cls, m, X, prec))
            metas.append(('acc', case, (cls, obs, cond_of(cls, m), prec, nontrivial_of(cls, m), X.shape[0])))
    # explicit error contract: singular NaiveLinear weight
    for f in (1, 3):
        m = construct('NaiveLinear', f, None, False, 5).double()
        with torch.no_grad():
            m._weight.zero_()
        X = torch.ones(2, f, dtype=torch.float64)
        case = {'class': 'NaiveLinear', 'features': f, 'num_transforms': None, 'mode': False, 'params': 'zero-weight', 'seed': 0}
        obs = {k: v for k, v in observe(m, 'NaiveLinear', X).items() if k in ('weight', 'weight_inverse', 'forward', 'inverse')}
        reqs.append(model_req('NaiveLinear', m, X, 'f64'))
        metas.append(('acc', case, ('NaiveLinear', obs, 1.0, 'f64', False, 2)))

    # --- 4. OneByOneConvolution: fixed channel permutation, then LULinear on every pixel (conv.py) ------------
    try:
        from nflows.transforms.conv import OneByOneConvolution
    except Exception as e:  # noqa
        OneByOneConvolution = None
        ctx.notes.append('OneByOneConvolution not importable: %r' % (e,))
    if OneByOneConvolution is not None:
        shapes = CONV_SHAPES + ([] if ctx.quick() else [(3, 5, 2, 2), (1, 6, 3, 3)])
        for (B, C, H, W) in shapes:
            for mode in (True, False):
                for pk in ('fresh64', 'rand64a'):
                    sub += 1
                    seed = ctx.seed * 100003 + sub
                    case = {'class': 'OneByOneConvolution', 'features': C, 'num_transforms': None, 'mode': mode, 'params': pk,
                            'seed': seed, 'shape': [B, C, H, W]}
                    m, X = prepare_conv(B, C, H, W, mode, pk, seed)
                    perm = [int(v) for v in m.permutation._permutation.tolist()]
                    with torch.no_grad():
                        rf = _try(lambda: m.forward(X))
                        ri = _try(lambda: m.inverse(X))
                    obs = {}
                    obs['forward'], obs['forward_ld'] = (rf, rf) if is_err(rf) else rf
                    obs['inverse'], obs['inverse_ld'] = (ri, ri) if is_err(ri) else ri
                    ps = get_params(m, 'LULinear')
                    reqs.append({'op': 'c11/conv', 'p': 'f64', 'i': [C, B, H, W] + perm,
                                 'f': [bits.tensor_bits(q_, 'f64') for q_ in ps] + [bits.tensor_bits(X.contiguous(), 'f64')],
                                 'd': [bits.f64_bits(float(m.eps))]})
                    metas.append(('conv', case, (obs, nontrivial_of('LULinear', m) or perm != sorted(perm))))

    resps = leandriver.call(reqs)
    for (kind, a, b), resp in zip(metas, resps):
        if kind == 'conv':
            obs, nontriv = b
            mod = {'forward': bits.dec(resp['f'][0], 'f64'), 'forward_ld': bits.dec(resp['f'][1], 'f64'),
                   'inverse': bits.dec(resp['f'][2], 'f64'), 'inverse_ld': bits.dec(resp['f'][3], 'f64')}
            # conditioning: the model's LU weight for the same parameters
            kappa = conv_cond(a, resp)
            compare(ctx, a, 'OneByOneConvolution', obs, mod, resp.get('e'), kappa, 'f64', nontriv)
        elif kind == 'indices':
            ctx.case(key=('indices', a), branch='indices', nontrivial=a >= 2,
                     sample={'op': 'indices', 'n': a, 'impl': b} if a == 4 else None)
            if resp.get('i') != b:
                ctx.disagree('c11/indices', {'n': a}, b, resp.get('i'), 'tril/triu index order differs')
        elif kind == 'ctor':
            cls, f, k = a
            mo = (resp.get('e') or 'ok', resp.get('i') if not resp.get('e') else None)
            ctx.case(key=('ctor', cls, f, k, b[0]), branch='ctor:' + b[0], nontrivial=(b[0] == 'ok'))
            if tuple(mo) != tuple(b):
                ctx.disagree('c11/ctor', {'class': cls, 'features': f, 'num_transforms': k}, b, mo, 'constructor outcome / parameter sizes differ')
        elif kind == 'hh_init':
            f, k = a
            ctx.case(key=('hh_init', f, k, b[0]), branch='hh_init:' + (b[0] if b[0] != 'ok' else b[3]), nontrivial=(b[0] == 'ok'),
                     sample={'op': 'hh_init', 'features': f, 'num_transforms': k, 'q_vectors': b[2]} if (f, k) == (2, 5) and b[0] == 'ok' else None)
            if resp.get('e'):
                if b[0] != resp['e']:
                    ctx.disagree('c11/hh_init', {'features': f, 'num_transforms': k}, b[:2], resp['e'], 'constructor outcome differs')
                continue
            mq = bits.dec(resp['f'][0], 'f64')
            mo = ('ok', resp['i'], mq, resp['s'][0])
            if b[0] != 'ok' or tuple(mo) != tuple(b[:4]):
                ctx.disagree('c11/hh_init', {'class': 'HouseholderSequence', 'features': f, 'num_transforms': k}, b[:4], mo,
                             'initial q_vectors / usability differ')
            elif b[4] is not None and b[4] != bits.dec(resp['f'][1], 'f64'):
                ctx.disagree('c11/hh_init', {'class': 'HouseholderSequence', 'features': f, 'num_transforms': k}, b[4],
                             bits.dec(resp['f'][1], 'f64'), 'matrix() of the fresh transform differs (exact 0/±1 arithmetic)')
        else:
            case = a
            cls, obs, kappa, prec, nontriv, N = b
            mod = model_obs(cls, resp, case['features'], N, prec)
            kappa = model_cond(cls, mod, case['features'])
            if len(ctx.samples) < 6 and case['params'] == 'rand64a' and case['features'] == 3:
                ctx.samples.append(dict(case, observables=sorted(obs), cond=kappa,
                                        weight=None if is_err(obs.get('weight', ('err', 0, 0))) or 'weight' not in obs
                                        else obs['weight'].reshape(-1).tolist()))
            compare(ctx, case, cls, obs, mod, resp.get('e'), kappa, prec, nontriv)


# ---- the property's own oracle on the implementation -----------------------------------------------------------
ACCESSOR = {'wial_wi': 'weight_inverse_and_logabsdet', 'wial_ld': 'weight_inverse_and_logabsdet',
            'wal_w': 'weight_and_logabsdet', 'wal_ld': 'weight_and_logabsdet', 'forward_ld': 'forward', 'inverse_ld': 'inverse',
            'cached_forward': 'forward(use_cache)', 'cached_inverse': 'inverse(use_cache)',
            'reloaded_forward': 'forward(use_cache) after load_state_dict of the enclosing module',
            'reloaded_inverse': 'inverse(use_cache) after load_state_dict of the enclosing module',
            'alternating_forward': 'forward(use_cache) while another cached layer of the class is in use',
            'alternating_inverse': 'inverse(use_cache) while another cached layer of the class is in use'}


def oracle_module(m, cls, X, prec, kappa=None):
    """-> list of (symptom, what, extra-match) for one constructed module"""
    out = []
    f = int(m.features)
    t = (1e-8 if prec == 'f64' else 1e-3)
    obs = observe(m, cls, X)
    for name, v in obs.items():
        if is_err(v):
            extra = {'accessor': ACCESSOR.get(name, name), 'dtype': 'float64' if prec == 'f64' else 'float32'}
            out.append((v[1], '%s raises %s' % (name, v[2]), extra))
    if out:
        return out
    for name, v in obs.items():
        if not torch.isfinite(v).all():
            out.append(('non-finite', '%s is not finite' % name, {}))
    if out:
        return out
    I = torch.eye(f, dtype=X.dtype)
    if cls == 'HouseholderSequence':
        Q = obs['matrix']
        if (Q.t() @ Q - I).abs().max() > t * 10:
            out.append(('not-orthogonal', 'matrix()^T matrix() != I (max dev %.3e)' % float((Q.t() @ Q - I).abs().max()), {}))
        if (obs['forward'] - X @ Q.t()).abs().max() > t * 10 * (1 + float(X.abs().max())):
            out.append(('matrix', 'forward(x) != matrix() x', {}))
        with torch.no_grad():
            back = m.inverse(obs['forward'])[0]
        if (back - X).abs().max() > t * 10 * (1 + float(X.abs().max())):
            out.append(('inverse', 'inverse(forward(x)) != x', {}))
        if obs['forward_ld'].abs().max() > 0 or obs['inverse_ld'].abs().max() > 0:
            out.append(('logabsdet', 'Householder log-abs-det is not zero', {}))
        return out
    W, Wi, ld = obs['weight'], obs['weight_inverse'], obs['logabsdet']
    kap = kappa if kappa is not None else cond_of(cls, m)
    tt = t * kap
    with torch.no_grad():
        b = m.bias
        if (W @ Wi - I).abs().max() > tt or (Wi @ W - I).abs().max() > tt:
            out.append(('weight_inverse', 'weight() @ weight_inverse() != I (max dev %.3e, cond %.2e)' % (float((W @ Wi - I).abs().max()), kap), {}))
        sl = torch.linalg.slogdet(W.double())[1]
        if abs(float(sl) - float(ld)) > tt * (1 + abs(float(sl))) * (1 if prec == 'f64' else 10):
            out.append(('logabsdet', 'logabsdet() = %r but log|det weight()| = %r' % (float(ld), float(sl)), {}))
        ref = X @ W.t() + b
        sc = 1 + float(ref.abs().max())
        if (obs['forward'] - ref).abs().max() > tt * sc:
            out.append(('forward', 'forward(x) != weight() x + bias (max dev %.3e)' % float((obs['forward'] - ref).abs().max()), {}))
        if (obs['forward_ld'] - ld).abs().max() > tt * (1 + abs(float(ld))):
            out.append(('logabsdet', 'forward log-abs-det != logabsdet()', {}))
        if (obs['inverse_ld'] + ld).abs().max() > tt * (1 + abs(float(ld))):
            out.append(('logabsdet', 'inverse log-abs-det != -logabsdet()', {}))
        back = m.inverse(obs['forward'])[0]
        if (back - X).abs().max() > tt * (1 + float(X.abs().max())):
            out.append(('inverse', 'inverse(forward(x)) != x (max dev %.3e)' % float((back - X).abs().max()), {}))
        refi = (X - b) @ Wi.t()
        if (obs['inverse'] - refi).abs().max() > tt * (1 + float(refi.abs().max())):
            out.append(('inverse', 'inverse(x) != weight_inverse() (x - bias)', {}))
        for a, r_, nm in (('wal_w', W, 'weight_and_logabsdet'), ('wial_wi', Wi, 'weight_inverse_and_logabsdet')):
            if (obs[a] - r_).abs().max() > tt * (1 + float(r_.abs().max())):
                out.append(('combined-accessor', '%s()[0] differs from the separate accessor' % nm, {'accessor': nm}))
        for a, nm in (('wal_ld', 'weight_and_logabsdet'), ('wial_ld', 'weight_inverse_and_logabsdet')):
            if abs(float(obs[a]) - float(ld)) > tt * (1 + abs(float(ld))):
                out.append(('combined-accessor', '%s()[1] differs from logabsdet()' % nm, {'accessor': nm}))
        if (obs['cached_forward'] - obs['forward']).abs().max() > tt * sc:
            out.append(('cache', 'forward through the cache differs from forward_no_cache', {}))
        if (obs['cached_inverse'] - obs['inverse']).abs().max() > tt * (1 + float(obs['inverse'].abs().max())):
            out.append(('cache', 'inverse through the cache differs from inverse_no_cache', {}))
        if 'reloaded_forward' in obs and not is_err(obs['reloaded_forward']) and (obs['reloaded_forward'] - obs['forward']).abs().max() > tt * sc:
            out.append(('cache', 'cached forward after the enclosing module loaded these weights differs from forward_no_cache (cache filled under the previous weights)', {'history': 'container-load'}))
        if 'reloaded_inverse' in obs and not is_err(obs['reloaded_inverse']) and (obs['reloaded_inverse'] - obs['inverse']).abs().max() > tt * (1 + float(obs['inverse'].abs().max())):
            out.append(('cache', 'cached inverse after the enclosing module loaded these weights differs from inverse_no_cache (cache filled under the previous weights)', {'history': 'container-load'}))
        for d_ in ('forward', 'inverse'):
            k_ = 'alternating_' + d_
            if k_ in obs and not is_err(obs[k_]) and (obs[k_] - obs[d_]).abs().max() > tt * (sc if d_ == 'forward' else (1 + float(obs['inverse'].abs().max()))):
                out.append(('cache', 'cached %s computes another map while a second cached layer of the class is in use' % d_, {'history': 'two-instances'}))
        for attr in ('orthogonal', 'orthogonal_1', 'orthogonal_2'):
            if hasattr(m, attr):
                Q = getattr(m, attr).matrix()
                if (Q.t() @ Q - I).abs().max() > t * 10:
                    out.append(('not-orthogonal', '%s.matrix() is not orthogonal' % attr, {}))
    return out


def oracle_config(cls, f, k, mode, pk, seed):
    """-> (failures, case); construction failures other than deliberate refusals are failures"""
    case = {'class': cls, 'features': f, 'num_transforms': k, 'mode': mode, 'params': pk, 'seed': seed}
    try:
        m, X, prec = prepare(cls, f, k, mode, pk, seed)
    except Exception as e:  # noqa
        kd = _kind(e)
        if kd in REJECT:
            return [], case
        return [(kd, 'constructor raises %r' % (e,), {'accessor': '__init__'})], case
    case['param_bits'] = {n: bits.tensor_bits(p) for n, p in zip(PARAMS[cls], get_params(m, cls))}
    case['x_bits'] = bits.tensor_bits(X)
    return oracle_module(m, cls, X, prec), case


def _report(ctx, fails, case):
    for (sym, what, extra) in fails[:1]:
        match = {'class': case['class'], 'features': case['features'], 'num_transforms': case['num_transforms'], 'symptom': sym}
        match.update(extra)
        if sym in ('IndexError', 'TypeError', 'AssertionError', 'ValueError', 'RuntimeError', 'other') and extra.get('accessor') not in (None, '__init__'):
            match['symptom'] = 'raises'
        ctx.fail('%s(%s%s)%s: %s' % (case['class'], case['features'], '' if case['num_transforms'] is None else ', %s' % case['num_transforms'],
                                     '' if case['mode'] is None else ' mode=%s' % case['mode'], what), case, match=match)


def search(ctx):
    sub = 0
    large_scaled(ctx, report=lambda fails, case: _report(ctx, fails, case))
    # first the cases the correspondence disagreed on, then the whole generator
    seen = set()
    todo = []
    conv_todo = []
    for d in ctx.disagreements:
        c = d.get('case') or {}
        if isinstance(c, dict) and c.get('class') == 'OneByOneConvolution':
            if 'shape' in c:
                conv_todo.append(tuple(c['shape']) + (c.get('mode'), c.get('params', 'rand64a'), c.get('seed', 0)))
            continue
        if isinstance(c, dict) and c.get('class') not in CLASSES:
            continue
        if isinstance(c, dict) and 'class' in c and c.get('features', 0) and c['features'] > 0 and 'params' in c and c['params'] in param_kinds(ctx):
            todo.append((c['class'], c['features'], c.get('num_transforms'), c.get('mode'), c['params'], c.get('seed', 0)))
        elif isinstance(c, dict) and 'class' in c and isinstance(c.get('features'), int) and c['features'] > 0:
            k = c.get('num_transforms')
            if isinstance(k, int) and k > 0 and not (c['class'] == 'SVDLinear' and k % 2):
                for mode in modes(c['class']):
                    todo.append((c['class'], c['features'], k, mode, 'fresh32', 1))
    for (cls, f, k, mode) in configs(ctx):
        for pk in ['fresh32', 'fresh64', 'rand64a', 'rand64b']:
            sub += 1
            todo.append((cls, f, k, mode, pk, ctx.seed * 100003 + sub))
    sub2 = 0
    for shp in CONV_SHAPES:
        for mode in (True, False):
            for pk in ('fresh64', 'rand64a'):
                sub2 += 1
                conv_todo.append(tuple(shp) + (mode, pk, ctx.seed * 100003 + 900000 + sub2))
    for t in conv_todo:
        if t in seen:
            continue
        seen.add(t)
        fails, case = oracle_conv(*t)
        if fails:
            _report(ctx, fails, case)
        if len(ctx.failing) >= 4:
            break
    for t in todo:
        if t in seen:
            continue
        seen.add(t)
        fails, case = oracle_config(*t)
        if fails:
            _report(ctx, fails, case)
        if len(ctx.failing) >= 8 or ctx.elapsed() > (600 if ctx.quick() else 3000):
            break


def replay_finding(ctx, entry):
    """re-run the witness of a listed finding on the implementation; True = it still fails"""
    mt = entry.get('match', {})
    cls = mt.get('class', 'HouseholderSequence')
    feats = [mt['features']] if isinstance(mt.get('features'), int) else [1, 2, 3]
    ks = [mt['num_transforms']] if isinstance(mt.get('num_transforms'), int) else ([None] if counts(cls) == [None] else [2, 4])
    want = mt.get('symptom')
    excs = ('IndexError', 'TypeError', 'AssertionError', 'ValueError', 'RuntimeError', 'other', 'raises')
    for f in feats:
        for k in ks:
            for mode in modes(cls):
                for pk in ('fresh32', 'fresh64', 'rand64a'):
                    try:
                        m, X, prec = prepare(cls, f, k, mode, pk, 11)
                    except Exception as e:  # noqa  (a finding witness that cannot even be constructed still fails)
                        fails = [(_kind(e), repr(e), {'accessor': '__init__'})]
                    else:
                        fails = oracle_module(m, cls, X, prec)
                    for (sym, what, extra) in fails:
                        if 'accessor' in mt and mt['accessor'] != extra.get('accessor'):
                            continue
                        if 'accessor' not in mt and want in excs and extra.get('accessor') != '__init__':
                            continue      # an entry about a raising constructor is not re-opened by a raising accessor
                        if 'dtype' in mt and extra.get('dtype') not in (None, mt['dtype']):
                            continue
                        if want is None or sym == want or (want in excs and sym in excs) or want not in (
                                'non-finite', 'not-orthogonal', 'matrix', 'inverse', 'logabsdet', 'forward', 'weight_inverse',
                                'combined-accessor', 'cache') + excs:
                            return True
    return False


def replay(ctx, payload):
    f = payload.get('failing') or {}
    case = f.get('case') or {}
    if 'class' not in case:
        return None
    if (f.get('match') or {}).get('regression') or 'features' not in case or 'params' not in case:
        return replay_finding(ctx, {'match': case})       # the witness of a listed finding
    if case['class'] == 'OneByOneConvolution':
        fails, _ = oracle_conv(*(tuple(case['shape']) + (case.get('mode'), case.get('params', 'rand64a'), case.get('seed', 0))))
        for x in fails:
            print('  still failing: %s' % x[1])
        return bool(fails)
    fails, _ = oracle_config(case['class'], case['features'], case.get('num_transforms'), case.get('mode'), case.get('params', 'fresh32'),
                             case.get('seed', 0))
    for x in fails:
        print('  still failing: %s' % x[1])
    return bool(fails)
