"""C19 — single precision agrees with double precision and stays finite (PARTIAL: dtype clause proved on a model; the
numeric clause is carried by the correspondence, not by a theorem).

Correspondence: for every modelled transform x bounded parameter regimes x in-domain inputs: the implementation in
float32 and its float64 twin (deepcopy().double()) against the Lean model executed in Float32 / Float, both
directions; results finite; dtypes of results equal the input dtype; float32 vs float64 within single-precision
accuracy scaled by the conditioning the model reports."""
import copy, math
import torch
from harness.common import registry as R, tcorr, oracles

PROPERTY = 'C19'
LEVEL = 'other'
REQUIRED_THEOREMS = ['Properties.C19.' + n for n in ('result_dtype_eq_input', 'promote_assoc', 'fresh_constant_counterexample',
    'dot_two_precisions', 'dot_two_precisions_gamma', 'linear_two_precisions', 'affine_two_precisions', 'affine_inverse_two_precisions',
    'affine_chain_two_precisions', 'composite_error', 'sum_log_error', 'leaky_relu_error', 'exp_error', 'exact_is_u_zero', 'two_precisions_example',
    'lu_two_precisions', 'flow_error', 'flow_two_precisions', 'flow_logdet_two_precisions', 'flow_two_precisions_example',
    'round_to_nearest_even_is_standard_model', 'ieee_round_to_nearest_is_fl', 'dot_binary32_binary64', 'flow_binary32_binary64', 'half_ulp_tie')]
RULE = ("registry x regimes (fresh, normal: moderate magnitudes) x both directions: float32 implementation vs Float32 model, float64 twin vs Float model, "
        "float32 vs float64 implementation (tolerance 64*2^-24*(1+|v|)*exp(|logabsdet|)), result dtypes; distinct = (entry, regime, direction); non-trivial = not the identity")
EXPLANATION = ("dtype-propagation theorem on a promotion-lattice model (Properties.C19); numeric clause: theorems in the standard model of floating-point arithmetic "
               "(every primitive of the EXECUTED program followed by a rounding with relative error <= u; realised in Lean by round-to-nearest-even to p bits, which IEEE roundTiesToEven is proved to equal on the normal range; that torch's kernels ARE correctly rounded and stay in the normal range is trusted) "
               "for the inner product / F.linear / point-wise affine element and chains of them / LeakyReLU / Exp / log-det sums: the two precisions differ by at most the two "
               "rounding budgets times the conditioning scale (sum |x_i||w_i|); for everything else (splines, branches on rounded constants, finiteness) the clause is decided by "
               "executing the same Lean definitions in Float32 and Float against the float32 implementation and its float64 twin")
ASSUMPTIONS = ["moderate magnitudes: parameters fresh or N(0, 0.5)-perturbed, inputs N(0, 2) / uniform in the box", "UMNN transforms only via the search oracle"]

U32 = 2.0 ** -24


def correspondence(ctx):
    """thorough tier: several independent generator seeds (the quick tier runs one)"""
    for rep in range(1 if ctx.quick() else 6):
        _correspondence_once(ctx, rep)
        if ctx.elapsed() > 1500:
            break


def _correspondence_once(ctx, rep=0):
    gen = torch.Generator().manual_seed(ctx.seed * 19001 + 19 + 104729 * rep)
    E = R.entries('quick' if ctx.quick() else 'full')
    jobs = []
    pairs = []
    for e in E:
        for regime in ('fresh', 'normal'):
            t32 = tcorr.build(e, gen, torch.float32, regime)
            # the twin is made from a model that has ALREADY been evaluated in float32 (per-instance memoised values must
            # not survive the dtype conversion)
            R.impl_call(t32, R.make_inputs(e, 2, gen, torch.float32, False), R.make_context(e, 2, gen, torch.float32), False)
            t64 = copy.deepcopy(t32).double()
            for inverse in (False, True):
                x32 = R.make_inputs(e, 3, gen, torch.float32, inverse)
                if e.kind == 'nonlin' and e.dom_fwd is None and not inverse and x32.numel() >= 6:
                    # moderate but not small magnitudes
                    fl = x32.view(-1); fl[0] = 9.0; fl[1] = 17.0; fl[2] = -17.0; fl[3] = 6.5
                c32 = R.make_context(e, 3, gen, torch.float32)
                x64 = x32.double(); c64 = c32.double() if c32 is not None else None
                j32 = tcorr.make_job(e, t32, x32, c32, inverse, regime, tag='f32')
                j64 = tcorr.make_job(e, t64, x64, c64, inverse, regime, tag='f64twin')
                jobs += [j32, j64]
                pairs.append((e, regime, inverse, j32, j64))
    tcorr.run_jobs(jobs)
    for j in jobs:
        if j.prec == 'f32':
            tcorr.compare(ctx, j, 'C19', observables=('out', 'ld'), atol=64 * U32, rtol=64 * U32)
        else:
            tcorr.compare(ctx, j, 'C19', observables=('out', 'ld'))
    # classes the transform-level model does not cover (linear family incl. large feature counts, normalisation layers,
    # permutations, wrappers, UMNN): the numeric clause is checked directly, float32 vs the float64 twin
    before = len(ctx.failing)
    direct(ctx, oracles.extra_entries(), count=True)
    # ... and on the model-covered entries too: implementation(float32) = model(Float32) and implementation(float64) = model(Float)
    # say nothing about float32 vs float64 (a formula that is -inf in BOTH the float32 code and the Float32 model agrees perfectly)
    direct(ctx, E, count=True)
    for f in ctx.failing[before:]:
        if not ctx.is_known(f['match']):
            ctx.disagree('C19/direct-f32-vs-f64', f['case'], f['what'], 'float32 within single-precision accuracy of the float64 twin', f['what'])
    for (e, regime, inverse, j32, j64) in pairs:
        case = {'entry': e.name, 'regime': regime, 'inverse': inverse}
        ctx.case(key=('f32vs64', e.name, regime, inverse), branch='f32-vs-f64', nontrivial=True, n=int(j32.x.numel()))
        if j32.kind != j64.kind:
            ctx.disagree('C19/f32-vs-f64', case, j32.kind, j64.kind, 'float32 and float64 outcomes differ in kind')
            continue
        if j32.kind != 'ok':
            continue
        if j32.y.dtype != torch.float32 or j32.ld.dtype != torch.float32 or j64.y.dtype != torch.float64 or j64.ld.dtype != torch.float64:
            ctx.disagree('C19/dtype', case, [str(j32.y.dtype), str(j32.ld.dtype), str(j64.y.dtype), str(j64.ld.dtype)], ['float32', 'float32', 'float64', 'float64'],
                         'results do not carry the dtype of the inputs')


def search(ctx):
    """the property directly: float32 implementation vs its float64 twin"""
    direct(ctx, oracles.all_entries('quick'))
    if len(ctx.failing) >= 6:
        return
    # the same in a FRESH interpreter with the float64 twin evaluated FIRST (state kept at module level — a cache filled by whichever
    # precision came first in the process — makes the result depend on the order of the calls)
    import subprocess, sys as _sys, json as _json
    try:
        pr = subprocess.run([_sys.executable, '-W', 'ignore', '-c',
                             'import json,sys\nfrom harness.props import c19\nprint("R="+json.dumps(c19.fresh_first64(int(sys.argv[1])), default=str))', str(ctx.seed)],
                            capture_output=True, text=True, timeout=900)
        line = next((l for l in pr.stdout.splitlines() if l.startswith('R=')), None)
        for f in (_json.loads(line[2:]) if line else []):
            ctx.fail(f['what'] + ' (fresh interpreter, float64 twin evaluated first)', dict(f['case'], order='float64 first', fresh_process=True),
                     match=dict(f.get('match') or {}, order='float64-first'))
    except Exception as ex:
        ctx.notes.append('C19 fresh-interpreter search raised %r' % (ex,))


def fresh_first64(seed):
    from harness.common import run as _run
    c2 = _run.Ctx('C19', 'quick', seed)
    c2.known_entries = []
    direct(c2, oracles.all_entries('quick'), first64=True)
    return [{'what': f['what'], 'case': f['case'], 'match': f.get('match')} for f in c2.failing]


def direct(ctx, entries, count=False, first64=False):
    gen = torch.Generator().manual_seed(ctx.seed + 1919)
    for e in entries:
        if e.extra.get('huge'):
            continue      # determinants of 1e-400 / 1e+358: not "parameters of moderate magnitude"
        try:
            for regime in (('fresh',) if e.extra.get('big') else ('fresh', 'normal')):
                t32 = tcorr.build(e, gen, torch.float32, regime)
                if not e.extra.get('train') and not first64:
                    # the twin is made from a model that has already been evaluated (a per-instance memo must not survive the conversion)
                    R.impl_call(t32, R.make_inputs(e, 2, gen, torch.float32, False), R.make_context(e, 2, gen, torch.float32), False)
                t64 = copy.deepcopy(t32).double()
                for inverse in ((True, False) if first64 else (False, True)):
                    if inverse and (e.name.startswith('Squeeze') or 'UMNN' in e.name or e.extra.get('train')):
                        continue   # UMNN: independently drawn points need not lie in the range reachable by the bisection bracket
                    x32 = R.make_inputs(e, 3, gen, torch.float32, inverse)
                    if e.kind == 'nonlin' and getattr(e, 'dom_fwd', None) is None and not inverse and x32.numel() >= 6:
                        fl = x32.view(-1); fl[0] = 9.0; fl[1] = 17.0; fl[2] = -17.0; fl[3] = 6.5    # moderate, not small, magnitudes
                    if e.extra.get('train'):
                        # training-mode statistics on data whose mean is large relative to its spread (moderate magnitudes)
                        t32 = tcorr.build(e, gen, torch.float32, regime); t64 = copy.deepcopy(t32).double()
                        t32.train(); t64.train()
                        x32 = e.extra['offset'] + e.extra['spread'] * torch.randn((16,) + e.in_shape, generator=gen, dtype=torch.float32)
                    c32 = R.make_context(e, 3, gen, torch.float32)
                    if first64:
                        k64, y64, l64 = R.impl_call(t64, x32.double(), c32.double() if c32 is not None else None, inverse)
                        k32, y32, l32 = R.impl_call(t32, x32, c32, inverse)
                    else:
                        k32, y32, l32 = R.impl_call(t32, x32, c32, inverse)
                        k64, y64, l64 = R.impl_call(t64, x32.double(), c32.double() if c32 is not None else None, inverse)
                    cls = e.name.split('/')[0]
                    case = {'entry': e.name, 'regime': regime, 'inverse': inverse, 'x': x32.reshape(-1).tolist()[:12]}
                    M = lambda sym: {'class': cls, 'symptom': sym, 'family': e.spline.get('fam'), 'inverse': inverse, 'dtype': 'float32'}
                    if count:
                        ctx.case(key=('direct', e.name, regime, inverse), branch='direct-f32-vs-f64', nontrivial=True, n=int(x32.numel()))
                    if k64 == 'InputOutsideDomain' or k32 == 'InputOutsideDomain':
                        continue   # rounding of the inputs moved them across a domain boundary
                    if k32 != 'ok' or k64 != 'ok':
                        ctx.fail('raises in %s' % ('float32' if k32 != 'ok' else 'float64 twin'), dict(case, kinds=[k32, k64]), match=M('raises')); continue
                    if y32.dtype != torch.float32 or l32.dtype != torch.float32 or y64.dtype != torch.float64 or l64.dtype != torch.float64:
                        ctx.fail('result dtype differs from input dtype', dict(case, dtypes=[str(y32.dtype), str(l32.dtype), str(y64.dtype), str(l64.dtype)]),
                                 match=M('dtype')); continue
                    if not (torch.isfinite(y32).all() and torch.isfinite(l32).all()):
                        ctx.fail('non-finite float32 result', case, match=M('non-finite')); continue
                    # conditioning per dimension (geometric mean of the diagonal derivatives), not of the whole determinant
                    kap = torch.exp((l64.abs() / max(1, x32[0].numel())).clamp(max=20)) if e.kind == 'extra' else torch.exp(l64.abs().clamp(max=20))
                    cub = 0.25 if e.spline.get('fam') == 'cubic' else 0.0   # Hermite coefficients (d0+d1-2s)/w^2 cancel badly in float32
                    tol_l = 256 * U32 * (1 + l64.abs()) * kap * max(1, x32[0].numel()) + cub
                    kk = kap.reshape(-1, *([1] * (y64.dim() - 1)))
                    bad_l = bool(((l32.double() - l64).abs() > tol_l + oracles._declared(e)).any())
                    bad_y = bool(((y32.double() - y64).abs() > 256 * U32 * (1 + y64.abs()) * kk + oracles._declared(e) + cub / 10).any())
                    if (bad_l or bad_y) and inverse and not e.extra.get('train'):
                        # an ill-conditioned inverse (a flat bin, hidden in a row whose log-dets cancel): single-precision accuracy in the
                        # BACKWARD sense — the float64 forward map at the float32 answer returns the input and the negated log-det
                        kb, yb, lb = R.impl_call(t64, y32.double(), c32.double() if c32 is not None else None, False)
                        if kb == 'ok' and bool(((yb - x32.double()).abs() <= 256 * U32 * (1 + x32.double().abs()) + oracles._declared(e) + cub / 10).all()) \
                                and bool(((lb + l32.double()).abs() <= 256 * U32 * (1 + lb.abs()) * max(1, x32[0].numel()) + oracles._declared(e) + cub).all()):
                            bad_l = bad_y = False
                            if count:
                                ctx.count('direct-f32-vs-f64/backward-error')
                    if bad_l and not e.extra.get('train'):
                        # conditioning of the LOG-DET as a function of the input: a float32 evaluation is the exact one at an input moved by
                        # a few float32 ulps, so its log-det may differ by (local Lipschitz constant of ld) x (that move); the constant is
                        # estimated from the float64 twin on both sides of the input (where the moved input is still in the domain)
                        eta = 1e-3
                        xd = x32.double(); cd = c32.double() if c32 is not None else None
                        lip = torch.zeros_like(l64)
                        for sgn in (-1.0, 1.0):
                            kq, yq, lq = R.impl_call(t64, xd * (1 + sgn * eta), cd, inverse)
                            if kq == 'ok' and torch.isfinite(lq).all():
                                lip = torch.maximum(lip, (lq - l64).abs() / (eta * (1 + xd.reshape(xd.shape[0], -1).abs().max(1).values)))
                        move = 256 * U32 * (1 + xd.reshape(xd.shape[0], -1).abs().max(1).values) * max(1, x32[0].numel())
                        if not ((l32.double() - l64).abs() > tol_l + oracles._declared(e) + lip * move).any():
                            bad_l = False
                            if count:
                                ctx.count('direct-f32-vs-f64/ld-lipschitz')
                    if bad_l:
                        ctx.fail('float32 log-abs-det off by %.3g' % (l32.double() - l64).abs().max().item(), case, match=M('ld-accuracy')); continue
                    if bad_y:
                        ctx.fail('float32 output off by %.3g' % (y32.double() - y64).abs().max().item(), case, match=M('accuracy'))
        except Exception as ex:
            ctx.notes.append('C19 oracle on %s raised %r' % (e.name, ex))
        if len(ctx.failing) >= 6 or ctx.elapsed() > 900:
            break


def replay_finding(ctx, f):
    return oracles.replay_transform_finding(ctx, f)
