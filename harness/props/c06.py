"""C06 — MADE conditioners are strictly autoregressive for every architecture and weight.

Theorems: Properties.C06 (one generic `forward` — the function the driver executes — is shown to respect the degree
bookkeeping for ANY scalars/values with a dependence system; instantiated (a) at real-valued functions of the whole
input batch: `made_autoregressive`, for all sizes, weights, biases, contexts, per-unit maps; (b) at the integer
path counts the driver prints: `pathCount_zero`).
Correspondence (exact): both copies of the implementation (`nflows.transforms.made`, `nflows.nn.nde.made` incl.
`MixtureOfGaussiansMADE`): `mask` / `degrees` buffers of every `MaskedLinear`, constructor exception kinds, and the
autograd Jacobian w.r.t. (inputs, context) at all-ones weights against the model's integer path-count matrix."""
import importlib, itertools, math
import json
import torch
from torch.nn import functional as TF
from harness.common import leandriver

PROPERTY = 'C06'
LEVEL = 'proof'
REQUIRED_THEOREMS = ['Properties.C06.made_autoregressive', 'Properties.C06.made_autoregressive_of_build',
                     'Properties.C06.forward_respects_degrees', 'Properties.C06.pathCount_zero',
                     'Properties.C06.build_valid', 'Properties.C06.outputDegrees_getElem',
                     'Properties.C06.mask_getElem', 'Properties.C06.seqDegrees_residual_ok',
                     'Properties.C06.maskedLinear_resp', 'Properties.C06.residual_resp',
                     'Properties.C06.made_output_autoregressive', 'Properties.C06.made_is_autoreg_conditioner',
    "Properties.C06.ar_inverse_exact_after_F_passes", "Properties.C06.ar_inverse_exact_after_F_passes_real", "Properties.C06.ar_inverse_exact_any_input_real", "Properties.C06.made_ar_inverse_exact_after_F_passes", "Properties.C06.ar_one_pass_not_enough",]
RULE = ("cases = (copy in {transforms.MADE, nde.MADE, nde.MixtureOfGaussiansMADE}, F, H, blocks, block type, multiplier, "
        "context width, batch-norm, activation in {relu, t->2t}, random-degree draw); quick: every (copy,F<=6,H<=8,blocks<=3,"
        "type) with the remaining knobs drawn from the PRNG, thorough: the full product; plus random-mask draws per size, "
        "degenerate sizes (F=0, H=0, multiplier 0), the residual+random ValueError and MaskedResidualBlock built directly on "
        "arbitrary in-degrees (RuntimeError contract).  Observables: mask/degrees buffers of every MaskedLinear (exact), "
        "exception kind, Jacobian wrt inputs and context at all-ones weights == integer path-count matrix (exact). "
        "A case is distinct by its full configuration tuple (and drawn degrees) and non-trivial when its path-count matrix "
        "has a non-zero entry in an input column (some output really depends on some input) or, for constructor-only "
        "cases, when some mask has both a 0 and a 1")
EXPLANATION = ("proof: the generic forward pass of the executable model keeps 'unit k depends only on inputs of degree <= deg k' "
               "for every weight/bias/context/per-unit map, any width/depth/multiplier, hence output block i is independent of "
               "inputs >= i; tie: the same Lean definitions are run against both copies of the implementation and compared exactly")
ASSUMPTIONS = ["theorems are over the reals: a masked weight contributes exactly 0 (in IEEE arithmetic 0*inf = NaN, so an infinite or NaN "
               "input is not shielded by a mask)",
               "the user-supplied `activation` acts element-wise per unit (it may couple rows of the batch, as batch norm does, but not units)",
               "F >= 1 and multiplier >= 1 (for F = 0 or multiplier = 0 the constructor raises; modelled and compared)",
               "random degrees are read back from the module after construction; torch.randint is trusted to respect its bounds (checked on every draw)"]

ERRK = {'ValueError': 'ValueError', 'TypeError': 'TypeError', 'RuntimeError': 'RuntimeError', 'IndexError': 'IndexError',
        'AssertionError': 'AssertionError'}


def errkind(e):
    return ERRK.get(type(e).__name__, 'other')


def mods():
    return {'transforms': importlib.import_module('nflows.transforms.made'),
            'nde': importlib.import_module('nflows.nn.nde.made')}


def double_act(t):
    return 2 * t


ACTS = {1: TF.relu, 2: double_act}


def construct(cfg, activation=None, dropout=0.0):
    """cfg: dict(copy, F, H, blocks, m, residual, random, C, bn, seed).  -> module (raises what the code raises)"""
    M = mods()
    copy = cfg['copy']
    torch.manual_seed(cfg.get('seed', 0))
    kw = dict(features=cfg['F'], hidden_features=cfg['H'], context_features=(cfg['C'] if cfg['C'] else None),
              num_blocks=cfg['blocks'], use_residual_blocks=bool(cfg['residual']), random_mask=bool(cfg['random']),
              activation=activation if activation is not None else TF.relu, dropout_probability=dropout,
              use_batch_norm=bool(cfg['bn']))
    if copy == 'mog':
        assert cfg['m'] % 3 == 0
        return M['nde'].MixtureOfGaussiansMADE(num_mixture_components=cfg['m'] // 3, **kw)
    return M['transforms' if copy == 'transforms' else 'nde'].MADE(output_multiplier=cfg['m'], **kw)


def masked_linears(net):
    """by role: every sub-module that carries a `mask` and a `degrees` buffer, in module order"""
    out = []
    for mod in net.modules():
        b = dict(mod.named_buffers(recurse=False))
        if 'mask' in b and 'degrees' in b:
            out.append(mod)
    return out


def hidden_degrees(net):
    return [[int(v) for v in l.degrees.tolist()] for l in masked_linears(net)[:-1]]


def enc_layers(net):
    ls = masked_linears(net)
    out = [len(ls)]
    for l in ls:
        mk = l.mask
        out += [mk.shape[0], mk.shape[1]] + [int(v) for v in l.degrees.tolist()] + [int(v) for v in mk.reshape(-1).tolist()]
        if not bool(((mk == 0) | (mk == 1)).all()):
            out.append(-1)
    return out


def set_unit_weights(net):
    """all weights 1, all biases 0; batch norm = identity in eval mode: running mean 0, running var v with v + eps == 1 exactly"""
    net.double()
    with torch.no_grad():
        for name, p in net.named_parameters():
            if name.endswith('bias'):
                p.zero_()
            else:
                p.fill_(1.0)
        for mod in net.modules():
            if isinstance(mod, torch.nn.modules.batchnorm._BatchNorm):
                eps = float(mod.eps)
                v = 1.0 - eps
                for _ in range(8):
                    if v + eps == 1.0:
                        break
                    v = math.nextafter(v, 2.0 if v + eps < 1.0 else 0.0)
                mod.running_mean.zero_()
                mod.running_var.fill_(v)


def impl_jacobian(net, cfg):
    """Jacobian of the outputs wrt (inputs, context) at a positive integer point, one backward pass:
    R = F*m identical rows, d out[r, r] / d x[r, :]  (rows are independent in eval mode)."""
    F, m, C = cfg['F'], cfg['m'], cfg['C']
    R = F * m
    net = net.double().eval()
    x = (torch.arange(1, F + 1, dtype=torch.float64)).repeat(R, 1).requires_grad_(True)
    c = (torch.arange(1, C + 1, dtype=torch.float64) + 1).repeat(R, 1).requires_grad_(True) if C else None
    out = net(x, c) if C else net(x)
    if tuple(out.shape) != (R, R):
        return ('shape', list(out.shape))
    s = out.diagonal().sum()
    g = torch.autograd.grad(s, [x] + ([c] if C else []), allow_unused=True)
    gx = g[0] if g[0] is not None else torch.zeros(R, F, dtype=torch.float64)
    J = gx
    if C:
        gc = g[1] if g[1] is not None else torch.zeros(R, C, dtype=torch.float64)
        J = torch.cat([gx, gc], 1)
    if not bool((J == J.round()).all()) or not bool(torch.isfinite(J).all()):
        return ('nonint', J.reshape(-1).tolist())
    return ('ok', [int(v) for v in J.reshape(-1).tolist()])


def model_req(cfg, act_mul, want_masks, want_paths, degs, no_draws=False):
    flat = [v for d in degs for v in d]
    return {'op': 'made', 'i': [cfg['F'], cfg['H'], cfg['blocks'], cfg['m'], int(cfg['residual']), int(cfg['random']),
                                0 if cfg['copy'] == 'transforms' else 1, cfg['C'], int(cfg['bn']), act_mul,
                                int(want_masks), int(want_paths), int(no_draws)] + flat}


def split_resp(resp):
    """-> (layers_enc, rows, cols, paths, valid)"""
    i = resp['i']
    L = i[0]
    pos = 1
    for _ in range(L):
        no, ni = i[pos], i[pos + 1]
        pos += 2 + no + no * ni
    layers = i[:pos]
    rows, cols = i[pos], i[pos + 1]
    paths = i[pos + 2: pos + 2 + rows * cols]
    return layers, rows, cols, paths, i[-1]


# ------------------------------------------------------------------------------------------------------------
def grid(ctx):
    """(cfg, act_mul, want_masks) for the sequential-degree networks"""
    rng = ctx.rng
    Fs, Hs, Bs = range(1, 7), range(1, 9), range(0, 4)
    for copy in ('transforms', 'nde'):
        for F in Fs:
            for H in Hs:
                for blocks in Bs:
                    for residual in (False, True):
                        base = dict(copy=copy, F=F, H=H, blocks=blocks, residual=residual, random=False, seed=0)
                        if ctx.quick():
                            combos = [(rng.choice((1, 2, 3)), rng.choice((0, 1, 2)), rng.choice((False, True)), rng.choice((1, 2)))
                                      for _ in range(6)]
                        else:
                            combos = list(itertools.product((1, 2, 3), (0, 2), (False, True), (1, 2)))
                        first = True
                        for (m, C, bn, am) in combos:
                            yield dict(base, m=m, C=C, bn=bn), am, first
                            first = False
    # large feature counts (hidden degrees beyond the range of small integer dtypes); masks and path counts for one block
    for copy in ('transforms', 'nde'):
        for (F, H) in ((300, 260), (257, 300)):
            yield dict(copy=copy, F=F, H=H, blocks=1, residual=False, random=False, seed=0, m=1, C=0, bn=False), 1, True
    # the mixture-density subclass (multiplier 3 * components)
    for F in (1, 2, 3, 5):
        for H in (1, 2, 4, 7):
            for blocks in (0, 1, 2):
                for residual in (False, True):
                    for K in ((1, 2) if not ctx.quick() else (rng.choice((1, 2)),)):
                        yield dict(copy='mog', F=F, H=H, blocks=blocks, residual=residual, random=False, seed=0,
                                   m=3 * K, C=rng.choice((0, 1)), bn=rng.choice((False, True))), 1, True


def random_cases(ctx):
    rng = ctx.rng
    ndraw = 5 if ctx.quick() else 100
    for copy in ('transforms', 'nde'):
        for F in range(1, 7):
            for H in range(1, 9):
                for blocks in range(0, 4):
                    for _ in range(ndraw):
                        yield dict(copy=copy, F=F, H=H, blocks=blocks, residual=False, random=True, seed=rng.randrange(1 << 30),
                                   m=rng.choice((1, 2, 3)), C=rng.choice((0, 0, 1)), bn=rng.choice((False, True))), rng.choice((1, 2)), True
    for F in (2, 4):
        for H in (3, 6):
            yield dict(copy='mog', F=F, H=H, blocks=2, residual=False, random=True, seed=rng.randrange(1 << 30), m=3, C=0, bn=False), 1, True


def error_cases(ctx):
    """constructor contracts at degenerate sizes and the forbidden residual+random combination"""
    rng = ctx.rng
    for copy in ('transforms', 'nde', 'mog'):
        mm = 3 if copy == 'mog' else 2
        for F, H, blocks in ((1, 1, 0), (2, 3, 1), (3, 2, 2), (6, 8, 3)):
            yield dict(copy=copy, F=F, H=H, blocks=blocks, residual=True, random=True, seed=1, m=mm, C=0, bn=False)
        for residual, random_ in ((False, False), (True, False), (False, True)):
            for blocks in (0, 1, 2):
                yield dict(copy=copy, F=0, H=3, blocks=blocks, residual=residual, random=random_, seed=2, m=mm, C=0, bn=False)
                yield dict(copy=copy, F=3, H=0, blocks=blocks, residual=residual, random=random_, seed=3, m=mm, C=0, bn=False)
                yield dict(copy=copy, F=1, H=0, blocks=blocks, residual=residual, random=random_, seed=3, m=mm, C=1, bn=False)
                if copy != 'mog':
                    yield dict(copy=copy, F=2, H=3, blocks=blocks, residual=residual, random=random_, seed=4, m=0, C=0, bn=False)


def run_case(cfg, act_mul, want_masks):
    """implementation side of one case -> dict(kind, layers, jac, degs)"""
    try:
        net = construct(cfg, activation=ACTS[act_mul])
    except Exception as e:  # the constructor's own exception is the observable
        return {'kind': errkind(e), 'exc': repr(e)[:120], 'degs': []}
    res = {'kind': 'ok', 'degs': hidden_degrees(net) if cfg['random'] else []}
    res['layers'] = enc_layers(net)
    set_unit_weights(net)
    try:
        res['jac'] = impl_jacobian(net, cfg)
    except Exception as e:
        res['jac'] = ('raised', errkind(e), repr(e)[:200])
    return res


def compare(ctx, cfg, act_mul, want_masks, impl, resp, branch):
    case = dict(cfg, act_mul=act_mul)
    key = tuple(sorted((k, str(v)) for k, v in case.items())) + (str(impl.get('degs')),)
    merr = resp.get('e')
    if impl['kind'] != 'ok' or merr:
        ctx.case(key=('err',) + key, branch='error:%s' % impl['kind'], nontrivial=False,
                 sample=dict(case, impl=impl['kind'], model=merr) if (impl['kind'] == 'RuntimeError' and ctx.branches.get('error:RuntimeError', 0) == 0) else None)
        if (merr or 'ok') != impl['kind']:
            ctx.disagree('made/constructor', case, impl['kind'] + ' ' + impl.get('exc', ''), merr or 'ok',
                         'constructor outcome differs (exception kind)')
        return
    layers, rows, cols, paths, valid = split_resp(resp)
    ok = True
    if want_masks and layers != impl['layers']:
        ok = False
        ctx.disagree('made/masks', case, impl['layers'], layers, 'mask/degrees buffers of the MaskedLinear layers differ')
    jk = impl['jac']
    if jk[0] != 'ok':
        ok = False
        ctx.disagree('made/paths', case, list(jk), [rows, cols], 'implementation Jacobian is not an integer matrix / forward raised')
    elif [rows, cols] != [cfg['F'] * cfg['m'], cfg['F'] + cfg['C']] or paths != jk[1]:
        ok = False
        ctx.disagree('made/paths', case, jk[1], paths, 'autograd Jacobian at all-ones weights differs from the path-count matrix')
    if valid != 1:
        ok = False
        ctx.disagree('made/valid', case, None, valid, 'model: constructed net fails Net.valid (hypothesis of made_autoregressive)')
    F, C = cfg['F'], cfg['C']
    dep = any(paths[r * cols + j] != 0 for r in range(rows) for j in range(F)) if rows * cols == len(paths) else False
    sampled = ctx.__dict__.setdefault('_c06_sampled', set())
    take = dep and cfg['F'] >= 3 and cfg['H'] >= 2 and cfg['blocks'] >= 1 and branch not in sampled and len(sampled) < 5
    if take:
        sampled.add(branch)
    ctx.case(key=key, branch=branch, nontrivial=dep,
             sample=dict(case, path_count_rows_0_1=paths[:2 * cols], path_count_last_row=paths[-cols:], drawn_degrees=impl['degs'][:2])
             if take else None)
    return ok


def resblock_cases(ctx):
    rng = ctx.rng
    n = 60 if ctx.quick() else 600
    for copy in ('transforms', 'nde'):
        yield copy, 3, True, [1, 2, 1]
        yield copy, 1, False, [0, 0]
        yield copy, 1, False, [1]
        for _ in range(n):
            F = rng.randrange(1, 7)
            H = rng.randrange(1, 9)
            kind = rng.random()
            if kind < 0.4:      # the degrees the constructor itself would pass (always accepted)
                d = [k % max(1, F - 1) + min(1, F - 1) for k in range(H)]
            elif kind < 0.7:    # one entry nudged
                d = [k % max(1, F - 1) + min(1, F - 1) for k in range(H)]
                k = rng.randrange(H)
                d[k] = max(0, d[k] + rng.choice((-1, 1)))
            else:
                d = [rng.randrange(0, F + 1) for _ in range(H)]
            yield copy, F, False, d


def run_resblock(copy, F, random_, d):
    M = mods()['transforms' if copy == 'transforms' else 'nde']
    try:
        b = M.MaskedResidualBlock(in_degrees=torch.tensor(d, dtype=torch.long), autoregressive_features=F, random_mask=random_)
    except Exception as e:
        return {'kind': errkind(e), 'exc': repr(e)[:120]}
    return {'kind': 'ok', 'layers': enc_layers(b)}


def correspondence(ctx):
    torch.set_num_threads(1)
    reqs, metas = [], []
    gens = (('seq', grid(ctx)), ('random', random_cases(ctx)), ('degenerate', ((c, 1, True) for c in error_cases(ctx))))
    for tag, gen in gens:
        for cfg, am, wm in gen:
            impl = run_case(cfg, am, wm)
            if cfg['random'] and impl['kind'] == 'ok':
                # range of the drawn degrees (what the theorem's `random` branch allows) is checked by the model itself
                pass
            reqs.append(model_req(cfg, am, wm, True, impl['degs'], no_draws=(impl['kind'] != 'ok')))
            br = '%s/%s/%s' % (tag, cfg['copy'], 'res' if cfg['residual'] else 'ff')
            metas.append(('made', cfg, am, wm, impl, br))
    for copy, F, random_, d in resblock_cases(ctx):
        impl = run_resblock(copy, F, random_, d)
        reqs.append({'op': 'made_resblock', 'i': [F, int(random_)] + d})
        metas.append(('resblock', dict(copy=copy, F=F, random=random_, in_degrees=d), None, None, impl, 'resblock/' + copy))
    resps = leandriver.call(reqs)
    for meta, resp in zip(metas, resps):
        kind, cfg, am, wm, impl, br = meta
        if kind == 'made':
            compare(ctx, cfg, am, wm, impl, resp, br)
        else:
            merr = resp.get('e')
            key = ('resblock', cfg['copy'], cfg['F'], cfg['random'], tuple(cfg['in_degrees']))
            if impl['kind'] != 'ok' or merr:
                ctx.case(key=key, branch='resblock/error:%s' % impl['kind'], nontrivial=False,
                         sample=dict(cfg, impl=impl['kind'], model=merr) if ctx.branches.get('resblock/error:%s' % impl['kind'], 0) == 0 else None)
                if (merr or 'ok') != impl['kind']:
                    ctx.disagree('made/resblock', cfg, impl['kind'] + ' ' + impl.get('exc', ''), merr or 'ok',
                                 'MaskedResidualBlock constructor outcome differs')
            else:
                lay = impl['layers']
                mixed = (0 in lay[1:]) and (1 in lay[1:])
                ctx.case(key=key, branch=br, nontrivial=mixed)
                if resp['i'] != lay:
                    ctx.disagree('made/resblock', cfg, lay, resp['i'], 'masks/degrees of a directly built MaskedResidualBlock differ')
    late_writes(ctx)
    ctx.exhaustive = not ctx.quick()
    ctx.extra['exhaustive_scope'] = ('sequential-degree grid copy x F<=6 x H<=8 x blocks<=3 x type x m<=3 x context x batch-norm x activation'
                                     if not ctx.quick() else 'quick: (copy,F,H,blocks,type) complete, other knobs sampled')


def late_writes(ctx, report=None):
    """the masks must hold for EVERY weight: also for weights written after the model was switched to evaluation (or training)
    mode — in place or through load_state_dict — which is the usual order when a checkpoint is loaded for inference"""
    for copy in ('transforms', 'nde', 'mog'):
        for (F, H, blocks, residual) in ((2, 3, 0, False), (3, 5, 1, False), (4, 8, 2, True), (3, 4, 1, True)):
            for late in ('inplace', 'load', 'used-inplace', 'used-load'):
                for train in (False, True):
                    cfg = dict(copy=copy, F=F, H=H, blocks=blocks, m=3 if copy == 'mog' else 2, residual=residual, random=False, C=0, bn=False, seed=F * 7 + H)
                    extra = dict(act='tanh', train=train, dropout=0.0, wseed=F + H + blocks, late=late)
                    r = oracle_case(cfg, **extra)
                    if report is None:
                        ctx.case(key=('late-write', copy, F, H, blocks, residual, late, train), branch='late-write/%s/%s' % (late, 'train' if train else 'eval'), nontrivial=True)
                        if r is not None:
                            ctx.disagree('made/late-write', dict(cfg, **extra), 'output block %s depends on input %s' % (r['i'], r['j']), 'autoregressive',
                                         'weights written after the mode switch leak through the masks')
                    elif r is not None:
                        report(cfg, extra, r)
    # batch norm inside the blocks, training mode, a batch of ONE row: rejected by torch's batch norm — or, if a value comes back, autoregressive
    for copy in ('transforms', 'nde'):
        for (F, H, blocks, residual) in ((3, 6, 1, False), (4, 8, 2, True), (2, 4, 1, False)):
            cfg = dict(copy=copy, F=F, H=H, blocks=blocks, m=2, residual=residual, random=False, C=0, bn=True, seed=F + H)
            extra = dict(act='tanh', train=True, dropout=0.0, wseed=F + H, B=1)
            try:
                r = oracle_case(cfg, **extra)
            except Exception:
                r = None          # the call is refused (ValueError of torch.nn.BatchNorm1d): nothing to be autoregressive
            if report is None:
                ctx.case(key=('late-write', copy, F, H, blocks, residual, 'bn-one-row'), branch='late-write/bn-single-row-train', nontrivial=True)
                if r is not None:
                    ctx.disagree('made/late-write', dict(cfg, **extra), 'output block %s depends on input %s' % (r['i'], r['j']), 'autoregressive or refused',
                                 'batch norm in training mode on a single row: the value returned is not autoregressive')
            elif r is not None:
                report(cfg, extra, r)
    # random masks: a checkpoint restored into a network built under another seed
    for copy in ('transforms', 'nde', 'mog'):
        for (F, H, blocks) in ((3, 7, 1), (4, 9, 2), (5, 6, 1)):
            for sd in (1, 2, 3):
                cfg = dict(copy=copy, F=F, H=H, blocks=blocks, m=3 if copy == 'mog' else 2, residual=False, random=True, C=0, bn=False, seed=100 * sd + F)
                extra = dict(act='tanh', train=False, dropout=0.0, wseed=F + H + sd, late='reload')
                r = oracle_case(cfg, **extra)
                if report is None:
                    ctx.case(key=('late-write', copy, F, H, blocks, 'random', 'reload', sd), branch='late-write/reload-random-mask', nontrivial=True)
                    if r is not None:
                        ctx.disagree('made/late-write', dict(cfg, **extra), 'output block %s depends on input %s' % (r['i'], r['j']), 'autoregressive',
                                     'a network with random masks restored from a checkpoint into a separately built instance is not autoregressive')
                elif r is not None:
                    report(cfg, extra, r)


# ---- the property's own oracle on the implementation ---------------------------------------------------------
ORACLE_ACTS = {'relu': TF.relu, 'tanh': torch.tanh, 'sigmoid': torch.sigmoid}


def oracle_case(cfg, act='relu', train=False, dropout=0.0, wseed=0, B=3, transform=False, late=None):
    """-> None if block i of the outputs is independent of inputs j >= i, else dict(i, j, how, value).
    late = 'inplace' | 'load': the weights are written AFTER the model was put in its mode (in place / through load_state_dict),
    as when a checkpoint is loaded into a model that is already in evaluation mode; 'used-inplace' | 'used-load': the model was
    moreover evaluated once before the weights were written"""
    try:
        net = construct(cfg, activation=ORACLE_ACTS[act], dropout=dropout)
        if late == 'reload':
            # a checkpoint of THIS network restored into a separately built one (random degrees drawn under another seed): the
            # restored network is the same function, so it must be autoregressive too
            fresh = construct(dict(cfg, seed=cfg.get('seed', 0) + 7919), activation=ORACLE_ACTS[act], dropout=dropout)
            fresh.load_state_dict(net.state_dict())
            net = fresh
            late = None
    except Exception:
        return None     # constructor contracts are the correspondence's business
    F, m, C = cfg['F'], cfg['m'], cfg['C']
    if F == 0 or m == 0:
        return None
    g = torch.Generator().manual_seed(wseed)
    if late:
        net.train(train)
        if late.startswith('used-'):
            # the model has already been evaluated (with its initial weights) when the new weights arrive
            with torch.no_grad():
                x0 = torch.randn(2, F, generator=g)
                net(x0, torch.randn(2, C, generator=g)) if C else net(x0)
    with torch.no_grad():
        if late in ('load', 'used-load'):
            sd = {k: (torch.randn(v.shape, generator=g) * 0.7 + 0.1 if (v.is_floating_point() and k in dict(net.named_parameters())) else v.clone())
                  for k, v in net.state_dict().items()}
            net.load_state_dict(sd)
        else:
            for p in net.parameters():
                p.copy_(torch.randn(p.shape, generator=g) * 0.7 + 0.1)
        for mod in net.modules():
            if isinstance(mod, torch.nn.modules.batchnorm._BatchNorm):
                mod.running_mean.copy_(torch.randn(mod.running_mean.shape, generator=g) * 0.3)
                mod.running_var.copy_(torch.rand(mod.running_var.shape, generator=g) + 0.5)
    net = net.double()
    if not late:
        net.train(train)          # (late: the mode was set BEFORE the weights were written and is not touched again)
    x = torch.randn(B, F, generator=g, dtype=torch.float64)
    c = torch.randn(B, C, generator=g, dtype=torch.float64) if C else None

    def run(xx):
        torch.manual_seed(12345)          # same dropout mask on every call
        out = net(xx, c) if C else net(xx)
        return out

    # (1) autograd: d(block i, any row) / d(input j >= i, any row) == 0 exactly
    xr = x.clone().requires_grad_(True)
    out = run(xr)
    if out.shape != (B, F * m):
        return {'i': None, 'j': None, 'how': 'shape', 'value': list(out.shape)}
    coef = torch.rand(out.shape, generator=g, dtype=torch.float64) + 0.5
    for i in range(F):
        s = (out[:, i * m:(i + 1) * m] * coef[:, i * m:(i + 1) * m]).sum()
        if not s.requires_grad:
            continue
        gx = torch.autograd.grad(s, xr, retain_graph=True, allow_unused=True)[0]
        if gx is None:
            continue
        bad = (gx[:, i:] != 0) | torch.isnan(gx[:, i:])
        if bool(bad.any()):
            j = i + int(bad.any(0).nonzero()[0])
            return {'i': i, 'j': j, 'how': 'autograd', 'value': float(gx[:, j].abs().max())}
    # (2) perturbation: changing inputs j >= i (all rows) leaves blocks 0..i identical
    with torch.no_grad():
        base = run(x)
        for i in range(F):
            x2 = x.clone()
            x2[:, i:] = torch.randn(B, F - i, generator=g, dtype=torch.float64) * 3
            o2 = run(x2)
            if not torch.equal(o2[:, :(i + 1) * m], base[:, :(i + 1) * m]):
                # localise (block, input)
                for ii in range(i + 1):
                    for j in range(i, F):
                        x3 = x.clone(); x3[:, j] = x2[:, j]
                        o3 = run(x3)
                        if not torch.equal(o3[:, ii * m:(ii + 1) * m], base[:, ii * m:(ii + 1) * m]):
                            return {'i': ii, 'j': j, 'how': 'perturbation',
                                    'value': float((o3[:, ii * m:(ii + 1) * m] - base[:, ii * m:(ii + 1) * m]).abs().max())}
                return {'i': i, 'j': i, 'how': 'perturbation-joint', 'value': None}
    return None


def oracle_transform(F, H, blocks, residual, wseed):
    """consequence named in the property: a masked affine autoregressive transform has a lower-triangular Jacobian"""
    from nflows.transforms.autoregressive import MaskedAffineAutoregressiveTransform
    torch.manual_seed(wseed)
    t = MaskedAffineAutoregressiveTransform(features=F, hidden_features=H, num_blocks=blocks, use_residual_blocks=residual)
    g = torch.Generator().manual_seed(wseed)
    with torch.no_grad():
        for p in t.parameters():
            p.copy_(torch.randn(p.shape, generator=g) * 0.7)
    t = t.double().eval()
    x = torch.randn(1, F, generator=g, dtype=torch.float64)
    J = torch.autograd.functional.jacobian(lambda z: t(z)[0], x)[0, :, 0, :]
    up = torch.triu(J, diagonal=1)
    if bool((up != 0).any()):
        ij = (up != 0).nonzero()[0].tolist()
        return {'i': ij[0], 'j': ij[1], 'how': 'transform-jacobian', 'value': float(up.abs().max())}
    return None


def _report(ctx, cfg, extra, r):
    case = dict(cfg, **extra)
    ctx.fail('output block i=%s of %s depends on input j=%s (>= i) [%s, |effect|=%s]' % (r['i'], cfg['copy'], r['j'], r['how'], r['value']),
             dict(case, i=r['i'], j=r['j'], how=r['how']),
             detail=r, match={'copy': cfg['copy'], 'residual': bool(cfg['residual']), 'random': bool(cfg['random']),
                              'symptom': 'depends-on-later-input', 'F': cfg['F'], 'H': cfg['H'], 'blocks': cfg['blocks'], 'm': cfg['m']})


def search(ctx):
    torch.set_num_threads(1)
    rng = ctx.rng
    late_writes(ctx, report=lambda cfg, extra, r: _report(ctx, cfg, extra, r) if len(ctx.failing) < 3 else None)
    budget = 240 if ctx.quick() else 1500
    t0 = ctx.elapsed()
    seen = set()

    def try_cfg(cfg, full=True):
        combos = [(a, t) for a in ('relu', 'tanh', 'sigmoid') for t in (False, True)]
        if not full:
            combos = rng.sample(combos, 2)
        for act, train in combos:
            extra = dict(act=act, train=train, dropout=(0.3 if train else 0.0), wseed=rng.randrange(1 << 20))
            k = (tuple(sorted((a, str(b)) for a, b in cfg.items())), act, train)
            if k in seen:
                continue
            seen.add(k)
            r = oracle_case(cfg, **extra)
            if r is not None:
                _report(ctx, cfg, extra, r)
                return True
        return False

    # first: the configurations on which the correspondence disagreed: the smallest of every kind
    dis = [d['case'] for d in ctx.disagreements if isinstance(d.get('case'), dict) and 'blocks' in d['case']]
    dis.sort(key=lambda c: (c['F'], c['H'], c['blocks'], c['m']))
    buckets = {}
    for c in dis:
        buckets.setdefault((c['copy'], c['F'], bool(c['residual']), bool(c['random']), bool(c['bn']), bool(c['C'])), c)
    for c in list(buckets.values())[:80]:
        cfg = {k: c[k] for k in ('copy', 'F', 'H', 'blocks', 'm', 'residual', 'random', 'C', 'bn', 'seed')}
        try_cfg(cfg)
        if len(ctx.failing) >= 5:
            return
    # then: the same smallest configurations each in a FRESH interpreter (a defect may live in process-global state — a
    # module-level cache filled by whatever was built before — and then depends on construction order)
    import subprocess, sys as _sys
    fresh = []
    for c in list(buckets.values())[:12]:
        fresh.append({k: c[k] for k in ('copy', 'F', 'H', 'blocks', 'm', 'residual', 'random', 'C', 'bn', 'seed')})
    for (F, m) in ((2, 1), (1, 2), (2, 2), (4, 2), (3, 1), (2, 3)):
        for blocks in (1, 2):
            fresh.append(dict(copy='transforms', F=F, H=F * m, blocks=blocks, m=m, residual=False, random=False, C=0, bn=False, seed=0))
    for cfg in fresh[:24]:
        extra = dict(act='tanh', train=False, dropout=0.0, wseed=1)
        try:
            pr = subprocess.run([_sys.executable, '-W', 'ignore', '-c',
                                 'import json,sys\nfrom harness.props import c06\nd=json.loads(sys.argv[1])\nprint("R="+json.dumps(c06.oracle_case(d["cfg"], **d["extra"])))',
                                 json.dumps({'cfg': cfg, 'extra': extra})], capture_output=True, text=True, timeout=120)
            line = next((l for l in pr.stdout.splitlines() if l.startswith('R=')), None)
            r = json.loads(line[2:]) if line else None
        except Exception:
            r = None
        if r is not None:
            _report(ctx, cfg, dict(extra, fresh_process=True), r)
            if len(ctx.failing) >= 3:
                return
    # then: construction ORDER within one process — a network built after another one whose output layer has the same size
    # (features x multiplier) but another feature count, same hidden width: anything memoised per layer size would be reused
    for (F1, m1, F2, m2) in ((3, 2, 2, 3), (4, 1, 2, 2), (6, 1, 3, 2), (6, 1, 2, 3), (4, 3, 3, 4), (5, 4, 4, 5), (2, 3, 3, 2), (2, 2, 4, 1)):
        for H in (1, 2, 3):
            for copy in ('transforms', 'nde'):
                for blocks in (1, 2):
                    try:
                        construct(dict(copy=copy, F=F1, H=H, blocks=blocks, m=m1, residual=False, random=False, C=0, bn=False, seed=0))
                    except Exception:
                        continue
                    cfg = dict(copy=copy, F=F2, H=H, blocks=blocks, m=m2, residual=False, random=False, C=0, bn=False, seed=0)
                    extra = dict(act='tanh', train=False, dropout=0.0, wseed=1)
                    try:
                        r = oracle_case(cfg, **extra)
                    except Exception:
                        r = None
                    if r is not None:
                        _report(ctx, cfg, dict(extra, built_after=dict(F=F1, H=H, m=m1, blocks=blocks)), r)
                        if len(ctx.failing) >= 3:
                            return
    # then: the generator, small sizes first
    for F in range(1, 7):
        for H in (1, 2, 3, 5, 8):
            for blocks in (0, 1, 2, 3):
                for copy in ('transforms', 'nde', 'mog'):
                    for residual, random_ in ((False, False), (True, False), (False, True)):
                        cfg = dict(copy=copy, F=F, H=H, blocks=blocks, residual=residual, random=random_, seed=rng.randrange(1 << 20),
                                   m=3 if copy == 'mog' else rng.choice((1, 2, 3)), C=rng.choice((0, 2)), bn=rng.choice((False, True)))
                        try_cfg(cfg, full=not ctx.quick())
                        if len(ctx.failing) >= 5 or ctx.elapsed() - t0 > budget:
                            return
                r = oracle_transform(F, H, blocks, bool(blocks % 2), rng.randrange(1 << 20))
                if r is not None:
                    ctx.fail('MaskedAffineAutoregressiveTransform Jacobian entry (%d,%d) above the diagonal is non-zero' % (r['i'], r['j']),
                             dict(F=F, H=H, blocks=blocks, residual=bool(blocks % 2), i=r['i'], j=r['j'], how=r['how']),
                             detail=r, match={'copy': 'transforms', 'symptom': 'jacobian-not-triangular', 'F': F, 'H': H, 'blocks': blocks})
                    if len(ctx.failing) >= 5:
                        return


def _replay_case(case):
    if case is None:
        return None
    if case.get('how') == 'transform-jacobian':
        return oracle_transform(case['F'], case['H'], case['blocks'], case['residual'], 1) is not None
    cfg = {k: case[k] for k in ('copy', 'F', 'H', 'blocks', 'm', 'residual', 'random', 'C', 'bn', 'seed') if k in case}
    cfg.setdefault('seed', 0); cfg.setdefault('C', 0); cfg.setdefault('bn', False)
    extra = {k: case[k] for k in ('act', 'train', 'dropout', 'wseed') if k in case}
    return oracle_case(cfg, **extra) is not None


def replay_finding(ctx, entry):
    m = entry.get('match', {})
    case = entry.get('case') or m.get('case')
    if case is None and all(k in m for k in ('copy', 'F', 'H', 'blocks', 'm')):
        case = dict(m)
    return bool(_replay_case(case)) if case is not None else False


def replay(ctx, payload):
    f = payload.get('failing')
    if f:
        return bool(_replay_case(f.get('case')))
    # a replay that names a broken correspondence only: re-run those cases through implementation and model
    class _Mini:
        def __init__(self):
            self.disagreements, self.branches = [], {}
        def case(self, **kw):
            pass
        def disagree(self, *a, **kw):
            self.disagreements.append(a)
    mini = _Mini()
    for d in (payload.get('broken', {}).get('correspondence') or []):
        c = d.get('case') or {}
        if 'in_degrees' in c:
            impl = run_resblock(c['copy'], c['F'], c['random'], c['in_degrees'])
            resp = leandriver.call([{'op': 'made_resblock', 'i': [c['F'], int(c['random'])] + list(c['in_degrees'])}])[0]
            if (resp.get('e') or 'ok') != impl['kind'] or (impl['kind'] == 'ok' and resp['i'] != impl['layers']):
                return True
        elif 'blocks' in c:
            cfg = {k: c[k] for k in ('copy', 'F', 'H', 'blocks', 'm', 'residual', 'random', 'C', 'bn', 'seed')}
            am = c.get('act_mul', 1)
            impl = run_case(cfg, am, True)
            resp = leandriver.call([model_req(cfg, am, True, True, impl['degs'], no_draws=(impl['kind'] != 'ok'))])[0]
            compare(mini, cfg, am, True, impl, resp, 'replay')
            if mini.disagreements:
                return True
    return False
