"""C05 — base distributions are normalised, sample their own density, report true means.

Theorems: Properties.C05 (normal / Bernoulli / mixture / KDE / uniform-box / truncated-Gaussian normalisation, means,
sampling maps, all on the definitions the driver executes — `Core/Dist.lean` at `realX`).
Correspondence: every Distribution class x event shapes x parameter draws x context rows in float64: `log_prob`,
`mean`, seeded `sample` (noise reproduced by re-seeding), exception kinds, `gaussian_kde_log_eval`, the erf used by
the model, the Lotka normaliser constant.
search(): the property's own oracle on the implementation (exact summation, quadrature, mean-by-quadrature,
seeded sample-mean / KS tests)."""
import contextlib, math, itertools
import numpy as np
import torch
from torch import nn
from harness.common import leandriver, bits

PROPERTY = 'C05'
LEVEL = 'proof'
REQUIRED_THEOREMS = [
    'Properties.C05.stdNormal_logp_eq', 'Properties.C05.stdNormal_normalised', 'Properties.C05.diagNormal_normalised',
    'Properties.C05.condNormal_row_normalised', 'Properties.C05.diagNormal_mean', 'Properties.C05.normal_sampling_map',
    'Properties.C05.normal_sample_follows_density',
    'Properties.C05.bernoulli_sum_one', 'Properties.C05.bernoulli_exec_sum_one_partial', 'Properties.C05.bernoulli_mean',
    'Properties.C05.bernoulli_sampling_map',
    'Properties.C05.logSoftmax_exec_sum_one', 'Properties.C05.mogStd_exec_pos', 'Properties.C05.mog_feature_exec_normalised',
    'Properties.C05.mog_joint_normalised',
    'Properties.C05.kde_exec_normalised', 'Properties.C05.mg1_volume', 'Properties.C05.boxUniform_normalised',
    'Properties.C05.truncGauss_normalised', 'Properties.C05.erf_mass',
    'Properties.C05.mog_sample_follows_density', 'Properties.C05.mogSample_no_context_counterexample',
    'Properties.C05.sigmoid_executed_closed_form', 'Properties.C05.bernoulli_sample_law_executed', 'Properties.C05.kdeStd_executed_pos', 'Properties.C05.mg1_normalised', 'Properties.C05.mg1_sample_law', 'Properties.C05.normal_sample_law_nd']
RULE = ("cases = (class, event shape in {[1],[3],[2,2],[2,1,2]} (MoG: features 1-3), parameter regime, context kind/rows 1-4, "
        "observable in {log_prob, mean, seeded sample, exception kind}); parameters drawn from a seeded generator (zero / normal / "
        "wide / saturating regimes), encoder outputs captured by a recording encoder, MADE outputs by a forward hook on the final "
        "layer; noise reproduced by re-seeding torch and repeating the code's randn/rand/Categorical calls. A case is non-trivial when "
        "it returns values (not an exception) that are not all zero / not the default-parameter value at the origin; distinct by "
        "(class, shape, regime, context kind, rows, observable, input kind)")
EXPLANATION = ("proof over the reals (Mathlib measure theory) that the formulas the driver executes are normalised densities with the "
               "stated means and that the sampling maps push the ideal noise to them; tie = differential run of the same Lean "
               "definitions against the distribution classes of /repo")
ASSUMPTIONS = [
    "torch.randn / torch.rand / Categorical.sample draw their nominal distributions (RNG trusted); sampling claims are about the map applied to that noise",
    "the executable erf of the model (series / continued fraction) is compared with torch.erf by the correspondence, not proved equal to the Gaussian integral",
    "MG1Uniform inherits torch Uniform's batch semantics and argument validation (per-coordinate log-densities, ValueError outside the support)",
    "BoxUniform is torch's Independent(Uniform) (trusted kernel); its sampler is torch's own",
    "the correspondence runs with torch default dtype float64 (gaussian_kde_log_eval and MixtureOfGaussiansMADE.sample create default-dtype tensors)",
    "neural context encoders / the MADE are arbitrary functions in the theorems (their recorded outputs in the correspondence); that MADE conditional i depends on x_<i only is C06",
]
TRUSTED_EXTRA = ["model erf = finite series / continued fraction (Core/Dist.erfG), validated numerically against torch.erf only"]

SHAPES = [[1], [3], [2, 2], [2, 1, 2]]
RTOL = 1e-10
KNOWN_EXC = {'ValueError', 'TypeError', 'RuntimeError', 'IndexError', 'AssertionError', 'NotImplementedError',
             'AttributeError', 'NoMeanException'}


@contextlib.contextmanager
def f64_default():
    old = torch.get_default_dtype()
    torch.set_default_dtype(torch.float64)
    try:
        yield
    finally:
        torch.set_default_dtype(old)


def run(f):
    try:
        r = f()
        return ('ok', r)
    except Exception as e:  # noqa
        n = type(e).__name__
        return ('err', n if n in KNOWN_EXC else 'other')


def numel(s):
    n = 1
    for v in s:
        n *= v
    return n


def tb(t):
    return bits.tensor_bits(torch.as_tensor(t).detach().double())


def close(a, b, rtol=RTOL):
    if math.isnan(a) or math.isnan(b):
        return math.isnan(a) and math.isnan(b)
    if math.isinf(a) or math.isinf(b):
        return a == b
    return abs(a - b) <= rtol * max(1.0, abs(a), abs(b))


class RecEncoder:
    """context encoder that records its output (the parameters handed to the distribution)"""
    def __init__(self, fn):
        self.fn = fn
        self.out = None

    def __call__(self, c):
        self.out = self.fn(c)
        return self.out


def lst(ints):
    return [len(ints)] + list(ints)


# ------------------------------------------------------------------------------------------------------------------
# case construction: each case = dict(kind, cls, key, desc, impl, req, nontrivial, branch)
# ------------------------------------------------------------------------------------------------------------------
def draw(gen, shape, regime):
    t = torch.randn(*shape, generator=gen, dtype=torch.float64)
    if regime == 'zero':
        return torch.zeros(*shape, dtype=torch.float64)
    if regime == 'wide':
        return 3.0 * t
    if regime == 'sat':
        return 15.0 * t
    if regime == 'confident':
        return torch.sign(t) * (45.0 + 10.0 * t.abs())      # sigmoid rounds to exactly 0 / 1 in double precision
    return t


def encoder_variants(D, kind):
    """-> list of (name, ctx_features, fn, note) producing parameters of `2D` (normal) or `D` (bernoulli) entries"""
    P = 2 * D if kind == 'normal' else D
    out = [('identity', P, lambda c: c)]
    out.append(('reshape3d', P, (lambda c, P=P: c.reshape(c.shape[0], 1, P))))
    lin = nn.Linear(3, P)          # a small network as context encoder (its output is recorded, not modelled)
    with torch.no_grad():
        lin.weight.mul_(1.5); lin.bias.add_(0.3)
    out.append(('linear-net', 3, (lambda c, lin=lin: lin(c).detach())))
    if kind == 'normal':
        out.append(('interleave', P, (lambda c, D=D: c.reshape(c.shape[0], D, 2))))
        if D % 2 == 0:
            out.append(('blocks', P, (lambda c, D=D: c.reshape(c.shape[0], 2, D))))
    return out


def cases_normal_like(ctx, gen, quick):
    from nflows.distributions import normal, discrete
    rng = ctx.rng
    out = []
    regimes = ['zero', 'normal', 'wide']
    for shape in SHAPES:
        D = numel(shape)
        # ---------------- StandardNormal
        d = normal.StandardNormal(shape)
        for regime in regimes:
            for ck in ('none', 'rows'):
                B = rng.randint(1, 4)
                x = draw(gen, [B] + shape, regime)
                c = None if ck == 'none' else torch.randn(B, 2, generator=gen, dtype=torch.float64)
                impl = run(lambda: d.log_prob(x, c))
                out.append(dict(kind='logprob', cls='StandardNormal', key=('StandardNormal', tuple(shape), regime, ck, 'logprob'),
                                desc=dict(shape=shape, regime=regime, ctx=ck, B=B, x=x.tolist()), impl=impl,
                                req=dict(op='c05.logprob', s=['StandardNormal'], i=[-1 if c is None else B] + lst(shape) + lst(shape) + [B], f=[tb(x)]),
                                nontrivial=regime != 'zero'))
        out.append(dict(kind='consts', cls='StandardNormal', key=('StandardNormal', tuple(shape), 'logz'),
                        desc=dict(shape=shape, what='pi, log 2pi, _log_z'), impl=('ok', torch.tensor([np.pi, np.log(2 * np.pi), float(d._log_z)], dtype=torch.float64)),
                        req=dict(op='c05.consts', i=[D]), nontrivial=True, rtol=1e-14))
        # errors: wrong event shape, context row mismatch
        xbad = torch.zeros(2, D + 1, dtype=torch.float64)
        out.append(dict(kind='logprob', cls='StandardNormal', key=('StandardNormal', tuple(shape), 'err-shape'), desc=dict(shape=shape, input_shape=[D + 1]),
                        impl=run(lambda: d.log_prob(xbad)), req=dict(op='c05.logprob', s=['StandardNormal'], i=[-1] + lst(shape) + lst([D + 1]) + [2], f=[tb(xbad)]), nontrivial=False))
        x2 = torch.zeros(*([2] + shape), dtype=torch.float64)
        out.append(dict(kind='logprob', cls='StandardNormal', key=('StandardNormal', tuple(shape), 'err-ctx'), desc=dict(shape=shape, B=2, ctx_rows=3),
                        impl=run(lambda: d.log_prob(x2, torch.zeros(3, 1))), req=dict(op='c05.logprob', s=['StandardNormal'], i=[3] + lst(shape) + lst(shape) + [2], f=[tb(x2)]), nontrivial=False))
        for ck in ('none', 'rows'):
            R = rng.randint(1, 4)
            c = None if ck == 'none' else torch.zeros(R, 2, dtype=torch.float64)
            out.append(dict(kind='mean', cls='StandardNormal', key=('StandardNormal', tuple(shape), ck, 'mean'), desc=dict(shape=shape, ctx=ck, R=R),
                            impl=run(lambda: d.mean(c)), req=dict(op='c05.mean', s=['StandardNormal'], i=[-1 if c is None else R] + lst(shape), f=[]), nontrivial=False,
                            expect_shape=(shape if c is None else [R] + shape)))
            n = rng.randint(1, 3)
            seed = rng.randrange(2 ** 31)
            torch.manual_seed(seed)
            impl = run(lambda: d.sample(n, c))
            torch.manual_seed(seed)
            noise = torch.randn(n if c is None else R * n, *shape)
            out.append(dict(kind='sample', cls='StandardNormal', key=('StandardNormal', tuple(shape), ck, 'sample'), desc=dict(shape=shape, ctx=ck, R=R, n=n, seed=seed),
                            impl=impl, req=dict(op='c05.sample', s=['StandardNormal'], i=[-1 if c is None else R, n] + lst(shape), f=[tb(noise)]), nontrivial=True,
                            expect_shape=([n] + shape if c is None else [R, n] + shape)))
        # ---------------- DiagonalNormal
        for regime in regimes:
            d = normal.DiagonalNormal(shape).double()
            with torch.no_grad():
                d.mean_.copy_(draw(gen, [1, D], regime))
                d.log_std_.copy_(draw(gen, [1, D], regime) * 0.7)
            B = rng.randint(1, 4)
            x = draw(gen, [B] + shape, 'normal')
            for ck in ('none', 'rows'):
                c = None if ck == 'none' else torch.zeros(B, 1)
                out.append(dict(kind='logprob', cls='DiagonalNormal', key=('DiagonalNormal', tuple(shape), regime, ck, 'logprob'),
                                desc=dict(shape=shape, regime=regime, ctx=ck, B=B, mean=d.mean_.tolist(), log_std=d.log_std_.tolist(), x=x.tolist()),
                                impl=run(lambda: d.log_prob(x, c)),
                                req=dict(op='c05.logprob', s=['DiagonalNormal'], i=[-1 if c is None else B] + lst(shape) + lst(shape) + [B],
                                         f=[tb(x), tb(d.mean_), tb(d.log_std_)]), nontrivial=True))
            out.append(dict(kind='mean', cls='DiagonalNormal', key=('DiagonalNormal', tuple(shape), regime, 'mean'), desc=dict(shape=shape, regime=regime),
                            impl=run(lambda: d.mean()), req=dict(op='c05.mean', s=['DiagonalNormal'], i=[-1] + lst(shape), f=[tb(d.mean_)]),
                            nontrivial=regime != 'zero', expect_shape=shape))
        out.append(dict(kind='sample', cls='DiagonalNormal', key=('DiagonalNormal', tuple(shape), 'err-sample'), desc=dict(shape=shape),
                        impl=run(lambda: d.sample(2)), req=dict(op='c05.sample', s=['DiagonalNormal'], i=[-1, 2] + lst(shape), f=[]), nontrivial=False))
        xbad = torch.zeros(2, D + 1, dtype=torch.float64)
        out.append(dict(kind='logprob', cls='DiagonalNormal', key=('DiagonalNormal', tuple(shape), 'err-shape'), desc=dict(shape=shape, input_shape=[D + 1]),
                        impl=run(lambda: d.log_prob(xbad)), req=dict(op='c05.logprob', s=['DiagonalNormal'], i=[-1] + lst(shape) + lst([D + 1]) + [2],
                                                                   f=[tb(xbad), tb(d.mean_), tb(d.log_std_)]), nontrivial=False))
        # ---------------- conditional classes
        for kind, clsname in (('normal', 'ConditionalDiagonalNormal'), ('bern', 'ConditionalIndependentBernoulli')):
            Cls = normal.ConditionalDiagonalNormal if kind == 'normal' else discrete.ConditionalIndependentBernoulli
            for (ename, cf, fn) in encoder_variants(D, kind):
                for regime in (['zero', 'normal', 'wide'] if kind == 'normal' else ['zero', 'normal', 'sat']):
                    if quick and ename != 'identity' and regime == 'zero':
                        continue
                    enc = RecEncoder(fn)
                    d = Cls(shape, context_encoder=enc)
                    R = rng.randint(1, 4)
                    c = draw(gen, [R, cf], regime)
                    if kind == 'normal':
                        c = c * (0.7 if regime != 'normal' else 1.0)
                    enc.out = None
                    probe = run(lambda: enc(c))
                    pshape = list(enc.out.shape[1:]) if enc.out is not None else []
                    pB = enc.out.shape[0] if enc.out is not None else 0
                    pbits = tb(enc.out) if enc.out is not None else []
                    hdr = lst(shape)
                    ptail = [pB] + lst(pshape)
                    if kind == 'normal':
                        x = draw(gen, [R] + shape, 'normal')
                        xs = [('real', x)]
                    else:
                        xb = (torch.rand(*([R] + shape), generator=gen, dtype=torch.float64) < 0.5).double()
                        xs = [('binary', xb), ('real', draw(gen, [R] + shape, 'normal'))]
                    for (xk, x) in xs:
                        out.append(dict(kind='logprob', cls=clsname, key=(clsname, tuple(shape), ename, regime, R, xk, 'logprob'),
                                        desc=dict(shape=shape, encoder=ename, regime=regime, R=R, context=c.tolist(), x=x.tolist()),
                                        impl=run(lambda: d.log_prob(x, c)),
                                        req=dict(op='c05.logprob', s=[clsname], i=[R] + hdr + lst(shape) + [R] + ptail, f=[tb(x), pbits]), nontrivial=True))
                    out.append(dict(kind='mean', cls=clsname, key=(clsname, tuple(shape), ename, regime, R, 'mean'),
                                    desc=dict(shape=shape, encoder=ename, regime=regime, R=R, context=c.tolist()),
                                    impl=run(lambda: d.mean(c)), req=dict(op='c05.mean', s=[clsname], i=[R] + hdr + ptail, f=[pbits]),
                                    nontrivial=(regime != 'zero' or kind == 'bern'), expect_shape=[R] + shape))
                    n = rng.randint(1, 3)
                    seed = rng.randrange(2 ** 31)
                    torch.manual_seed(seed)
                    impl = run(lambda: d.sample(n, c))
                    torch.manual_seed(seed)
                    noise = torch.randn(R * n, *shape) if kind == 'normal' else torch.rand(R * n, *shape)
                    case = dict(kind='sample', cls=clsname, key=(clsname, tuple(shape), ename, regime, R, n, 'sample'),
                                desc=dict(shape=shape, encoder=ename, regime=regime, R=R, n=n, seed=seed, context=c.tolist()),
                                impl=impl, req=dict(op='c05.sample', s=[clsname], i=[R, n] + hdr + ptail, f=[pbits, tb(noise)]),
                                nontrivial=True, expect_shape=[R, n] + shape)
                    if kind == 'bern':
                        # a uniform draw within 1e-12 of its threshold may legitimately fall on either side (sigmoid rounding)
                        p = torch.sigmoid(enc.out.reshape(R, -1).double()).repeat_interleave(n, 0).reshape(-1)
                        case['either'] = ((noise.double().reshape(-1) - p).abs() < 1e-12).tolist()
                    out.append(case)
            # exception kinds of the conditional classes
            enc = RecEncoder(lambda c: c)
            d = Cls(shape, context_encoder=enc)
            P = 2 * D if kind == 'normal' else D
            x2 = torch.zeros(*([2] + shape), dtype=torch.float64)
            for obs in ('logprob', 'mean', 'sample'):
                f = {'logprob': lambda: d.log_prob(x2), 'mean': lambda: d.mean(), 'sample': lambda: d.sample(2)}[obs]
                ii = {'logprob': [-1] + lst(shape) + lst(shape) + [2, 0] + lst([P]), 'mean': [-1] + lst(shape) + [0] + lst([P]),
                      'sample': [-1, 2] + lst(shape) + [0] + lst([P])}[obs]
                ff = {'logprob': [tb(x2), []], 'mean': [[]], 'sample': [[], []]}[obs]
                out.append(dict(kind=obs, cls=clsname, key=(clsname, tuple(shape), 'err-ctx-none', obs), desc=dict(shape=shape, context=None, observable=obs),
                                impl=run(f), req=dict(op='c05.' + obs, s=[clsname], i=ii, f=ff), nontrivial=False))
            # context rows != input rows ; wrong input shape ; odd last dim ; wrong parameter count ; encoder changes batch size
            c3 = torch.zeros(3, P, dtype=torch.float64)
            out.append(dict(kind='logprob', cls=clsname, key=(clsname, tuple(shape), 'err-rows'), desc=dict(shape=shape, B=2, ctx_rows=3),
                            impl=run(lambda: d.log_prob(x2, c3)), req=dict(op='c05.logprob', s=[clsname], i=[3] + lst(shape) + lst(shape) + [2, 3] + lst([P]), f=[tb(x2), tb(c3)]), nontrivial=False))
            xb2 = torch.zeros(2, D + 1, dtype=torch.float64)
            c2 = torch.zeros(2, P, dtype=torch.float64)
            out.append(dict(kind='logprob', cls=clsname, key=(clsname, tuple(shape), 'err-shape'), desc=dict(shape=shape, input_shape=[D + 1]),
                            impl=run(lambda: d.log_prob(xb2, c2)), req=dict(op='c05.logprob', s=[clsname], i=[2] + lst(shape) + lst([D + 1]) + [2, 2] + lst([P]), f=[tb(xb2), tb(c2)]), nontrivial=False))
            for (nm, Pb) in (('err-odd', P + 1), ('err-count', P + 2)):
                cb = torch.zeros(2, Pb, dtype=torch.float64)
                out.append(dict(kind='logprob', cls=clsname, key=(clsname, tuple(shape), nm), desc=dict(shape=shape, params_last_dim=Pb),
                                impl=run(lambda: d.log_prob(x2, cb)), req=dict(op='c05.logprob', s=[clsname], i=[2] + lst(shape) + lst(shape) + [2, 2] + lst([Pb]), f=[tb(x2), tb(cb)]), nontrivial=False))
            encb = RecEncoder(lambda c: c[:1])
            db = Cls(shape, context_encoder=encb)
            out.append(dict(kind='logprob', cls=clsname, key=(clsname, tuple(shape), 'err-batch'), desc=dict(shape=shape, encoder='drops rows'),
                            impl=run(lambda: db.log_prob(x2, c2)), req=dict(op='c05.logprob', s=[clsname], i=[2] + lst(shape) + lst(shape) + [2, 1] + lst([P]), f=[tb(x2), tb(c2[:1])]), nontrivial=False))
    return out


def made_final_layer(made):
    fl = getattr(made, 'final_layer', None)
    if fl is None:
        mods = [m for m in made.modules() if isinstance(m, nn.Linear)]
        fl = mods[-1]
    return fl


def mog_configs(quick):
    cfgs = []
    for F in (1, 2, 3):
        for M in ((1, 3) if quick else (1, 2, 3, 5)):
            for cf in (None, 2):
                for regime in ('init', 'wide', 'tiny-std'):
                    if quick and regime == 'tiny-std' and (F != 2 or M != 3):
                        continue
                    cfgs.append((F, M, cf, regime))
    return cfgs


def build_mog(F, M, cf, regime, seed, residual=True):
    from nflows.distributions import mixture
    torch.manual_seed(seed)
    d = mixture.MADEMoG(features=F, hidden_features=8, context_features=cf, num_blocks=2, num_mixture_components=M,
                        use_residual_blocks=residual, custom_initialization=True)
    fl = made_final_layer(d._made)
    with torch.no_grad():
        if regime == 'wide':
            fl.weight.mul_(1.0).add_(0.8 * torch.randn_like(fl.weight))
            fl.bias.add_(1.5 * torch.randn_like(fl.bias))
        elif regime == 'tiny-std':
            fl.weight.add_(0.3 * torch.randn_like(fl.weight))
            fl.bias[2::3] = -12.0 + torch.randn_like(fl.bias[2::3])
            fl.bias[1::3] = 2.0 * torch.randn_like(fl.bias[1::3])
    d.eval()
    return d


def cases_mog(ctx, gen, quick):
    rng = ctx.rng
    out = []
    for (F, M, cf, regime) in mog_configs(quick):
        d = build_mog(F, M, cf, regime, rng.randrange(2 ** 31), residual=rng.random() < 0.7)
        made = d._made
        eps = float(made.epsilon)
        rec = []
        h = made_final_layer(made).register_forward_hook(lambda m, i, o: rec.append(o.detach().clone()))
        try:
            B = rng.randint(1, 4)
            x = draw(gen, [B, F], 'wide' if regime == 'wide' else 'normal')
            c = None if cf is None else draw(gen, [B, cf], 'normal')
            del rec[:]
            impl = run(lambda: d.log_prob(x, c).detach())
            outs = rec[-1] if rec else torch.zeros(B, F * M * 3)
            ck = 'none' if cf is None else 'rows'
            out.append(dict(kind='logprob', cls='MoG', key=('MADEMoG', F, M, ck, regime, 'logprob'),
                            desc=dict(features=F, components=M, context_features=cf, regime=regime, B=B, x=x.tolist(), eps=eps),
                            impl=impl, req=dict(op='c05.logprob', s=['MoG'], i=[-1 if c is None else B, B, F, M], d=[bits.f64_bits(eps)], f=[tb(x), tb(outs)]),
                            nontrivial=True))
            out.append(dict(kind='mean', cls='MoG', key=('MADEMoG', F, M, ck, 'err-mean'), desc=dict(features=F, components=M),
                            impl=run(lambda: d.mean(c)), req=dict(op='c05.mean', s=['MoG'], i=[-1], f=[]), nontrivial=False))
            if cf is not None:
                cbad = torch.zeros(B + 1, cf)
                out.append(dict(kind='logprob', cls='MoG', key=('MADEMoG', F, M, 'err-rows'), desc=dict(features=F, B=B, ctx_rows=B + 1),
                                impl=run(lambda: d.log_prob(x, cbad)), req=dict(op='c05.logprob', s=['MoG'], i=[B + 1, B, F, M], d=[bits.f64_bits(eps)], f=[tb(x), tb(outs)]), nontrivial=False))
            # sampling
            n = rng.randint(1, 3)
            R = rng.randint(1, 3)
            cs = None if cf is None else draw(gen, [R, cf], 'normal')
            seed = rng.randrange(2 ** 31)
            del rec[:]
            ctx_seen = []
            # MixtureOfGaussiansMADE.sample calls self.forward directly (no module hooks fire on it); the context layer is called normally
            tgt = getattr(d._made, 'context_layer', None)
            hp = tgt.register_forward_pre_hook(lambda mod, args: ctx_seen.append(args[0])) if tgt is not None else None
            torch.manual_seed(seed)
            impl = run(lambda: d.sample(n, cs))
            if hp is not None:
                hp.remove()
            passes = list(rec)
            if cs is not None and ctx_seen and ctx_seen[0] is not None:
                # row pairing (theorem Properties.C04.repeat_rows_get): flat row k of the ancestral pass is conditioned on context row k // n
                want = cs.repeat_interleave(n, 0)
                got = ctx_seen[0].detach()
                okp = got.shape == want.shape and torch.equal(got, want)
                if not okp:
                    out.append(dict(kind='sample', cls='MoG', key=('MADEMoG', F, M, 'rows', regime, R, n, 'sample-pairing'),
                                    desc=dict(features=F, R=R, n=n, what='context rows handed to the MADE during sampling'),
                                    impl=('ok', torch.tensor([0.0])), req=dict(op='c05.consts', i=[0]), nontrivial=True,
                                    force_disagree='sampling pairs flat row k with a context row other than k // num_samples'))
            if cs is None:
                out.append(dict(kind='sample', cls='MoG', key=('MADEMoG', F, M, 'none', 'sample-no-context'),
                                desc=dict(features=F, components=M, context=None, n=n, note='finding F15'), impl=impl,
                                req=dict(op='c05.sample', s=['MoG'], i=[-1, n, F, M], d=[bits.f64_bits(eps)], f=[[], []]), nontrivial=False))
            else:
                N = R * n
                torch.manual_seed(seed)
                comps, noise = [], []
                ok = len(passes) == F
                for f in range(F if ok else 0):
                    o = passes[f].reshape(N, F, M, 3)
                    logits = torch.log_softmax(o[:, f, :, 0], dim=-1)
                    comps.append(torch.distributions.Categorical(logits=logits).sample((1,)).reshape(-1))
                    noise.append(torch.randn(N))
                if ok:
                    out.append(dict(kind='sample', cls='MoG', key=('MADEMoG', F, M, 'rows', regime, R, n, 'sample'),
                                    desc=dict(features=F, components=M, regime=regime, R=R, n=n, seed=seed, context=cs.tolist(), eps=eps),
                                    impl=impl, req=dict(op='c05.sample', s=['MoG'], i=[R, N, F, M] + torch.stack(comps).reshape(-1).tolist(),
                                                        d=[bits.f64_bits(eps)], f=[tb(torch.stack(passes)), tb(torch.stack(noise))]),
                                    nontrivial=True, expect_shape=[R, n, F]))
                else:
                    out.append(dict(kind='sample', cls='MoG', key=('MADEMoG', F, M, 'rows', 'sample-passes'), desc=dict(features=F, passes=len(passes)),
                                    impl=('ok', torch.tensor([float(len(passes))])), req=dict(op='c05.consts', i=[0]), nontrivial=False, force_disagree='number of MADE passes != features'))
        finally:
            h.remove()
    return out


def lotka_params(lv):
    g = lv._gaussian
    mu = g.loc.detach().double()
    st = g.scale_tril.detach().double()
    sig = torch.diagonal(st)
    base = lv._uniform.base_dist
    return mu, sig, base.low.detach().double().expand_as(mu), base.high.detach().double().expand_as(mu)


def cases_uniform(ctx, gen, quick):
    from nflows.distributions import uniform
    rng = ctx.rng
    out = []
    for D in (1, 2, 3):
        for rep in range(2):
            low = draw(gen, [D], 'normal')
            high = low + 0.1 + 3.0 * torch.rand(D, generator=gen, dtype=torch.float64)
            d = uniform.BoxUniform(low=low, high=high)
            inside = low + (high - low) * torch.rand(3, D, generator=gen, dtype=torch.float64)
            outside = inside.clone(); outside[:, rng.randrange(D)] += (high - low).max() * 2
            edge_lo = inside.clone(); edge_lo[:, 0] = low[0]
            edge_hi = inside.clone(); edge_hi[:, 0] = high[0]
            for nm, x in (('inside', inside), ('outside', outside), ('low-edge', edge_lo), ('high-edge', edge_hi)):
                out.append(dict(kind='logprob', cls='BoxUniform', key=('BoxUniform', D, rep, nm), desc=dict(D=D, low=low.tolist(), high=high.tolist(), where=nm, x=x.tolist()),
                                impl=run(lambda: d.log_prob(x)), req=dict(op='c05.logprob', s=['BoxUniform'], i=[x.shape[0], D], f=[tb(x), tb(low), tb(high)]),
                                nontrivial=nm in ('inside', 'low-edge')))
    for rep in range(3):
        low = torch.tensor([0.0, 0.0, 0.0], dtype=torch.float64) + (0.5 * torch.rand(3, generator=gen, dtype=torch.float64) if rep else 0)
        high = low + torch.tensor([10.0, 10.0, 1.0 / 3], dtype=torch.float64) * (1 + rep)
        d = uniform.MG1Uniform(low=low, high=high)
        z = low + (high - low) * torch.rand(3, 3, generator=gen, dtype=torch.float64)
        pin = d._to_parameters(z)
        pout = pin.clone(); pout[1, 1] = pout[1, 0] + low[1] - 1.0
        ptop = d._to_parameters(torch.stack([z[0], torch.stack([z[1, 0], high[1], z[1, 2]])]))
        for nm, x in (('inside', pin), ('outside', pout), ('high-edge', ptop)):
            out.append(dict(kind='logprob', cls='MG1Uniform', key=('MG1Uniform', rep, nm), desc=dict(low=low.tolist(), high=high.tolist(), where=nm, x=x.tolist()),
                            impl=run(lambda: d.log_prob(x)), req=dict(op='c05.logprob', s=['MG1Uniform'], i=[x.shape[0]], f=[tb(x), tb(low), tb(high)]),
                            nontrivial=nm == 'inside'))
    lv = uniform.LotkaVolterraOscillating()
    mu, sig, low, high = lotka_params(lv)
    D = mu.numel()
    pts_in = low + (high - low) * torch.rand(4, D, generator=gen, dtype=torch.float64)
    pts_mu = mu[None] + 0.5 * torch.randn(3, D, generator=gen, dtype=torch.float64)
    pts_out = pts_in.clone(); pts_out[:, rng.randrange(D)] = high[0] + 1.0
    for nm, x in (('inside', pts_in), ('near-mean', pts_mu), ('outside', pts_out)):
        r = run(lambda: lv.log_prob(x))
        impl = r if r[0] != 'ok' else ('ok', torch.cat([r[1].reshape(-1).double(), lv._log_normalizer.reshape(1).double()]))
        out.append(dict(kind='logprob', cls='Lotka', key=('LotkaVolterraOscillating', nm), desc=dict(where=nm, x=x.tolist(), mu=mu.tolist(), sigma=sig.tolist(), low=low.tolist(), high=high.tolist()),
                        impl=impl, req=dict(op='c05.logprob', s=['Lotka'], i=[x.shape[0], D], f=[tb(x), tb(mu), tb(low), tb(high), tb(sig[:1])]),
                        nontrivial=nm != 'outside', join=True))
    return out


def cases_kde(ctx, gen, quick):
    from nflows.utils import torchutils
    out = []
    for N in (1, 2, 5, 20):
        for D in (1, 2, 3):
            for regime in ('normal', 'wide'):
                S = draw(gen, [N, D], regime)
                Q = 4
                q = draw(gen, [Q, D], regime)
                impl = run(lambda: torchutils.gaussian_kde_log_eval(S, q[:, None, :]))
                out.append(dict(kind='kde', cls='kde', key=('kde', N, D, regime), desc=dict(N=N, D=D, regime=regime, samples=S.tolist(), query=q.tolist()),
                                impl=impl, req=dict(op='c05.kde', i=[N, D, Q], f=[tb(S), tb(q)]), nontrivial=True))
            S = draw(gen, [N, D], 'normal'); q1 = draw(gen, [D], 'normal')
            out.append(dict(kind='kde', cls='kde', key=('kde', N, D, 'single-query'), desc=dict(N=N, D=D, samples=S.tolist(), query=q1.tolist()),
                            impl=run(lambda: torchutils.gaussian_kde_log_eval(S, q1).reshape(1)), req=dict(op='c05.kde', i=[N, D, 1], f=[tb(S), tb(q1)]), nontrivial=True))
    xs = torch.cat([torch.linspace(-7, 7, 57, dtype=torch.float64), torch.tensor([-3.0, 3.0, 2.9999999, 1e-9, 0.0, 12.5, -9.3], dtype=torch.float64),
                    3.0 * torch.randn(20, generator=gen, dtype=torch.float64)])
    out.append(dict(kind='erf', cls='erf', key=('erf',), desc=dict(what='model erf vs torch.erf', n=xs.numel()), impl=('ok', torch.erf(xs)),
                    req=dict(op='c05.erf', f=[tb(xs)]), nontrivial=True, rtol=1e-13, atol=1e-15))
    return out


def all_cases(ctx):
    gen = torch.Generator().manual_seed(ctx.seed * 7919 + 5)
    q = ctx.quick()
    reps = 3 if q else 30
    out = []
    for _ in range(reps):
        out += cases_normal_like(ctx, gen, q)
        out += cases_mog(ctx, gen, q)
        out += cases_uniform(ctx, gen, q)
        out += cases_kde(ctx, gen, q)
    return out


def correspondence(ctx):
    with f64_default():
        state = torch.random.get_rng_state()
        try:
            cases = all_cases(ctx)
        finally:
            torch.random.set_rng_state(state)
    reqs = []
    for c in cases:
        r = dict(c['req']); r.setdefault('p', 'f64'); r.setdefault('i', []); r.setdefault('f', []); r.setdefault('s', []); r.setdefault('d', [])
        reqs.append(r)
    resps = leandriver.call(reqs)
    picked = {}
    for c, resp in zip(cases, resps):
        kind, val = c['impl']
        op = 'c05.%s/%s' % (c['kind'], c['cls'])
        merr = resp.get('e')
        desc = dict(c['desc'], cls=c['cls'], observable=c['kind'])
        if c.get('force_disagree'):
            ctx.case(n=1, branch='disagree'); ctx.disagree(op, desc, None, None, c['force_disagree']); continue
        if kind == 'err':
            ctx.case(key=c['key'], branch='error:' + val, nontrivial=False)
            picked.setdefault(('error', val), dict(desc, impl=val, model=merr))
            if merr != val:
                ctx.disagree(op, desc, val, merr if merr else 'value', 'implementation raised %s, model %s' % (val, merr or 'returned a value'))
            continue
        if merr:
            ctx.case(n=1, branch='disagree')
            ctx.disagree(op, desc, 'value', merr, 'model raised %s, implementation returned a value' % merr)
            continue
        if not torch.is_tensor(val):
            ctx.case(n=1, branch='disagree')
            ctx.disagree(op, desc, repr(val)[:120], 'tensor', 'implementation returned a non-tensor')
            continue
        iv = val.detach().double()
        if 'expect_shape' in c and list(iv.shape) != list(c['expect_shape']):
            ctx.disagree(op, desc, list(iv.shape), list(c['expect_shape']), 'documented shape violated')
        il = iv.reshape(-1).tolist()
        ml = []
        for row in resp.get('f', []):
            ml += bits.dec(row)
        nz = c['nontrivial'] and any(v != 0.0 for v in il)
        ctx.case(key=c['key'], branch='%s/%s' % (c['kind'], c['cls']), nontrivial=nz)
        if nz and (c['cls'], c['kind']) not in picked and c['kind'] in ('logprob', 'sample', 'kde'):
            picked[(c['cls'], c['kind'])] = dict(desc, impl=il[:8], model=ml[:8])
        if len(il) != len(ml):
            ctx.disagree(op, desc, il[:16], ml[:16], 'lengths differ: impl %d model %d' % (len(il), len(ml)))
            continue
        rtol = c.get('rtol', RTOL)
        either = c.get('either')
        bad = [j for j in range(len(il)) if not (close(il[j], ml[j], rtol) or (either and either[j]))]
        if bad:
            j = bad[0]
            ctx.disagree(op, dict(desc, index=j, n_bad=len(bad)), il[j], ml[j], '%s differs at flat index %d: impl %r model %r' % (c['kind'], j, il[j], ml[j]))
    # evidence samples: one actual case per (class, observable), the sampling / mixture / conditional ones first
    order = [('ConditionalDiagonalNormal', 'sample'), ('MoG', 'logprob'), ('ConditionalIndependentBernoulli', 'sample'), ('kde', 'kde'),
             ('MoG', 'sample'), ('Lotka', 'logprob'), ('error', 'RuntimeError')]
    ctx.samples = [picked[k] for k in order if k in picked][:6] or list(picked.values())[:6]
    update_history(ctx)
    usage_history(ctx)
    if not ctx.quick():
        # thorough tier: the property's own oracle (summation, quadrature, seeded KS / moment tests) always runs
        search(ctx)
        ctx.extra['oracle_run_in_thorough_tier'] = True


def update_history(ctx, report=None):
    """ONE distribution object, evaluation mode, no autograd: log_prob, then its parameters are changed without any mode switch
    (in place / load_state_dict), then log_prob again — the second value must be the closed-form density of the NEW parameters
    (nothing derived from the parameters may be remembered), and mean() must follow"""
    from nflows.distributions import normal
    gen = torch.Generator().manual_seed(ctx.seed + 5151)
    with f64_default():
        for D in (1, 3):
            for how in ('inplace', 'load'):
                d = normal.DiagonalNormal([D]); d.eval()
                x = torch.randn(4, D, generator=gen)
                with torch.no_grad():
                    d.mean_.copy_(torch.randn(1, D, generator=gen)); d.log_std_.copy_(0.3 * torch.randn(1, D, generator=gen))
                    d.log_prob(x); d.mean()
                    new_m = torch.randn(1, D, generator=gen); new_s = 1.0 + 0.3 * torch.randn(1, D, generator=gen)
                    if how == 'inplace':
                        d.mean_.copy_(new_m); d.log_std_.copy_(new_s)
                    else:
                        d.load_state_dict({'mean_': new_m.clone(), 'log_std_': new_s.clone()}, strict=False)
                    lp = d.log_prob(x)
                    mu = d.mean()
                want = (-0.5 * ((x - new_m) / torch.exp(new_s)) ** 2 - new_s - 0.5 * math.log(2 * math.pi)).sum(1)
                ok = bool(torch.allclose(lp, want, rtol=1e-10, atol=1e-10)) and torch.is_tensor(mu) and bool(torch.allclose(mu.reshape(-1), new_m.reshape(-1)))
                case = {'class': 'DiagonalNormal', 'event_shape': [D], 'history': ['eval', 'no_grad', 'log_prob', 'parameters changed (%s)' % how, 'log_prob']}
                if report is None:
                    ctx.case(key=('update-history', D, how), branch='update-history/DiagonalNormal', nontrivial=True)
                    if not ok:
                        ctx.disagree('c05.logprob/DiagonalNormal', case, lp.tolist(), want.tolist(), 'log_prob after a parameter change is not the density of the new parameters')
                elif not ok:
                    report('DiagonalNormal%s: log_prob after a parameter change (%s, evaluation mode, no autograd) is not the density of the new parameters: '
                           'exp(log_prob) integrates to %.4g' % ([D], how, float(torch.exp(lp - want).mean())), case,
                           {'class': 'DiagonalNormal', 'event_shape': [D], 'symptom': 'stale-after-update'})

def usage_history(ctx, report=None):
    """ONE distribution object and ONE context tensor kept by the caller, as in a sampling loop: sample_and_log_prob / sample with that
    tensor, then log_prob with it again.  The draws' log-densities must be log_prob of the draws under the ORIGINAL context values, the
    context tensor must still hold them, and log_prob with it must not have moved (autograd on and off)."""
    from nflows.distributions import normal, discrete, mixture
    from nflows.utils import torchutils
    gen = torch.Generator().manual_seed(ctx.seed + 6161)
    with f64_default():
        def mk():
            torch.manual_seed(ctx.seed + 7)
            return [('ConditionalDiagonalNormal', [3], normal.ConditionalDiagonalNormal([3]), 6),
                    ('ConditionalDiagonalNormal', [2, 2], normal.ConditionalDiagonalNormal([2, 2]), 8),
                    ('ConditionalIndependentBernoulli', [3], discrete.ConditionalIndependentBernoulli([3]), 3),
                    ('StandardNormal', [3], normal.StandardNormal([3]), 2),
                    ('MADEMoG', [3], mixture.MADEMoG(3, 8, 2, num_blocks=1, num_mixture_components=3, custom_initialization=True), 2)]
        for grad in (False, True):
            for name, shape, d, cw in mk():
                d.eval()
                for R, n in ((1, 1), (3, 1), (2, 4)):
                    c = 0.6 * torch.randn(R, cw, generator=gen)
                    c0 = c.clone()
                    x = torch.randn(R, *shape, generator=gen)
                    if name == 'ConditionalIndependentBernoulli':
                        x = (x > 0).double()
                    why = None
                    try:
                        with torch.set_grad_enabled(grad):
                            lp_before = d.log_prob(x, c).detach()
                            s, l = d.sample_and_log_prob(n, c)
                            s, l = s.detach(), l.detach()
                            if not torch.equal(c, c0):
                                why = 'the context tensor handed to sample_and_log_prob was modified'
                            want = d.log_prob(torchutils.merge_leading_dims(s, 2), torchutils.repeat_rows(c0.clone(), n)).reshape(R, n).detach()
                            if why is None and not torch.allclose(l, want, rtol=1e-9, atol=1e-9, equal_nan=False):
                                why = 'log-probabilities returned by sample_and_log_prob are not log_prob of the draws under the context given'
                            d.sample(n, c)
                            lp_after = d.log_prob(x, c).detach()
                            if why is None and not (torch.equal(c, c0) and torch.allclose(lp_after, lp_before, rtol=1e-12, atol=1e-12)):
                                why = 'log_prob with the same context tensor changed after sampling with it'
                    except Exception as e:
                        why = 'raised %s' % type(e).__name__
                    case = {'class': name, 'event_shape': shape, 'context_rows': R, 'num_samples': n, 'autograd': grad, 'context': c0.reshape(-1).tolist(),
                            'history': ['log_prob(x, c)', 'sample_and_log_prob(n, c)', 'sample(n, c)', 'log_prob(x, c)']}
                    if report is None:
                        ctx.case(key=('usage-history', name, tuple(shape), R, n, grad), branch='usage-history/' + name, nontrivial=True)
                        if why:
                            ctx.disagree('c05.sample/' + name, case, why, 'draws follow the density of the context given', why)
                    elif why:
                        report('%s%s, one context tensor kept across calls (autograd %s): %s' % (name, shape, 'on' if grad else 'off', why), case,
                               {'class': name, 'event_shape': shape, 'symptom': 'usage-history'})


# ------------------------------------------------------------------------------------------------------------------
# the property's own oracle on the implementation (used by search() and replay_finding())
# ------------------------------------------------------------------------------------------------------------------
_GL = {}


def gl_nodes(order):
    if order not in _GL:
        _GL[order] = np.polynomial.legendre.leggauss(order)
    return _GL[order]


def composite_gl(lo, hi, width, order=8, max_panels=40000):
    """nodes and weights of a composite Gauss-Legendre rule on [lo, hi] with panels no wider than `width`"""
    P = int(min(max_panels, max(1, math.ceil((hi - lo) / width))))
    edges = np.linspace(lo, hi, P + 1)
    x, w = gl_nodes(order)
    mid = 0.5 * (edges[1:] + edges[:-1]); half = 0.5 * (edges[1:] - edges[:-1])
    nodes = (mid[:, None] + half[:, None] * x[None, :]).reshape(-1)
    weights = (half[:, None] * w[None, :]).reshape(-1)
    return nodes, weights


def edges_gl(edges, order=8):
    """composite Gauss-Legendre rule on the panels given by the sorted array `edges`"""
    edges = np.asarray(edges, dtype=np.float64)
    x, w = gl_nodes(order)
    mid = 0.5 * (edges[1:] + edges[:-1]); half = 0.5 * (edges[1:] - edges[:-1])
    return (mid[:, None] + half[:, None] * x[None, :]).reshape(-1), (half[:, None] * w[None, :]).reshape(-1)


def T(a):
    return torch.as_tensor(np.asarray(a), dtype=torch.float64)


def factor_quadrature(logp, x0, los, his, widths):
    """density assumed to factorise over coordinates: integral = p(x0) * prod_i int p(x0 with x_i = t)/p(x0) dt.
    -> (integral, per-axis means, additivity residual at a probe point)"""
    D = len(x0)
    x0t = T(x0)
    lp0 = float(logp(x0t[None])[0])
    total = math.exp(lp0)
    means = []
    probe = []
    probe_lp = 0.0
    for i in range(D):
        t, w = composite_gl(los[i], his[i], widths[i])
        X = x0t[None].repeat(len(t), 1)
        X[:, i] = T(t)
        lp = logp(X).detach().double().numpy()
        r = np.exp(lp - lp0)
        Ii = float((r * w).sum())
        total *= Ii
        means.append(float((r * w * t).sum() / Ii) if Ii > 0 else float('nan'))
        j = len(t) // 3
        probe.append(t[j]); probe_lp += lp[j] - lp0
    lpp = float(logp(T(probe)[None])[0])
    return total, means, abs(lpp - (lp0 + probe_lp))


def grid2_quadrature(logp, los, his, widths):
    t0, w0 = composite_gl(los[0], his[0], widths[0], order=6, max_panels=80)
    t1, w1 = composite_gl(los[1], his[1], widths[1], order=6, max_panels=80)
    X = torch.stack([T(t0)[:, None].expand(-1, len(t1)), T(t1)[None, :].expand(len(t0), -1)], -1).reshape(-1, 2)
    lp = logp(X).detach().double().numpy().reshape(len(t0), len(t1))
    return float((np.exp(lp) * w0[:, None] * w1[None, :]).sum())


def ks_stat(samples, cdf_x, cdf_y):
    s = np.sort(np.asarray(samples, dtype=np.float64))
    n = len(s)
    F = np.interp(s, cdf_x, cdf_y)
    return max(np.max(np.abs(F - np.arange(1, n + 1) / n)), np.max(np.abs(F - np.arange(0, n) / n)))


def cdf_from_logp(logp1, lo, hi, width, edges=None):
    """numerical CDF of a 1-D density t -> exp(logp1(t)) on [lo, hi] (composite GL per panel, cumulative)"""
    if edges is None:
        P = int(min(20000, max(8, math.ceil((hi - lo) / width))))
        edges = np.linspace(lo, hi, P + 1)
    P = len(edges) - 1
    x, w = gl_nodes(8)
    mid = 0.5 * (edges[1:] + edges[:-1]); half = 0.5 * (edges[1:] - edges[:-1])
    nodes = (mid[:, None] + half[:, None] * x[None, :])
    lp = logp1(T(nodes.reshape(-1))).detach().double().numpy().reshape(P, -1)
    mass = (np.exp(lp) * (half[:, None] * w[None, :])).sum(1)
    return edges, np.concatenate([[0.0], np.cumsum(mass)])


def _fail(ctx, what, cls, shape, symptom, case, detail=None, **extra):
    m = {'class': cls, 'event_shape': list(shape) if shape is not None else None, 'symptom': symptom}
    m.update(extra)
    ctx.fail(what, dict(case, **{'class': cls, 'event_shape': shape}), detail=detail, match=m)


TOLQ = 1e-6


def oracle_normals(ctx, gen):
    from nflows.distributions import normal
    for shape in SHAPES:
        D = numel(shape)
        def flat_logp(d, c=None):
            return lambda X: d.log_prob(X.reshape(*([X.shape[0]] + shape)), None if c is None else c.expand(X.shape[0], -1))
        # StandardNormal
        d = normal.StandardNormal(shape)
        try:
            I, means, add = factor_quadrature(flat_logp(d), [0.0] * D, [-12.0] * D, [12.0] * D, [0.5] * D)
            if abs(I - 1) > TOLQ or add > 1e-8:
                _fail(ctx, 'StandardNormal%s: per-factor quadrature of exp(log_prob) = %.9g (additivity residual %.2e)' % (shape, I, add), 'StandardNormal', shape, 'integral!=1', {'integral': I})
            m = d.mean()
            if not torch.is_tensor(m) or list(m.shape) != shape or max(abs(a - float(b)) for a, b in zip(means, m.reshape(-1))) > TOLQ:
                _fail(ctx, 'StandardNormal%s.mean() is not the quadrature mean %s' % (shape, means), 'StandardNormal', shape, 'mean', {'quadrature_mean': means})
            mc = run(lambda: d.mean(torch.zeros(3, 2)))
            if mc[0] != 'ok' or not torch.is_tensor(mc[1]) or list(mc[1].shape) != [3] + shape or float(mc[1].abs().max()) != 0.0:
                _fail(ctx, 'StandardNormal%s.mean(context with 3 rows) is not zeros of shape [3, *shape]: %s' % (shape, list(mc[1].shape) if torch.is_tensor(mc[1]) else mc[1]),
                      'StandardNormal', shape, 'mean-shape', {'context_rows': 3})
            if D == 2:
                I2 = grid2_quadrature(flat_logp(d), [-10.0] * 2, [10.0] * 2, [0.5] * 2)
                if abs(I2 - 1) > TOLQ:
                    _fail(ctx, 'StandardNormal%s: 2-D quadrature = %.9g' % (shape, I2), 'StandardNormal', shape, 'integral!=1', {'integral': I2})
        except Exception as e:
            _fail(ctx, 'StandardNormal%s: log_prob/mean raised %r' % (shape, e), 'StandardNormal', shape, 'raises', {})
        # DiagonalNormal
        for regime in ('zero', 'normal', 'wide'):
            d = normal.DiagonalNormal(shape).double()
            mu = draw(gen, [D], regime); ls = 0.7 * draw(gen, [D], regime)
            with torch.no_grad():
                d.mean_.copy_(mu[None]); d.log_std_.copy_(ls[None])
            sg = ls.exp()
            case = {'mean_': mu.tolist(), 'log_std_': ls.tolist()}
            try:
                lo = (mu - 12 * sg).tolist(); hi = (mu + 12 * sg).tolist()
                I, means, add = factor_quadrature(flat_logp(d), mu.tolist(), lo, hi, (0.5 * sg).tolist())
            except Exception as e:
                _fail(ctx, 'DiagonalNormal%s.log_prob raised %s' % (shape, type(e).__name__), 'DiagonalNormal', shape, 'raises', case); continue
            if abs(I - 1) > TOLQ or add > 1e-8:
                _fail(ctx, 'DiagonalNormal%s: per-factor quadrature of exp(log_prob) = %.9g (additivity residual %.2e)' % (shape, I, add), 'DiagonalNormal', shape, 'integral!=1', dict(case, integral=I))
            m = run(lambda: d.mean())
            if m[0] != 'ok' or not torch.is_tensor(m[1]):
                _fail(ctx, 'DiagonalNormal%s.mean() does not return a tensor: %r' % (shape, m[1]), 'DiagonalNormal', shape, 'mean-not-tensor', case)
            elif list(m[1].shape) != shape or max(abs(a - float(b)) for a, b in zip(means, m[1].reshape(-1))) > TOLQ * (1 + float(sg.max())):
                _fail(ctx, 'DiagonalNormal%s.mean() = %s but the quadrature mean is %s' % (shape, m[1].tolist(), means), 'DiagonalNormal', shape, 'mean', dict(case, quadrature_mean=means))
            if D == 2:
                I2 = grid2_quadrature(flat_logp(d), lo, hi, (0.5 * sg).tolist())
                if abs(I2 - 1) > TOLQ:
                    _fail(ctx, 'DiagonalNormal%s: 2-D quadrature = %.9g' % (shape, I2), 'DiagonalNormal', shape, 'integral!=1', dict(case, integral=I2))
        # ConditionalDiagonalNormal, per context row
        for (ename, cf, fn) in encoder_variants(D, 'normal'):
            enc = RecEncoder(fn)
            d = normal.ConditionalDiagonalNormal(shape, context_encoder=enc)
            R = 3
            c = draw(gen, [R, cf], 'normal') * 0.8
            c[2] = c[2] * 7.0 + torch.sign(c[2]) * 3.0      # one context row whose log-standard-deviations are far out (|log sigma| ~ 4 .. 10)
            for i in range(R):
                ci = c[i:i + 1]
                # true parameters of row i by the documented convention: first half of the last dim = means
                p = fn(ci); L = p.shape[-1]
                mu = p[..., :L // 2].reshape(-1); ls = p[..., L // 2:].reshape(-1); sg = ls.exp()
                case = {'encoder': ename, 'context_row': ci.tolist()}
                try:
                    lo = (mu - 12 * sg).tolist(); hi = (mu + 12 * sg).tolist()
                    I, means, add = factor_quadrature(flat_logp(d, ci), mu.tolist(), lo, hi, (0.5 * sg).tolist())
                    m = d.mean(ci)
                    if list(m.shape) != [1] + shape:
                        _fail(ctx, 'ConditionalDiagonalNormal%s.mean(1 context row) has shape %s' % (shape, list(m.shape)), 'ConditionalDiagonalNormal', shape, 'mean-shape', case)
                    m = m.reshape(-1)
                except Exception as e:
                    _fail(ctx, 'ConditionalDiagonalNormal%s raised %s' % (shape, type(e).__name__), 'ConditionalDiagonalNormal', shape, 'raises', case); continue
                # conditioning of the oracle itself: log_prob evaluates z = (x - mu) / sigma; at sigma = e^-20 and |mu| ~ 8 the subtraction
                # x - mu keeps ~8 digits, so z (up to 12 on the grid) carries an error ~ ulp * (|mu| + 12 sigma) / sigma and log p an error 12 x
                # that.  Tolerances follow it (what the far-out row is for — a clamp or floor inside log_prob — is off by a factor)
                kz = float(((mu.abs() + 12 * sg) / sg).max())
                tq = TOLQ + 3e-15 * kz * 12 * len(mu)
                if tq > 0.05:
                    continue          # the quadrature cannot decide anything for this row
                if abs(I - 1) > tq or add > 1e-8 + 3e-15 * kz * 12 * len(mu):
                    _fail(ctx, 'ConditionalDiagonalNormal%s row %d: quadrature of exp(log_prob) = %.9g' % (shape, i, I), 'ConditionalDiagonalNormal', shape, 'integral!=1', dict(case, integral=I))
                if max(abs(a - float(b)) for a, b in zip(means, m)) > tq * (1 + float(sg.max()) + float(mu.abs().max())):
                    _fail(ctx, 'ConditionalDiagonalNormal%s row %d: mean() = %s, quadrature mean %s' % (shape, i, m.tolist(), means), 'ConditionalDiagonalNormal', shape, 'mean', dict(case, quadrature_mean=means))


def oracle_bernoulli(ctx, gen):
    from nflows.distributions import discrete
    for shape in SHAPES + [[10], [2, 5]]:
        D = numel(shape)
        X = torch.tensor(list(itertools.product([0.0, 1.0], repeat=D)), dtype=torch.float64).reshape(*([2 ** D] + shape))
        for regime in ('zero', 'normal', 'sat', 'confident'):
            d = discrete.ConditionalIndependentBernoulli(shape)
            c = draw(gen, [2, D], regime)
            for i in range(2):
                case = {'logits': c[i].tolist()}
                try:
                    lp = d.log_prob(X, c[i:i + 1].expand(2 ** D, -1))
                    p = lp.exp()
                    tot = float(p.sum())
                    qm = (p.reshape(-1, *([1] * len(shape))) * X).sum(0)
                    m = d.mean(c[i:i + 1])[0]
                except Exception as e:
                    _fail(ctx, 'ConditionalIndependentBernoulli%s raised %s' % (shape, type(e).__name__), 'ConditionalIndependentBernoulli', shape, 'raises', case); continue
                if not abs(tot - 1) <= 1e-8:
                    _fail(ctx, 'ConditionalIndependentBernoulli%s: exact sum over {0,1}^%d of exp(log_prob) = %.12g' % (shape, D, tot), 'ConditionalIndependentBernoulli', shape, 'sum!=1', dict(case, total=tot))
                if list(m.shape) != shape or not float((m - qm).abs().max()) <= 1e-8:
                    _fail(ctx, 'ConditionalIndependentBernoulli%s: mean() differs from sum x p(x) by %.3g' % (shape, float((m.reshape(-1) - qm.reshape(-1)).abs().max()) if m.numel() == qm.numel() else float('nan')),
                          'ConditionalIndependentBernoulli', shape, 'mean', dict(case, mean=m.tolist(), exact=qm.tolist()))


def mog_box(d, F, cf, c_row, x_probe):
    """range covering the mass of every conditional, read from the MADE outputs at the probe points"""
    made = d._made
    rec = []
    h = made_final_layer(made).register_forward_hook(lambda m, i, o: rec.append(o.detach()))
    try:
        made.forward(x_probe, None if cf is None else c_row.expand(x_probe.shape[0], -1))
    finally:
        h.remove()
    M = made.num_mixture_components
    o = rec[-1].reshape(x_probe.shape[0], F, M, 3)
    mu = o[..., 1]; sp = torch.nn.functional.softplus(o[..., 2]); sg = sp + made.epsilon
    # box from the larger candidate std, resolution from the smaller one (whatever role epsilon plays in the code)
    lo = (mu - 12 * sg).amin(dim=(0, 2)); hi = (mu + 12 * sg).amax(dim=(0, 2)); smin = sp.clamp_min(1e-3).amin(dim=(0, 2))
    return lo.tolist(), hi.tolist(), smin.tolist()


def mog1_edges(d, cf, c_row):
    """panel edges for a 1-feature mixture that resolve every component whatever role `epsilon` plays in the std:
    mu_k + s * linspace(-12, 12) for s in {softplus(u_k), softplus(u_k) + epsilon}"""
    made = d._made
    rec = []
    h = made_final_layer(made).register_forward_hook(lambda m, i, o: rec.append(o.detach()))
    try:
        made.forward(torch.zeros(1, 1), None if cf is None else c_row)
    finally:
        h.remove()
    M = made.num_mixture_components
    o = rec[-1].reshape(M, 3).double()
    grid = np.linspace(-12.0, 12.0, 97)
    pts = []
    for k in range(M):
        sp = float(torch.nn.functional.softplus(o[k, 2]))
        for sg in (sp, sp + float(made.epsilon)):
            pts.append(float(o[k, 1]) + max(sg, 1e-12) * grid)
    return np.unique(np.concatenate(pts))


def mog_feature_edges(o_f, eps, npts=49):
    """o_f: [n, M, 3] MADE outputs of one feature at n prefixes -> sorted panel edges [n, 2*M*npts] resolving every component
    for both candidate stds softplus(u) and softplus(u) + epsilon"""
    grid = torch.linspace(-12.0, 12.0, npts, dtype=torch.float64)
    mu = o_f[..., 1].double(); sp = torch.nn.functional.softplus(o_f[..., 2].double()).clamp_min(1e-12)
    pts = torch.cat([mu[..., None] + sp[..., None] * grid, mu[..., None] + (sp + eps)[..., None] * grid], -1)   # [n, M, 2*npts]
    return torch.sort(pts.reshape(pts.shape[0], -1), dim=1).values


def mog2_quadrature(d, cf, c_row, logp, moments=False):
    """2-D joint of a 2-feature mixture: outer composite GL over x0 on panels resolving feature 0's components (its
    parameters do not depend on x), inner composite GL over x1 on panels re-read from the MADE output at every outer node"""
    made = d._made
    M = made.num_mixture_components
    eps = float(made.epsilon)
    rec = []
    h = made_final_layer(made).register_forward_hook(lambda m, i, o: rec.append(o.detach()))
    try:
        made.forward(torch.zeros(1, 2), None if cf is None else c_row)
        e0 = mog_feature_edges(rec[-1].reshape(1, 2, M, 3)[:, 0], eps)[0].numpy()
        t0, w0 = edges_gl(e0, order=6)
        probe = torch.zeros(len(t0), 2); probe[:, 0] = T(t0)
        made.forward(probe, None if cf is None else c_row.expand(len(t0), -1))
        e1 = mog_feature_edges(rec[-1].reshape(len(t0), 2, M, 3)[:, 1], eps).numpy()            # [n0, E]
    finally:
        h.remove()
    x, w = gl_nodes(6)
    mid = 0.5 * (e1[:, 1:] + e1[:, :-1]); half = 0.5 * (e1[:, 1:] - e1[:, :-1])
    t1 = (mid[:, :, None] + half[:, :, None] * x[None, None, :]).reshape(len(t0), -1)
    w1 = (half[:, :, None] * w[None, None, :]).reshape(len(t0), -1)
    total = 0.0
    mom = np.zeros(4)
    step = max(1, 400000 // t1.shape[1])
    for a in range(0, len(t0), step):
        b = min(len(t0), a + step)
        X = torch.stack([T(t0[a:b])[:, None].expand(-1, t1.shape[1]), T(t1[a:b])], -1).reshape(-1, 2)
        lp = logp(X).numpy().reshape(b - a, -1)
        pw = np.exp(lp) * w1[a:b] * w0[a:b, None]
        total += float(pw.sum())
        mom += np.array([(pw * t0[a:b, None]).sum(), (pw * t1[a:b]).sum(), (pw * t0[a:b, None] ** 2).sum(), (pw * t1[a:b] ** 2).sum()])
    if moments:
        return total, mom
    return total


def oracle_mog(ctx, gen):
    rng = ctx.rng
    for (F, M, cf, regime) in [(1, 1, None, 'init'), (1, 3, None, 'wide'), (1, 3, 2, 'wide'), (1, 3, 2, 'tiny-std'), (1, 5, 2, 'init'),
                               (2, 3, None, 'init'), (2, 2, 2, 'wide'), (2, 1, 2, 'init')]:
        d = build_mog(F, M, cf, regime, 1000 + rng.randrange(1000))
        c_row = None if cf is None else draw(gen, [1, cf], 'normal')
        case = {'features': F, 'components': M, 'context_features': cf, 'regime': regime}
        logp = lambda X: d.log_prob(X, None if cf is None else c_row.expand(X.shape[0], -1)).detach()
        try:
            with torch.no_grad():
                if F == 1:
                    t, w = edges_gl(mog1_edges(d, cf, c_row))
                    I = float((np.exp(logp(T(t)[:, None]).numpy()) * w).sum())
                else:
                    I = mog2_quadrature(d, cf, c_row, logp)
        except Exception as e:
            _fail(ctx, 'MADEMoG(features=%d) log_prob raised %s' % (F, type(e).__name__), 'MADEMoG', [F], 'raises', case); continue
        if abs(I - 1) > TOLQ:
            _fail(ctx, 'MADEMoG(features=%d, components=%d, %s): %d-D quadrature of exp(log_prob) = %.9g' % (F, M, regime, F, I), 'MADEMoG', [F], 'integral!=1', dict(case, integral=I))


def oracle_kde(ctx, gen):
    from nflows.utils import torchutils
    for (N, D) in [(1, 1), (2, 1), (7, 1), (30, 1), (1, 2), (5, 2)]:
        S = draw(gen, [N, D], 'normal')
        std = N ** (-1.0 / (D + 4))
        case = {'N': N, 'D': D, 'samples': S.tolist()}
        f = lambda X: torchutils.gaussian_kde_log_eval(S, X[:, None, :])
        try:
            lo = (S.amin(0) - 12 * std).tolist(); hi = (S.amax(0) + 12 * std).tolist()
            if D == 1:
                t, w = composite_gl(lo[0], hi[0], 0.5 * std)
                I = float((np.exp(f(T(t)[:, None]).numpy()) * w).sum())
            else:
                I = grid2_quadrature(f, lo, hi, [0.6 * std] * 2)
        except Exception as e:
            _fail(ctx, 'gaussian_kde_log_eval raised %s' % type(e).__name__, 'gaussian_kde_log_eval', [D], 'raises', case); continue
        if abs(I - 1) > (TOLQ if D == 1 else 1e-5):
            _fail(ctx, 'gaussian_kde_log_eval(N=%d, D=%d): quadrature of exp(.) over the query = %.9g' % (N, D, I), 'gaussian_kde_log_eval', [D], 'integral!=1', dict(case, integral=I))


def lotka_integrals():
    """-> (integral of exp(log_prob) over the box, exp(_log_normalizer - true log normaliser), additivity residual, outside ok)"""
    from nflows.distributions import uniform
    lv = uniform.LotkaVolterraOscillating()
    mu, sig, low, high = lotka_params(lv)
    D = mu.numel()
    x0 = torch.minimum(torch.maximum(mu, low + 0.1), high - 0.1)
    I, means, add = factor_quadrature(lambda X: lv.log_prob(X), x0.tolist(), low.tolist(), high.tolist(), (0.25 * sig).tolist())
    # Gaussian mass of the box by quadrature of the Gaussian density itself (independent of log_prob)
    mass = 1.0
    for i in range(D):
        t, w = composite_gl(float(low[i]), float(high[i]), 0.25 * float(sig[i]))
        mass *= float((np.exp(-0.5 * ((t - float(mu[i])) / float(sig[i])) ** 2) / (float(sig[i]) * math.sqrt(2 * math.pi)) * w).sum())
    c = math.exp(float(lv._log_normalizer) + math.log(mass))
    xo = x0[None].clone(); xo[0, 0] = high[0] + 0.5
    r = run(lambda: lv.log_prob(xo))
    outside_ok = r[0] == 'ok' and float(r[1][0]) == float('-inf')
    return I, c, add, outside_ok


def oracle_uniform(ctx, gen):
    from nflows.distributions import uniform
    for D in (1, 2, 3):
        low = draw(gen, [D], 'normal'); high = low + 0.2 + 2 * torch.rand(D, generator=gen, dtype=torch.float64)
        d = uniform.BoxUniform(low=low, high=high)
        case = {'low': low.tolist(), 'high': high.tolist()}
        try:
            I, _, add = factor_quadrature(lambda X: d.log_prob(X), (0.5 * (low + high)).tolist(), low.tolist(), high.tolist(), ((high - low) / 4).tolist())
            if abs(I - 1) > TOLQ or add > 1e-8:
                _fail(ctx, 'BoxUniform(D=%d): quadrature over the box = %.9g' % (D, I), 'BoxUniform', [D], 'integral!=1', dict(case, integral=I))
        except Exception as e:
            _fail(ctx, 'BoxUniform.log_prob raised %s inside the box' % type(e).__name__, 'BoxUniform', [D], 'raises', case)
        xo = (high + 1.0)[None]
        r = run(lambda: d.log_prob(xo))
        if r[0] != 'ok' or float(r[1][0]) != float('-inf'):
            _fail(ctx, 'BoxUniform.log_prob outside the box: %s (expected -inf)' % (r[1] if r[0] != 'ok' else float(r[1][0])), 'BoxUniform', [D], 'raises-outside', dict(case, x=xo.tolist()))
    low = torch.zeros(3, dtype=torch.float64); high = torch.tensor([10.0, 10.0, 1.0 / 3], dtype=torch.float64)
    d = uniform.MG1Uniform(low=low, high=high)
    z = low + (high - low) * torch.rand(5, 3, generator=gen, dtype=torch.float64)
    try:
        J = torch.autograd.functional.jacobian(lambda v: d._to_parameters(v[None])[0], z[0])
        back = d._to_noise(d._to_parameters(z))
        lp = d.log_prob(d._to_parameters(z))
        vol = float((high - low).prod())
        dens = lp.sum(-1).exp()
        if abs(abs(float(torch.linalg.det(J))) - 1) > 1e-12 or float((back - z).abs().max()) > 1e-12 or float((dens * vol - 1).abs().max()) > 1e-9:
            _fail(ctx, 'MG1Uniform: |det| = %.6g, round trip error %.3g, density*volume = %s' % (abs(float(torch.linalg.det(J))), float((back - z).abs().max()), (dens * vol).tolist()),
                  'MG1Uniform', [3], 'integral!=1', {'z': z.tolist()})
    except Exception as e:
        _fail(ctx, 'MG1Uniform raised %s on its own samples' % type(e).__name__, 'MG1Uniform', [3], 'raises', {'z': z.tolist()})
    try:
        I, c, add, outside_ok = lotka_integrals()
        if abs(c - 1) > TOLQ:
            _fail(ctx, 'LotkaVolterraOscillating._log_normalizer is off: exp(normaliser) * Gaussian box mass = %.9g' % c, 'LotkaVolterraOscillating', [4], 'integral!=1', {'integral': I, 'normaliser_ratio': c}, cause='normaliser')
        elif abs(I - 1) > TOLQ or add > 1e-8:
            _fail(ctx, 'LotkaVolterraOscillating: quadrature of exp(log_prob) over the box = %.9g' % I, 'LotkaVolterraOscillating', [4], 'integral!=1', {'integral': I})
        if not outside_ok:
            _fail(ctx, 'LotkaVolterraOscillating.log_prob outside the box is not -inf', 'LotkaVolterraOscillating', [4], 'raises-outside', {})
    except Exception as e:
        _fail(ctx, 'LotkaVolterraOscillating raised %s' % type(e).__name__, 'LotkaVolterraOscillating', [4], 'raises', {})


def oracle_sampling(ctx, seed):
    """seeded sample-mean / Kolmogorov-Smirnov tests: samples must follow exp(log_prob) row by row (conservative thresholds)"""
    from nflows.distributions import normal, discrete, uniform
    n = 1500 if ctx.quick() else 20000
    ksc = 2.6 / math.sqrt(n)          # P(KS > 2.6/sqrt n) ~ 3e-6 under the null
    state = torch.random.get_rng_state()
    try:
        torch.manual_seed(seed)
        # conditional normal: distinct rows, event [1] and [3]
        for shape in ([1], [3], [2, 2]):
            D = numel(shape)
            mus = torch.tensor([-6.0, 0.5, 7.0])[:, None] + torch.arange(D)[None, :] * 0.25
            lss = torch.tensor([-1.0, 0.3, -2.0])[:, None].expand(-1, D)
            c = torch.cat([mus, lss], 1)
            for cls, d in (('ConditionalDiagonalNormal', normal.ConditionalDiagonalNormal(shape)), ('StandardNormal', normal.StandardNormal(shape))):
                r = run(lambda: d.sample(n, c))
                if r[0] != 'ok':
                    _fail(ctx, '%s%s.sample raised %s' % (cls, shape, r[1]), cls, shape, 'sample-raises', {'context': c.tolist()}); continue
                mm = run(lambda: d.mean(c))
                if r[1].numel() != 3 * n * D or mm[0] != 'ok' or not torch.is_tensor(mm[1]) or mm[1].numel() != 3 * D:
                    _fail(ctx, '%s%s: sample / mean with 3 context rows have shapes %s / %s' % (cls, shape, list(r[1].shape), list(mm[1].shape) if torch.is_tensor(mm[1]) else mm[1]),
                          cls, shape, 'mean-shape', {'context_rows': 3}); continue
                s = r[1].reshape(3, n, D)
                m = mm[1].reshape(3, D)
                for i in range(3):
                    for j in range(D):
                        if cls == 'StandardNormal':
                            mu, sg = 0.0, 1.0
                        else:
                            mu, sg = float(mus[i, j]), math.exp(float(lss[i, j]))
                        def lp1(t, i=i, j=j):
                            X = (m[i] if cls != 'StandardNormal' else torch.zeros(D))[None].repeat(len(t), 1); X[:, j] = t
                            base = X.clone(); base[:, j] = mu
                            return d.log_prob(X.reshape(*([len(t)] + shape)), c[i:i + 1].expand(len(t), -1)) - d.log_prob(base.reshape(*([len(t)] + shape)), c[i:i + 1].expand(len(t), -1)) \
                                - 0.5 * math.log(2 * math.pi) - math.log(sg)
                        # lp1 = log of the j-th factor up to its own normalisation: renormalise numerically
                        ex, ey = cdf_from_logp(lp1, mu - 12 * sg, mu + 12 * sg, 0.25 * sg)
                        ey = ey / ey[-1]
                        ks = ks_stat(s[i, :, j].numpy(), ex, ey)
                        sm = float(s[i, :, j].mean())
                        if ks > ksc or abs(sm - float(m[i, j])) > 6 * sg / math.sqrt(n):
                            _fail(ctx, '%s%s: samples of context row %d coord %d do not follow exp(log_prob): KS=%.4f (limit %.4f), sample mean %.4f vs mean() %.4f'
                                  % (cls, shape, i, j, ks, ksc, sm, float(m[i, j])), cls, shape, 'sample-mismatch', {'context': c.tolist(), 'row': i, 'coord': j, 'n': n, 'seed': seed})
                            break
        # one draw at a time with the SAME context tensor (num_samples == 1 takes the view-returning path of repeat_rows): the
        # sequence of draws must still follow exp(log_prob(., context)), and the caller's context must be what it was
        for shape in ([1], [2]):
            D = numel(shape)
            c0 = torch.cat([torch.full((1, D), 0.5), torch.full((1, D), -1.0)], 1)
            c = c0.clone()
            d = normal.ConditionalDiagonalNormal(shape)
            k = 400
            draws = []
            for _ in range(k):
                r = run(lambda: d.sample(1, c))
                if r[0] != 'ok':
                    break
                draws.append(r[1].reshape(-1).clone())
            if len(draws) == k:
                s1 = torch.stack(draws)[:, 0]
                mu, sg = 0.5, math.exp(-1.0)
                z = ((s1 - mu) / sg).numpy()
                from math import erf
                import numpy as _np
                zs = _np.sort(z); cdf = _np.array([0.5 * (1 + erf(v / math.sqrt(2))) for v in zs])
                ks = float(max(_np.max(_np.arange(1, k + 1) / k - cdf), _np.max(cdf - _np.arange(0, k) / k)))
                if ks > 2.6 / math.sqrt(k) or not torch.equal(c, c0):
                    _fail(ctx, 'ConditionalDiagonalNormal%s: %d successive sample(1, context) draws with one context tensor do not follow exp(log_prob(., context)) '
                          '(KS=%.3f, limit %.3f); context tensor changed by sampling: %s' % (shape, k, ks, 2.6 / math.sqrt(k), not torch.equal(c, c0)),
                          'ConditionalDiagonalNormal', shape, 'repeated-single-draws', {'context': c0.tolist(), 'draws': k, 'seed': seed})
        # Bernoulli
        for shape in ([1], [3], [2, 2]):
            D = numel(shape)
            c = torch.tensor([-2.0, 0.0, 1.5])[:, None] + 0.3 * torch.arange(D)[None, :]
            d = discrete.ConditionalIndependentBernoulli(shape)
            r = run(lambda: d.sample(n, c))
            if r[0] != 'ok':
                _fail(ctx, 'ConditionalIndependentBernoulli%s.sample raised %s' % (shape, r[1]), 'ConditionalIndependentBernoulli', shape, 'sample-raises', {}); continue
            s = r[1].reshape(3, n, D).double()
            ones = torch.ones(*([1] + shape))
            for i in range(3):
                # marginal P(x_j = 1) from the density itself: exp(log_prob(e_j)) / (exp(log_prob(e_j)) + exp(log_prob(0))) per coordinate
                for j in range(D):
                    e = torch.zeros(1, D); e[0, j] = 1.0
                    l1 = float(d.log_prob(e.reshape(*([1] + shape)), c[i:i + 1])); l0 = float(d.log_prob(torch.zeros(*([1] + shape)), c[i:i + 1]))
                    p = 1.0 / (1.0 + math.exp(l0 - l1))
                    ph = float(s[i, :, j].mean())
                    if abs(ph - p) > 5.5 * math.sqrt(p * (1 - p) / n) + 1e-9 or not bool(((s == 0) | (s == 1)).all()):
                        _fail(ctx, 'ConditionalIndependentBernoulli%s: sample frequency %.4f of row %d coord %d vs density %.4f' % (shape, ph, i, j, p),
                              'ConditionalIndependentBernoulli', shape, 'sample-mismatch', {'logits': c.tolist(), 'row': i, 'coord': j, 'n': n, 'seed': seed})
                        break
        # MoG, one feature, conditional on a 1-D context
        for regime in ('init', 'wide', 'tiny-std'):
            d = build_mog(1, 3, 1, regime, 77)
            c = torch.tensor([[0.3], [-1.0]])
            r = run(lambda: d.sample(n, c))
            if r[0] != 'ok':
                _fail(ctx, 'MADEMoG.sample raised %s' % r[1], 'MADEMoG', [1], 'sample-raises', {'regime': regime}); continue
            s = r[1].reshape(2, n)
            for i in range(2):
                with torch.no_grad():
                    ex, ey = cdf_from_logp(lambda t: d.log_prob(t[:, None], c[i:i + 1].expand(len(t), -1)).detach(), None, None, None,
                                           edges=mog1_edges(d, 1, c[i:i + 1]))
                ks = ks_stat(s[i].numpy(), ex, ey)
                if ks > ksc:
                    _fail(ctx, 'MADEMoG(features=1, %s): samples of context row %d do not follow exp(log_prob): KS=%.4f (limit %.4f)' % (regime, i, ks, ksc),
                          'MADEMoG', [1], 'sample-mismatch', {'regime': regime, 'row': i, 'n': n, 'seed': seed})
        # two features: first and second moments of the samples against 2-D quadrature moments of exp(log_prob)
        for (M2, regime) in ((2, 'wide'), (3, 'tiny-std')):
            d = build_mog(2, M2, 1, regime, 78)
            c = torch.tensor([[0.4]])
            r = run(lambda: d.sample(n, c))
            if r[0] != 'ok':
                _fail(ctx, 'MADEMoG.sample raised %s' % r[1], 'MADEMoG', [2], 'sample-raises', {'regime': regime}); continue
            s2 = r[1].reshape(n, 2).double().numpy()
            with torch.no_grad():
                I, mom = mog2_quadrature(d, 1, c, lambda X: d.log_prob(X, c.expand(X.shape[0], -1)).detach(), moments=True)
            for j in range(2):
                mean_q = mom[j] / I; var_q = max(mom[2 + j] / I - mean_q ** 2, 1e-300)
                if abs(s2[:, j].mean() - mean_q) > 6 * math.sqrt(var_q / n) or not (0.75 < s2[:, j].var() / var_q < 1.33):
                    _fail(ctx, 'MADEMoG(features=2, %s): samples of feature %d have mean %.4f / var %.4g, the density exp(log_prob) has mean %.4f / var %.4g'
                          % (regime, j, s2[:, j].mean(), s2[:, j].var(), mean_q, var_q), 'MADEMoG', [2], 'sample-mismatch', {'regime': regime, 'feature': j, 'n': n, 'seed': seed})
                    break
        r = run(lambda: build_mog(2, 2, None, 'init', 5).sample(3))
        if r[0] != 'ok':
            ctx.fail('MADEMoG.sample(context=None) raised %s' % r[1], {'class': 'MADEMoG', 'features': 2, 'context': None},
                     match={'class': 'MADEMoG', 'context': None, 'symptom': r[1]})
        # uniform-module priors
        low = torch.zeros(3); high = torch.tensor([10.0, 10.0, 1.0 / 3])
        d = uniform.MG1Uniform(low=low, high=high)
        r = run(lambda: d.sample((n,)))
        if r[0] == 'ok':
            z = d._to_noise(r[1])
            for j in range(3):
                ks = ks_stat(z[:, j].numpy(), np.array([float(low[j]), float(high[j])]), np.array([0.0, 1.0]))
                if ks > ksc or run(lambda: d.log_prob(r[1]))[0] != 'ok':
                    _fail(ctx, 'MG1Uniform: samples are not uniform on the support of log_prob (coord %d, KS=%.4f)' % (j, ks), 'MG1Uniform', [3], 'sample-mismatch', {'n': n, 'seed': seed}); break
        else:
            _fail(ctx, 'MG1Uniform.sample raised %s' % r[1], 'MG1Uniform', [3], 'sample-raises', {})
        lv = uniform.LotkaVolterraOscillating()
        mu, sig, low, high = lotka_params(lv)
        r = run(lambda: lv.sample((n,)))
        if r[0] == 'ok':
            s = r[1].double()
            x0 = torch.minimum(torch.maximum(mu, low + 0.1), high - 0.1)
            for j in range(mu.numel()):
                def lp1(t, j=j):
                    X = x0[None].repeat(len(t), 1); X[:, j] = t
                    return lv.log_prob(X)
                ex, ey = cdf_from_logp(lp1, float(low[j]), float(high[j]), 0.2 * float(sig[j]))
                ey = ey / ey[-1]
                ks = ks_stat(s[:, j].numpy(), ex, ey)
                if ks > ksc:
                    _fail(ctx, 'LotkaVolterraOscillating: samples of coord %d do not follow exp(log_prob): KS=%.4f' % (j, ks), 'LotkaVolterraOscillating', [4], 'sample-mismatch', {'n': n, 'seed': seed}); break
        else:
            _fail(ctx, 'LotkaVolterraOscillating.sample raised %s' % r[1], 'LotkaVolterraOscillating', [4], 'sample-raises', {})
    finally:
        torch.random.set_rng_state(state)


def search(ctx):
    if getattr(ctx, '_c05_searched', False):
        return
    ctx._c05_searched = True
    gen = torch.Generator().manual_seed(ctx.seed + 50505)
    with f64_default():
        for part in (oracle_bernoulli, oracle_normals, oracle_uniform, oracle_kde, oracle_mog):
            try:
                part(ctx, gen)
            except Exception as e:  # an oracle that cannot even run is reported, never swallowed
                ctx.notes.append('oracle %s raised %r' % (part.__name__, e))
                ctx.fail('oracle %s could not run: %r' % (part.__name__, e), {'oracle': part.__name__}, match={'class': part.__name__, 'event_shape': None, 'symptom': 'oracle-raised'})
        update_history(ctx, report=lambda what, case, match: _fail(ctx, what, match['class'], match['event_shape'], match['symptom'], case))
        usage_history(ctx, report=lambda what, case, match: _fail(ctx, what, match['class'], match['event_shape'], match['symptom'], case))
        try:
            oracle_sampling(ctx, 12345 + ctx.seed)
        except Exception as e:
            ctx.notes.append('oracle_sampling raised %r' % (e,))
            ctx.fail('oracle_sampling could not run: %r' % (e,), {'oracle': 'oracle_sampling'}, match={'class': 'oracle_sampling', 'event_shape': None, 'symptom': 'oracle-raised'})


def replay_finding(ctx, entry):
    """re-run the witness of a known_findings.json entry on the implementation; True = still fails"""
    from nflows.distributions import normal, uniform
    fid = entry.get('id', '')
    m = entry.get('match', {})
    with f64_default():
        if fid == 'F8a' or m.get('symptom') == 'mean-not-tensor':
            d = normal.DiagonalNormal([2])
            with torch.no_grad():
                d.mean_.copy_(torch.tensor([[0.5, -1.0]]))
            r = run(lambda: d.mean())
            return not (r[0] == 'ok' and torch.is_tensor(r[1]) and r[1].reshape(-1).tolist() == [0.5, -1.0])
        if fid == 'F8b' or (m.get('class') == 'DiagonalNormal' and m.get('symptom') == 'raises'):
            shape = m.get('event_shape') or [2, 3]
            d = normal.DiagonalNormal(shape)
            r = run(lambda: d.log_prob(torch.zeros(*([2] + list(shape)))))
            return not (r[0] == 'ok' and abs(float(r[1][0]) + 0.5 * numel(shape) * math.log(2 * math.pi)) < 1e-6)
        if fid in ('F10', 'F10b') or m.get('class') == 'LotkaVolterraOscillating':
            try:
                I, c, add, outside_ok = lotka_integrals()
            except Exception:
                return True
            if fid == 'F10':
                return abs(c - 1) > TOLQ                      # the erf normaliser itself
            return abs(I / c - 1) > TOLQ or add > 1e-8          # the density apart from the normaliser constant
        if fid == 'F18' or m.get('class') == 'BoxUniform':
            d = uniform.BoxUniform(low=torch.zeros(2), high=torch.ones(2))
            r = run(lambda: d.log_prob(torch.tensor([[0.5, 1.5]])))
            return not (r[0] == 'ok' and float(r[1][0]) == float('-inf'))
        if fid == 'F15' or m.get('class') == 'MADEMoG':
            r = run(lambda: build_mog(2, 2, None, 'init', 5).sample(3))
            return r[0] != 'ok'
    return None


def replay(ctx, payload):
    """re-run the oracle; True when a failing input with the same match dict is found again"""
    want = (payload.get('failing') or {}).get('match')
    if want and want.get('regression'):
        import json, os
        entries = json.load(open(os.path.join(leandriver.VERIF, 'known_findings.json')))
        for en in entries:
            if en.get('property') == PROPERTY and en.get('id') == want['regression']:
                return bool(replay_finding(ctx, en))
        return bool(replay_finding(ctx, {'id': want['regression'], 'match': {}}))
    search(ctx)
    if want is None:
        correspondence(ctx)
        return bool(ctx.failing) or bool(ctx.disagreements)
    return any(f.get('match') == want for f in ctx.failing)


def generate_lean(ctx):
    """no term is generated for C05; this hook only makes sure the property module is compiled from the sources on disk
    (the default `lake build` target does not reach NflowsModel.Properties.*), so that the audit never reads a stale .olean"""
    import subprocess
    p = subprocess.run(['lake', 'build', 'NflowsModel.Properties.C05', 'NflowsModel.Audit.Tool'], cwd=leandriver.LEAN_DIR, stdout=subprocess.PIPE, stderr=subprocess.STDOUT, timeout=3000)
    if p.returncode != 0:
        ctx.notes.append(p.stdout.decode(errors='replace')[-3000:])
        raise RuntimeError('NflowsModel.Properties.C05 does not compile')
