"""C01 — forward log-abs-det equals log|det Jacobian| of the map actually computed.

Theorems: Properties.C01 (scalar derivative laws incl. the executed spline terms, ranked-dependency determinant,
LU log-det, composition, box rescaling).  Correspondence: every modelled transform class x configuration x parameter
regime, forward direction, observables outputs AND log-abs-dets; plus the exported spline functions on non-default
boxes.  Search (only when something broke): autograd Jacobian of the implementation vs the returned log-abs-det."""
import math
import torch
from harness.common import registry as R, tcorr, splines as S, leandriver, bits
from harness.common import oracles

PROPERTY = 'C01'
LEVEL = 'proof'
REQUIRED_THEOREMS = ['Properties.C01.rq_executed_logdet', 'Properties.C01.quad_executed_logdet', 'Properties.C01.cubic_executed_deriv',
                     'Properties.C01.box_scale_logdet', 'Properties.C01.det_of_ranked_dependency',
                     'Properties.C01.sum_logdet_eq_log_abs_det', 'Properties.C01.composite_logabsdet_adds', 'Properties.C01.lu_logabsdet', 'Properties.C01.linear_bin_logdet', 'Properties.C01.rq_program_logdet', 'Properties.C01.rq_program_inverse_logdet', 'Properties.C01.cubic_program_logdet', 'Properties.C01.quad_program_logdet', 'Properties.C01.exec_coupling_ld_is_channel_sum', 'Properties.C01.exec_coupling_ld_leftfold', 'Properties.C01.tanh_executed_logdet', 'Properties.C01.exec_autoregressive_row_logdet', 'Properties.C01.rq_tails_program_logdet', 'Properties.C01.exec_made_rq_tails_row_logdet', 'Properties.C01.linear_program_logdet', 'Properties.C01.exec_coupling_row_abs_det', 
                     'Properties.C01.exp_executed_logdet', 'Properties.C01.sigmoid_executed_logdet', 'Properties.C01.sigmoid_threshold_counterexample', 'Properties.C01.leakyRelu_executed_logdet', 'Properties.C01.nonlin_layer_row_logdet', 'Properties.C01.conv1x1_executed_logdet', 'Properties.C01.actnorm_image_executed_logdet', 'Properties.C01.batchnorm_eval_executed_logdet', 'Properties.C01.permutation_executed_is_reindex', 'Properties.C01.squeeze_executed_is_reindex', 'Properties.C01.logTanh_kink_at_cut',
    "Properties.C01.lu_logdet_is_log_abs_det_fderiv", "Properties.C01.lu_logdet_is_log_abs_det_fderiv_inverse", "Properties.C01.qr_logdet_is_log_abs_det_fderiv", "Properties.C01.qr_logdet_is_log_abs_det_fderiv_inverse", "Properties.C01.svd_logdet_is_log_abs_det_fderiv", "Properties.C01.svd_logdet_is_log_abs_det_fderiv_inverse", "Properties.C01.hh_logdet_is_log_abs_det_fderiv", "Properties.C01.hh_logdet_is_log_abs_det_fderiv_inverse", "Properties.C01.naive_forward_is_affine_fderiv", "Properties.C01.linear_pass_entry", "Properties.C01.coupling_quadratic_logdet_is_jacobian", "Properties.C01.coupling_cubic_logdet_is_jacobian", "Properties.C01.coupling_linear_logdet_is_jacobian", "Properties.C01.ar_quadratic_logdet_is_jacobian", "Properties.C01.ar_cubic_logdet_is_jacobian", "Properties.C01.ar_linear_logdet_is_jacobian", "Properties.C01.coupling_quadratic_tails_logdet_is_jacobian", "Properties.C01.coupling_cubic_tails_logdet_is_jacobian", "Properties.C01.coupling_linear_tails_logdet_is_jacobian", "Properties.C01.ar_quadratic_tails_logdet_is_jacobian", "Properties.C01.ar_cubic_tails_logdet_is_jacobian", "Properties.C01.ar_linear_tails_logdet_is_jacobian", "Properties.C01.coupling_linear_inverse_logdet_is_jacobian",
    "Properties.C01.naive_logdet_is_log_abs_det_fderiv", "Properties.C01.naive_logdet_is_log_abs_det_fderiv_inverse", "Properties.C01.naive_inverse_row_is_affine",
    "Properties.C01.coupling_rq_logdet_is_jacobian", "Properties.C01.coupling_rq_inverse_logdet_is_jacobian", "Properties.C01.coupling_rq_tails_logdet_is_jacobian", "Properties.C01.coupling_rq_tails_inverse_logdet_is_jacobian", "Properties.C01.coupling_quadratic_inverse_logdet_is_jacobian", "Properties.C01.coupling_cubic_inverse_logdet_is_jacobian", "Properties.C01.quad_yk_facts",
    "Properties.C01.det_id_prodMap", "Properties.C01.step_logdet_returned", "Properties.C01.chunk2_splitFin", "Properties.C01.fwdStages_step", "Properties.C01.stages_logdet_is_jacobian", "Properties.C01.multiscale_logdet_is_sum_and_jacobian", "Properties.C01.two_stage_logdet", "Properties.C01.two_stage_built", "Properties.C01.coupling_item_logdet_img", "Properties.C01.coupling_item_abs_det_img", "Properties.C01.coupling_item_det_img", "Properties.C01.layer_ld_entries", "Properties.C01.layer_ld_channels_pixels", "Properties.C01.itemMap_eq", "Properties.C01.itemMap_self", "Properties.C01.coupling_additive_item_logdet_img", "Properties.C01.coupling_affine_item_logdet_img", "Properties.C01.coupling_rq_tails_item_logdet_img", "Properties.C01.coupling_additive_item_logdet_img_diffNet", "Properties.C01.coupling_affine_item_logdet_img_diffNet", "Properties.C01.coupling_affine_item_logdet_img_affineNet", "Properties.C01.coupling_rq_tails_item_logdet_img_const", "Properties.C01.coupling_additive_item_det_one_img",
    "Properties.C01.stageJac_of_passIs", "Properties.C01.stageJac_lu", "Properties.C01.stageJac_qr", "Properties.C01.stageJac_svd", "Properties.C01.stageJac_hh", "Properties.C01.stageJac_naive", "Properties.C01.multiscale_two_pass_logdet_is_jacobian", "Properties.C01.multiscale_lu_logdet_is_jacobian", "Properties.C01.multiscale_lu_logdet_is_jacobian_any",]
RULE = ("registry of transform configurations (element-wise non-linearities, Piecewise*CDF, coupling layers with 2-D/image inputs, numeric "
        "masks, ResidualNet/ConvResidualNet/plain conditioners, context on/off, masked autoregressive transforms) x parameter regimes "
        "(fresh, zeros, N(0,.5) perturbed, wide) x batches of in-domain inputs incl. tail-bound atoms; the model is fed the recorded "
        "conditioner outputs; distinct = (entry, regime, direction, precision); non-trivial = output differs from input or log-det != 0; "
        "plus spline functions on non-default boxes (family, K, regime, box, atom kind)")
EXPLANATION = "derivative laws proved over the reals for every size/parameter; tie = same Lean definitions executed against the code (outputs and log-dets)"
ASSUMPTIONS = ["conditioner networks are arbitrary functions in the theorems and recorded values in the correspondence",
               "differentiability of the whole map is a hypothesis of det_of_ranked_dependency (ReLU conditioners are non-differentiable on a null set)",
               "UMNN transforms are not modelled (third-party quadrature); they are covered only by the Jacobian oracle in search"]

REGIMES = ('fresh', 'zeros', 'normal', 'wide')


def correspondence(ctx):
    """thorough tier: several independent generator seeds (the quick tier runs one)"""
    for rep in range(1 if ctx.quick() else 6):
        _correspondence_once(ctx, rep)
        if ctx.elapsed() > 1500:
            break


def _correspondence_once(ctx, rep=0):
    gen = torch.Generator().manual_seed(ctx.seed * 1009 + 1 + 104729 * rep)
    E = R.entries('quick' if ctx.quick() else 'full')
    jobs = []
    for e in E:
        for regime in REGIMES:
            t = tcorr.build(e, gen, torch.float64, regime)
            for B in ((3,) if ctx.quick() else (1, 4)):
                x = R.make_inputs(e, B, gen, torch.float64, False)
                c = R.make_context(e, B, gen, torch.float64)
                jobs.append(tcorr.make_job(e, t, x, c, False, regime))
    tcorr.run_jobs(jobs)
    for j in jobs:
        tcorr.compare(ctx, j, 'C01', observables=('out', 'ld'))
    spline_boxes(ctx, gen)
    reuse_and_scale(ctx)
    # linear family, normalisation layers, permutations, squeeze, wrappers, UMNN: Jacobian check directly
    oracles.direct_on_extras(ctx, 'C01', oracles.jacobian_search)


def reuse_and_scale(ctx, report=None):
    """(a) ONE element-wise affine instance re-used on inputs of different event shapes (and after its scale buffer was replaced): the
    log-abs-det is sum over the event of log|scale| (broadcast) every time; (b) triangular linear layers whose determinant leaves the
    float range although log|det| is moderate (many features, diagonal away from 1), both precisions: the returned log-abs-det is
    the sum of the log-diagonal"""
    import nflows.transforms as T
    g = torch.Generator().manual_seed(ctx.seed + 111)
    def emit(ok, key, what, case, match, got, want):
        if report is None:
            ctx.case(key=key, branch='reuse-and-scale/' + key[0], nontrivial=True)
            if not ok:
                ctx.disagree('C01/' + key[0], case, got, want, what)
        elif not ok:
            report(what, case, match)
    # (a)
    for name, scale in (('scalar', torch.tensor(2.0, dtype=torch.float64)), ('per-channel', torch.tensor([2.0, 0.25], dtype=torch.float64).reshape(2, 1, 1))):
        t = T.PointwiseAffineTransform(shift=0.5, scale=scale.clone()).double(); t.eval()
        shapes = [(3, 3), (3, 7), (3, 2, 2)] if name == 'scalar' else [(3, 2, 2, 2), (3, 2, 3, 1), (3, 2, 1, 4)]
        for inverse in (False, True):
            for k, shp in enumerate(shapes + shapes[:1]):
                x = torch.randn(shp, generator=g, dtype=torch.float64)
                y, ld = (t.inverse(x) if inverse else t(x))
                want = float(torch.log(scale.abs()).expand(shp[1:]).sum()) * (-1 if inverse else 1)
                ok = bool(torch.allclose(ld, torch.full((shp[0],), want, dtype=torch.float64), rtol=1e-12, atol=1e-12))
                emit(ok, ('affine-reuse', name, inverse, k), 'element-wise affine re-used on event shape %s: log-abs-det %s, sum of log|scale| over the event %r' % (list(shp[1:]), ld.tolist(), want),
                     {'class': 'PointwiseAffineTransform', 'scale': name, 'event_shapes_in_order': [list(s_[1:]) for s_ in (shapes + shapes[:1])[:k + 1]], 'inverse': inverse},
                     {'class': 'PointwiseAffineTransform', 'symptom': 'logdet-depends-on-history'}, ld.tolist(), want)
        with torch.no_grad():
            t._scale.mul_(3.0)                          # e.g. load_state_dict of other statistics
        x = torch.randn(shapes[0], generator=g, dtype=torch.float64)
        y, ld = t(x)
        want = float(torch.log((scale * 3.0).abs()).expand(shapes[0][1:]).sum())
        emit(bool(torch.allclose(ld, torch.full((shapes[0][0],), want, dtype=torch.float64), rtol=1e-12, atol=1e-12)), ('affine-rescaled', name),
             'element-wise affine after its scale buffer changed: log-abs-det %s, expected %r' % (ld.tolist(), want),
             {'class': 'PointwiseAffineTransform', 'scale': name, 'history': ['forward', 'scale buffer changed', 'forward']},
             {'class': 'PointwiseAffineTransform', 'symptom': 'logdet-depends-on-history'}, ld.tolist(), want)
    # (b)
    for dt in (torch.float32, torch.float64):
        for (f, dval) in ((48, 0.05), (96, 3.0), (128, 0.3)):
            torch.manual_seed(f)
            for cls in ('LULinear', 'OneByOneConvolution'):
                t = T.LULinear(f, identity_init=True) if cls == 'LULinear' else T.OneByOneConvolution(f, identity_init=True)
                with torch.no_grad():
                    t.unconstrained_upper_diag.copy_(torch.log(torch.expm1(torch.full((f,), dval)) ))    # softplus^-1(dval)
                    t.lower_entries.copy_(0.05 * torch.randn(t.lower_entries.shape, generator=g))
                t = t.to(dt); t.eval()
                x = torch.randn((2, f) if cls == 'LULinear' else (2, f, 2, 1), generator=g, dtype=torch.float64).to(dt)
                try:
                    y, ld = t(x)
                    n_pos = 1 if cls == 'LULinear' else 2
                    want = n_pos * float(torch.log(torch.nn.functional.softplus(t.unconstrained_upper_diag.double()) + t.eps).sum())
                    ok = bool(torch.isfinite(ld).all()) and bool(((ld.double() - want).abs() <= (1e-4 if dt == torch.float32 else 1e-9) * (1 + abs(want))).all())
                    got = ld.tolist()
                except Exception as ex:
                    ok, got, want = False, 'raised %r' % (ex,), None
                emit(ok, ('lu-scaled', cls, f, dval, str(dt)), '%s(%d) with diagonal ~%g in %s: log-abs-det %s, sum of log diag %r' % (cls, f, dval, dt, got, want),
                     {'class': cls, 'features': f, 'diag': dval, 'dtype': str(dt)}, {'class': cls, 'symptom': 'logdet-overflow', 'dtype': str(dt)}, got, want)


def spline_boxes(ctx, gen, inverse=False, prop='C01'):
    """exported spline functions with non-square boxes: outputs and log-dets (this is where the box term lives)"""
    reqs, metas = [], []
    boxes = [(-1.5, 2.0, 0.25, 4.0), (0.0, 1.0, 0.0, 2.0)] if ctx.quick() else [(-1.5, 2.0, 0.25, 4.0), (0.0, 1.0, 0.0, 2.0), (3.0, 3.5, -7.0, -2.0), (-100., 100., -1e-2, 1e-2)]
    for fam in S.FAMS:
        for K in ((1, 4) if ctx.quick() else (1, 2, 4, 9)):
            for regime in ('zeros', 'normal', 'wide', 'onehot'):
                for bi, box in enumerate(boxes):
                    n = 12
                    params = S.make_params(fam, n, K, False, regime, torch.float64, gen)
                    lo_, hi_ = (box[2], box[3]) if inverse else (box[0], box[1])
                    x = lo_ + (hi_ - lo_) * torch.rand(n, dtype=torch.float64, generator=gen)
                    x[0] = lo_; x[1] = hi_
                    extra = None
                    if fam != 'lin' and bi == 1:
                        extra = {'min_bin_width': 0.02, 'min_bin_height': 0.05}
                        if fam == 'rq':
                            extra['min_derivative'] = 0.03
                    kind, y, ld = S.impl_call(fam, x, params, inverse, False, box, None, extra=extra)
                    reqs.append(S.model_req(fam, x, params, inverse, False, box, None, cfg=extra))
                    metas.append((fam, K, regime, box, x, kind, y, ld, params, extra))
    resps = leandriver.call(reqs)
    # inverse direction: the model's FORWARD map at the implementation's answers (backward-error criterion, see tcorr._backward)
    back = {}
    if inverse:
        breqs, bidx = [], []
        for k, meta in enumerate(metas):
            fam, K, regime, box, x, kind, y, ld, params, extra = meta
            if kind == 'ok' and bool(torch.isfinite(y).all()):
                breqs.append(S.model_req(fam, y.clamp(box[0], box[1]), params, False, False, box, None, cfg=extra)); bidx.append(k)
        for k, r in zip(bidx, leandriver.call(breqs)):
            back[k] = S.model_result(r, 'f64')
    for k, (meta, resp) in enumerate(zip(metas, resps)):
        fam, K, regime, box, x, kind, y, ld, params, extra = meta
        my, mld, merr, alts = S.model_result(resp, 'f64')
        case = {'fn': fam + '_spline', 'K': K, 'regime': regime, 'box': box}
        if kind != 'ok':
            if not any(merr):
                ctx.disagree(prop + '/spline-box', case, kind, 'ok', 'implementation raised')
            ctx.case(n=len(my), branch='splinebox/error')
            continue
        for i in range(len(my)):
            ot = 2e-6 if (fam == 'cubic' and inverse) else 1e-9
            ok_out = (not merr[i]) and (tcorr.close(y[i].item(), my[i], ot + 1e-15 * math.exp(min(60, abs(mld[i]))), ot) or any(tcorr.close(y[i].item(), a_, ot, ot) for a_ in (alts[i] if i < len(alts) else [])))
            ok_ld = (not merr[i]) and tcorr.close(ld[i].item(), mld[i], 1e-8 + 1e-15 * math.exp(min(60, abs(mld[i]))), 1e-8)
            br = 'splinebox/%s' % fam
            if not (ok_out and ok_ld) and k in back and not back[k][2][i]:
                fo, fl = back[k][0][i], back[k][1][i]
                scale = abs(box[3]) + abs(box[2])
                b_out = tcorr.close(x[i].item(), fo, 1e-12 * scale, 1e-10)
                b_ld = tcorr.close(ld[i].item(), -fl, 1e-8, 1e-8)
                if (ok_out or b_out) and (ok_ld or b_ld):
                    ok_out = ok_ld = True; br += '/backward-error'
            if ok_out and not ok_ld and not merr[i]:
                # the log-det as a function of the input can be far more sensitive than the value (log f' near a nearly flat or nearly
                # vertical bin end: d ld/dx ~ 1e3..1e13): accept a log-det inside the range the MODEL returns on inputs within 8 ulps —
                # torch's vectorised kernels round the root differently for different batch lengths
                eps_ = torch.finfo(torch.float64).eps
                lo_d, hi_d = (box[2], box[3]) if inverse else (box[0], box[1])
                xs_ = torch.stack([(x[i] * (1.0 + k_ * eps_) + k_ * 1e-300).clamp(lo_d, hi_d) for k_ in (-8, -3, -1, 0, 1, 3, 8)])
                rr = leandriver.call([S.model_req(fam, xs_, [p_[i:i + 1].expand(xs_.numel(), -1).contiguous() for p_ in params], inverse, False, box, None, cfg=extra)])[0]
                _, rld, rerr, _ = S.model_result(rr, 'f64')
                vals = [v for v, e_ in zip(rld, rerr) if not e_ and math.isfinite(v)]
                if len(vals) >= 2:
                    span = max(vals) - min(vals)
                    if min(vals) - 1e-8 - 2.0 * span <= ld[i].item() <= max(vals) + 1e-8 + 2.0 * span:
                        ok_ld = True; br += '/ld-within-ulp-range'
                if not ok_ld and inverse:
                    # inverse direction: the returned log-det is -log f'(root); implementation and model agree on the root only up to the
                    # accuracy of the root formula (|dx| below, within the output tolerance), so the log-dets may differ by
                    # (sensitivity of log f' at the root) x |dx|.  The sensitivity is measured on the MODEL's forward map around the root.
                    r0 = float(my[i]); dx = abs(y[i].item() - r0)
                    hstep = max(64 * eps_ * abs(r0), 16 * dx, 1e-300)
                    xr_ = torch.tensor([r0 - hstep, r0 - hstep / 2, r0, r0 + hstep / 2, r0 + hstep], dtype=torch.float64).clamp(box[0], box[1])
                    r2 = leandriver.call([S.model_req(fam, xr_, [p_[i:i + 1].expand(xr_.numel(), -1).contiguous() for p_ in params], False, False, box, None, cfg=extra)])[0]
                    _, fld, ferr, _ = S.model_result(r2, 'f64')
                    fv = [v for v, e_ in zip(fld, ferr) if not e_ and math.isfinite(v)]
                    width = float(xr_.max() - xr_.min())
                    if len(fv) >= 3 and width > 0:
                        slope = (max(fv) - min(fv)) / width
                        if abs(ld[i].item() - mld[i]) <= 1e-8 + 4.0 * slope * max(dx, 4 * eps_ * abs(r0)):
                            ok_ld = True; br += '/ld-root-sensitivity'
            ok = ok_out and ok_ld
            ctx.case(key=('box', fam, K, regime, box, i < 2), branch=br, nontrivial=True)
            if not ok:
                ctx.disagree(prop + '/spline-box', dict(case, x=x[i].item(), x_bits=bits.f64_bits(x[i].item()), inverse=inverse, extra=extra,
                                                        params_row_bits=[bits.tensor_bits(p_[i]) for p_ in params]),
                             {'out': y[i].item(), 'ld': ld[i].item()}, {'out': my[i], 'ld': mld[i], 'err': merr[i]}, 'spline with non-default box differs')


def search(ctx):
    reuse_and_scale(ctx, report=lambda what, case, match: ctx.fail(what, case, match=match) if sum(1 for f in ctx.failing if f['match'] == match) < 2 else None)
    oracles.jacobian_search(ctx, budget_s=300 if ctx.quick() else 1500)


def replay_finding(ctx, f):
    return oracles.replay_transform_finding(ctx, f)
