"""Run a history of cache-relevant operations on a real nflows linear transform (C10).

Ops (strings, same spelling as the Lean driver): train | eval | use_cache:1 | use_cache:0 | use_cache:bad | fwd | inv |
update | load | cast:f32 | cast:f64 | fwdBwd.

Everything is observed through public behaviour (return values, exceptions, state dicts) except the best-effort
white-box tuple (training, using_cache, cache.weight is None, cache.inverse is None, cache.logabsdet is None):
an attribute that does not exist is reported as None and skipped by the comparison.

The reference ("recomputing from the current parameters without the cache") is a SEPARATE module of the same class
and configuration, kept in training mode with the cache flag off (so it can never consult a cache), into which the
state dict of the module under test is loaded before every observation.
"""
import copy
import torch

CLASSES = ['LULinear', 'QRLinear', 'SVDLinear', 'NaiveLinear', 'OneByOneConvolution']
KIND = {'LULinear': 'generic', 'QRLinear': 'generic', 'SVDLinear': 'generic', 'OneByOneConvolution': 'generic',
        'NaiveLinear': 'naive'}
OBS = ('fwd', 'inv', 'fwdBwd')
DT = {'f32': torch.float32, 'f64': torch.float64}
DTN = {torch.float32: 'f32', torch.float64: 'f64'}


def configs(quick=True):
    """(class, cfg) pairs; cfg is a small dict"""
    out = [('LULinear', {'features': 3}), ('QRLinear', {'features': 3, 'num_householder': 2}),
           ('QRLinear', {'features': 4, 'num_householder': 3}),
           ('SVDLinear', {'features': 3, 'num_householder': 2}), ('SVDLinear', {'features': 4, 'num_householder': 4}),
           ('NaiveLinear', {'features': 3}), ('OneByOneConvolution', {'features': 3}),
           # a wide layer whose determinant (0.05^48 = 3.5e-63) is far below the float32 range while log|det| = -143.8 is ordinary
           ('NaiveLinear', {'features': 48, 'scale': 0.05}),
           # frozen parameters (requires_grad_(False): fine-tuning another part of the model, EMA / manual in-place updates): every
           # clause of the property is about parameter VALUES, so the same histories must behave the same
           ('LULinear', {'features': 3, 'frozen': True}), ('SVDLinear', {'features': 3, 'num_householder': 2, 'frozen': True}),
           # a second live layer of the same class (evaluation mode, cache on, other parameter values) performs every observation first:
           # two layers of one flow used alternately; each must keep answering from ITS OWN parameters
           ('QRLinear', {'features': 3, 'num_householder': 2, 'decoy': True}), ('NaiveLinear', {'features': 3, 'decoy': True})]
    if not quick:
        out += [('LULinear', {'features': 5}), ('NaiveLinear', {'features': 5}), ('OneByOneConvolution', {'features': 4}),
                ('LULinear', {'features': 1}), ('NaiveLinear', {'features': 1})]
    return out


def build(cls, cfg, using_cache=False):
    from nflows.transforms.lu import LULinear
    from nflows.transforms.qr import QRLinear
    from nflows.transforms.svd import SVDLinear
    from nflows.transforms.linear import NaiveLinear
    from nflows.transforms.conv import OneByOneConvolution
    F = cfg['features']
    if cls == 'LULinear':
        return LULinear(F, using_cache=using_cache, identity_init=False)
    if cls == 'QRLinear':
        return QRLinear(F, num_householder=cfg['num_householder'], using_cache=using_cache)
    if cls == 'SVDLinear':
        return SVDLinear(F, num_householder=cfg['num_householder'], using_cache=using_cache, identity_init=False)
    if cls == 'NaiveLinear':
        t = NaiveLinear(F, using_cache=using_cache)
        if cfg.get('scale'):
            with torch.no_grad():
                q, _ = torch.linalg.qr(torch.randn(F, F))
                t._weight.copy_(cfg['scale'] * q)
        return t
    if cls == 'OneByOneConvolution':
        return OneByOneConvolution(F, using_cache=using_cache, identity_init=False)
    raise ValueError(cls)


def err_kind(e):
    n = type(e).__name__
    if isinstance(e, RuntimeError):
        m = str(e)
        if 'backward through the graph a second time' in m:
            return 'RuntimeError:backward'
        ml = m.lower()
        if 'modified by an inplace operation' in ml:
            return 'RuntimeError:inplace'
        if 'dtype' in ml or 'scalar type' in ml or ('float' in ml and 'double' in ml):
            return 'RuntimeError:dtype'
        return 'RuntimeError:other'
    return n


class Runner:
    """one module under test + its uncached reference + parameter snapshots per version"""

    def __init__(self, cls, cfg, seed, using_cache=False):
        self.cls, self.cfg, self.seed = cls, cfg, seed
        self.gen = torch.Generator().manual_seed(seed)
        torch.manual_seed(seed)                       # constructors draw from the global RNG
        self.t = build(cls, cfg, using_cache)
        self._randomise(self.t, 0.2 if not cfg.get('scale') else 0.01 * cfg['scale'])   # (a prescribed scale is kept)
        if cfg.get('frozen'):
            self.t.requires_grad_(False)
        self.decoy = None
        if cfg.get('decoy'):
            self.decoy = build(cls, cfg, True)
            self._randomise(self.decoy, 0.5)
            self.decoy.eval()
        self.ref = build(cls, cfg, False)
        self.ref.train()
        self.dtype = torch.float32
        self.ver = 0
        self.snaps = {}
        self._snap()

    # -- helpers ----------------------------------------------------------------------------
    def _randn_like(self, p, scale):
        return (scale * torch.randn(p.shape, generator=self.gen, dtype=torch.float64)).to(p.dtype)

    def _randomise(self, m, scale):
        with torch.no_grad():
            for p in m.parameters():
                p.add_(self._randn_like(p, scale))

    def _snap(self):
        self.snaps[self.ver] = {k: v.detach().clone() for k, v in self.t.state_dict().items()}

    def inputs(self):
        F = self.cfg['features']
        shape = (2, F, 2, 3) if self.cls == 'OneByOneConvolution' else (4, F)   # non-square images: H*W, not W*W
        return torch.randn(shape, generator=self.gen, dtype=torch.float64).to(self.dtype)

    def whitebox(self):
        t = self.t
        cache = getattr(t, 'cache', None)

        def slot(n):
            if cache is None or not hasattr(cache, n):
                return None
            return 1 if getattr(cache, n) is None else 0
        tr = getattr(t, 'training', None)
        uc = getattr(t, 'using_cache', None)
        return [None if tr is None else int(bool(tr)), None if uc is None else int(bool(uc)),
                slot('weight'), slot('inverse'), slot('logabsdet')]

    def _load_ref(self, sd):
        if next(self.ref.parameters()).dtype != self.dtype:
            self.ref.to(self.dtype)
        self.ref.load_state_dict(sd)
        self.ref.train()

    def reference(self, op, x, wv=None, lv=None):
        """uncached result from parameter versions (wv for the matrix, lv for the log-abs-det); None = current.
        The bias and buffers (permutation) are never cached: always the current ones."""
        cur = {k: v.detach() for k, v in self.t.state_dict().items()}

        def sd_of(v):
            if v is None or v == self.ver:
                return cur
            sd = dict(self.snaps[v])
            pnames = {n for n, _ in self.t.named_parameters()}
            for k in cur:
                if k == 'bias' or k not in pnames:
                    sd[k] = cur[k]
            return sd

        def call(sd, need_grad):
            self._load_ref(sd)
            xx = x.detach().clone().requires_grad_(need_grad)
            if op == 'inv':
                y, ld = self.ref.inverse(xx)
            else:
                y, ld = self.ref(xx)
            g = None
            if need_grad:
                (y.sum() + ld.sum()).backward()
                g = xx.grad.detach().clone()
                self.ref.zero_grad(set_to_none=True)
            return y.detach(), ld.detach(), g
        y, ld, g = call(sd_of(wv), op == 'fwdBwd')
        if lv != wv:
            _, ld, _ = call(sd_of(lv), False)
        return y, ld, g

    # -- one op -----------------------------------------------------------------------------
    def step(self, op):
        """returns dict: kind ('-' | 'ok' | error kind), and for ok: x, y, ld, grad"""
        t = self.t
        res = {'kind': '-'}
        try:
            if op in ('train', 'eval'):
                # mode switches arrive at the layer itself or — every other time — through the module that contains it
                # (flow.train() / flow.eval(): nn.Module propagates them as child.train(mode), never as child.eval())
                self.nmode = getattr(self, 'nmode', 0) + 1
                target = t if self.nmode % 2 == 0 else torch.nn.ModuleList([torch.nn.ModuleList([t])])
                target.train() if op == 'train' else target.eval()
            elif op == 'use_cache:1':
                t.use_cache(True)
            elif op == 'use_cache:0':
                t.use_cache(False)
            elif op == 'use_cache:bad':
                t.use_cache('yes')
            elif op == 'update':
                # what an optimiser step does: in-place change of every parameter
                self._randomise(t, 0.1 if not self.cfg.get('scale') else 0.01 * self.cfg['scale'])
                self.ver += 1
                self._snap()
            elif op == 'load':
                torch.manual_seed(self.seed * 7919 + self.ver + 1)
                other = build(self.cls, self.cfg, False)
                self._randomise(other, 0.2 if not self.cfg.get('scale') else 0.01 * self.cfg['scale'])
                # a checkpoint arrives either at the layer itself or — every other time — through the module that contains it
                # (flow.load_state_dict): only the per-module hook `_load_from_state_dict` runs on the layer then
                self.nload = getattr(self, 'nload', 0) + 1
                if self.nload % 2 == 1:
                    outer = torch.nn.ModuleList([torch.nn.ModuleList([t])])
                    outer.load_state_dict({'0.0.' + k: v for k, v in other.state_dict().items()})
                else:
                    t.load_state_dict(other.state_dict())
                self.ver += 1
                self._snap()
            elif op.startswith('cast:'):
                self.dtype = DT[op[5:]]
                if self.dtype == torch.float64:
                    t.double()
                else:
                    t.float()
                self._snap()
            elif op in OBS:
                x = self.inputs()
                res['x'] = x
                if self.decoy is not None:
                    try:
                        with torch.no_grad():
                            if next(self.decoy.parameters()).dtype != x.dtype:
                                self.decoy.to(x.dtype)
                            self.decoy.inverse(x) if op == 'inv' else self.decoy(x)
                    except Exception:
                        pass
                if op == 'fwdBwd':
                    xx = x.detach().clone().requires_grad_(True)
                    y, ld = t(xx)
                    (y.sum() + ld.sum()).backward()
                    res.update(kind='ok', y=y.detach(), ld=ld.detach(), grad=xx.grad.detach().clone())
                else:
                    y, ld = t.inverse(x) if op == 'inv' else t(x)
                    res.update(kind='ok', y=y.detach(), ld=ld.detach(), grad=None)
            else:
                raise ValueError('unknown op ' + op)
        except Exception as e:           # noqa: the exception kind IS the observable
            res['kind'] = err_kind(e)
            res['msg'] = str(e)[:160]
        finally:
            if op == 'fwdBwd':
                t.zero_grad(set_to_none=True)
        return res


def tol_for(dtype):
    return 3e-4 if dtype == torch.float32 else 1e-9


def close(a, b, dtype):
    """|a-b| <= tol * (1 + max|b|) elementwise-sup; shapes must agree"""
    if a.shape != b.shape:
        return False, float('inf')
    if a.numel() == 0:
        return True, 0.0
    a64, b64 = a.double(), b.double()
    if not bool(torch.isfinite(a64).all()) or not bool(torch.isfinite(b64).all()):
        # non-finite entries must coincide exactly (NaN with NaN, +-inf with the same infinity); the finite ones are compared as usual
        fin = torch.isfinite(a64) & torch.isfinite(b64)
        same = bool(torch.equal(torch.isnan(a64), torch.isnan(b64))) and bool(torch.equal(torch.isfinite(a64), torch.isfinite(b64))) \
            and bool((a64[torch.isinf(a64)] == b64[torch.isinf(a64)]).all())
        if same and bool(fin.any()):
            d = float((a64[fin] - b64[fin]).abs().max())
            same = d <= tol_for(dtype) * (1.0 + float(b64[fin].abs().max()))
        return same, float('nan')
    d = float((a64 - b64).abs().max())
    return d <= tol_for(dtype) * (1.0 + float(b64.abs().max())), d


def oracle_step(r, op, res):
    """the property itself on one observation step: compare with the uncached reference on the current parameters.
    returns None if fine, else a symptom string"""
    x = res.get('x')
    try:
        y0, ld0, g0 = r.reference(op, x)
    except Exception as e:
        return None if res['kind'] != 'ok' else None     # the uncached transform itself fails: nothing to compare
    if res['kind'] != 'ok':
        if res['kind'] == 'RuntimeError:backward':
            return 'second-backward'
        return 'error:' + res['kind']
    if res['y'].dtype != y0.dtype or res['ld'].dtype != ld0.dtype:
        return 'dtype-differs'
    ok, _ = close(res['y'], y0, r.dtype)
    if not ok:
        return 'stale-outputs'
    ok, _ = close(res['ld'], ld0, r.dtype)
    if not ok:
        return 'stale-logabsdet'
    if op == 'fwdBwd':
        ok, _ = close(res['grad'], g0, r.dtype)
        if not ok:
            return 'wrong-input-grad'
    return None


def hypotheses(hist, using_cache=False, training=True):
    """Python twins of Lean `Cache.updatesOnlyInTraining` and `Cache.noRepeatedBackward` (compared with the Lean
    values in the correspondence); also returns the step indices of repeated cached backwards."""
    tr, uc, used = training, using_cache, False
    upd_ok, repeated = True, []
    for i, op in enumerate(hist):
        if op == 'train':
            tr, used = True, False
        elif op == 'eval':
            tr = False
        elif op == 'use_cache:1':
            uc = True
        elif op == 'use_cache:0':
            uc = False
        elif op == 'load' or op.startswith('cast:'):
            used = False
        elif op == 'update':
            upd_ok = upd_ok and tr
        elif op == 'fwdBwd' and (not tr) and uc:
            if used:
                repeated.append(i)
            used = True
    return upd_ok, not repeated, repeated


def run_oracle(cls, cfg, seed, hist, using_cache=False):
    """run a history, return list of (step index, symptom) for every observation that violates the property.
    A backward-twice error is the known symptom 'second-backward' only where the history really repeats a cached
    backward within one cache epoch (evaluation mode, cache on, no train/load/cast in between); anywhere else it is
    'unexpected-backward-error'."""
    r = Runner(cls, cfg, seed, using_cache)
    _, _, repeated = hypotheses(hist, using_cache)
    bad = []
    for i, op in enumerate(hist):
        res = r.step(op)
        if op in OBS:
            s = oracle_step(r, op, res)
            if s == 'second-backward' and i not in repeated:
                s = 'unexpected-backward-error'
            if s is not None:
                bad.append((i, s))
        elif res['kind'] != '-' and op != 'use_cache:bad':
            bad.append((i, 'error:' + res['kind']))
    return bad


def in_alphabet(hist, training=True):
    """the property's alphabet: parameter updates in training mode only"""
    return hypotheses(hist, False, training)[0]


def shrink(cls, cfg, seed, hist, symptom, using_cache=False):
    """greedy one-op-at-a-time deletion keeping the same symptom and staying inside the property's alphabet"""
    def fails(h):
        return in_alphabet(h) and any(s == symptom for _, s in run_oracle(cls, cfg, seed, h, using_cache))
    # cut after the first failing step
    bad = [i for i, s in run_oracle(cls, cfg, seed, hist, using_cache) if s == symptom]
    h = list(hist[:bad[0] + 1]) if bad else list(hist)
    changed = True
    while changed:
        changed = False
        for i in range(len(h)):
            c = h[:i] + h[i + 1:]
            if c and fails(c):
                h = c
                changed = True
                break
    return h
