"""Exact float transport: IEEE-754 bit patterns as integers."""
import struct

def f64_bits(x: float) -> int:
    return struct.unpack('<Q', struct.pack('<d', float(x)))[0]

def bits_f64(n: int) -> float:
    return struct.unpack('<d', struct.pack('<Q', int(n)))[0]

def f32_bits(x: float) -> int:
    return struct.unpack('<I', struct.pack('<f', float(x)))[0]

def bits_f32(n: int) -> float:
    return struct.unpack('<f', struct.pack('<I', int(n)))[0]

def enc(xs, prec='f64'):
    f = f64_bits if prec == 'f64' else f32_bits
    return [f(x) for x in xs]

def dec(ns, prec='f64'):
    f = bits_f64 if prec == 'f64' else bits_f32
    return [f(n) for n in ns]

def tensor_bits(t, prec=None):
    """flatten a torch tensor to a list of bit patterns in its own precision"""
    import torch
    if prec is None:
        prec = 'f32' if t.dtype == torch.float32 else 'f64'
    if prec == 'f64':
        return [v & 0xFFFFFFFFFFFFFFFF for v in t.detach().double().contiguous().view(torch.int64).reshape(-1).tolist()]
    else:
        return (t.detach().float().contiguous().view(torch.int32).reshape(-1).to(torch.int64) & 0xFFFFFFFF).tolist()
