"""Registry of transform / distribution / flow configurations used by the C13 and C15 checks.

Every configuration is built from the library's own constructors (arguments are read here, defaults by the
constructors themselves).  `Cfg.build()` constructs the module under the CURRENT torch RNG state (callers seed it).
"""
import copy
import torch
from torch import nn
from torch.nn import functional as F

from nflows import transforms as T
from nflows import distributions as D
from nflows import flows as FL
from nflows.nn import nets
from nflows.utils import torchutils

F4, CTX, BATCH = 4, 3, 5
IMG = (4, 4, 4)          # C, H, W


class Cfg:
    def __init__(self, name, kind, build, shape, ctx=None, domain='real', atoms=None, calls=None,
                 random_ctor=False, batch_stats=False, tier='quick', cache=False, note=''):
        self.name = name
        self.kind = kind                  # 'transform' | 'dist' | 'flow'
        self.build = build
        self.shape = tuple(shape)
        self.ctx = None if ctx is None else tuple(ctx)
        self.domain = domain              # 'real' | 'unit' | ('tails', B) | 'binary'
        self.atoms = atoms
        self.calls = calls
        self.random_ctor = random_ctor    # constructor-time randomness beyond parameter initialisation (C15)
        self.batch_stats = batch_stats    # uses batch statistics in training mode
        self.tier = tier
        self.cache = cache                # has the Linear weight cache
        self.note = note

    def get_calls(self):
        if self.calls is not None:
            return list(self.calls)
        if self.kind == 'transform':
            return ['forward', 'inverse']
        if self.kind == 'dist':
            return ['log_prob', 'sample', 'sample_and_log_prob', 'sample_batched']
        return ['log_prob', 'sample', 'sample_and_log_prob', 'sample_batched', 'transform_to_noise']

    def get_atoms(self, mode):
        if self.atoms is not None:
            at = list(self.atoms)
        elif isinstance(self.domain, tuple):
            at = ['inside', 'outside', 'mixed']
        elif self.domain == 'unit':
            at = ['unit']
        elif self.domain == 'binary':
            at = ['binary']
        else:
            at = ['std']
        if self.cache and mode == 'eval':
            at = [a + '+' + c for a in at for c in ('nocache', 'cache_miss', 'cache_hit')]
        return at

    def gen(self, atom, gen, batch=BATCH, dtype=torch.float32):
        """a contiguous valid forward input for this configuration"""
        base = atom.split('+')[0].split('#')[0]
        alt = base.endswith('~alt')      # same instance, another event shape (call histories with varying shapes)
        edge = base.endswith('!edge')    # values exactly on the boundary of the domain
        base = base.replace('~alt', '').replace('!edge', '')
        shape = (batch,) + ((2,) + self.shape if alt else self.shape)
        if base == 'unit':
            u = 0.02 + 0.96 * torch.rand(shape, generator=gen, dtype=dtype)
            if edge:
                u.view(-1)[0] = 0.0
                u.view(-1)[1] = 1.0
                u.view(-1)[2] = 1e-9
            return u
        if base == 'binary':
            return (torch.rand(shape, generator=gen, dtype=dtype) < 0.5).to(dtype)
        if base in ('inside', 'outside', 'mixed'):
            Bd = float(self.domain[1])
            u = (2 * torch.rand(shape, generator=gen, dtype=dtype) - 1) * 0.95 * Bd
            sgn = torch.where(torch.rand(shape, generator=gen) < 0.5, -1.0, 1.0).to(dtype)
            out = sgn * (Bd + 0.25 + torch.rand(shape, generator=gen, dtype=dtype))
            if base == 'inside':
                return u
            if base == 'outside':
                return out
            pick = torch.rand(shape, generator=gen) < 0.5
            flat = pick.reshape(-1)
            flat[0] = True
            flat[-1] = False
            return torch.where(pick, u, out)
        scale = {'std': 1.0, 'seedA': 1.0, 'seedB': 1.0, 'seedC': 1.0, 'wide': 3.0}.get(base, 1.0)
        return scale * torch.randn(shape, generator=gen, dtype=dtype)

    def gen_ctx(self, gen, batch=BATCH, dtype=torch.float32):
        if self.ctx is None:
            return None
        return torch.randn((batch,) + self.ctx, generator=gen, dtype=dtype)


class FuncCfg(Cfg):
    """a public function of the library called directly with caller-provided tensors (no module state)"""

    def __init__(self, name, fn, params, domain='real', static=None, atoms=None, has_inverse=True, tier='quick', sort=None):
        super().__init__(name, 'func', None, (F4,), domain=domain, atoms=atoms,
                         calls=(['call', 'call_inverse'] if has_inverse else ['call']), tier=tier)
        self.fn, self.params, self.static, self.has_inverse, self.sort = fn, params, dict(static or {}), has_inverse, sort

    def make_args(self, atom, gen):
        args = {'inputs': self.gen(atom, gen)}
        for n, k in self.params.items():
            t = torch.randn(BATCH, F4, k, generator=gen)
            if self.sort == n:
                t = torch.sort(torch.rand(BATCH, F4, k, generator=gen), dim=-1)[0]
            args[n] = t
        return args

    def invoke(self, args, inverse):
        kw = dict(self.static)
        if self.has_inverse:
            kw['inverse'] = inverse
        return self.fn(**args, **kw)


def prep_atom(module, atom):
    """put the module into the state the atom asks for (Linear weight cache)"""
    if '+' not in atom or module is None:
        return
    c = atom.split('+')[1]
    lin = [m for m in module.modules() if hasattr(m, 'use_cache') and hasattr(m, 'cache')]
    for m in lin:
        m.use_cache(c != 'nocache')
        if c != 'cache_hit':
            m.cache.invalidate()
    return c


# ---- conditioners ------------------------------------------------------------------------------------
def resnet(hidden=8, ctx=None, bn=False, blocks=1):
    def f(i, o):
        return nets.ResidualNet(i, o, hidden_features=hidden, context_features=ctx, num_blocks=blocks, use_batch_norm=bn)
    return f


def convnet(hidden=4, ctx=None, bn=False):
    def f(i, o):
        return nets.ConvResidualNet(i, o, hidden_channels=hidden, context_channels=ctx, num_blocks=1, use_batch_norm=bn)
    return f


def alt_mask(n=F4):
    return torchutils.create_alternating_binary_mask(n, even=True)


def rnd_mask(n=F4):
    return torchutils.create_random_binary_mask(n)


def _multiscale():
    m = T.MultiscaleCompositeTransform(num_transforms=2, split_dim=1)
    hid = m.add_transform(T.AffineCouplingTransform(alt_mask(4), resnet()), (4,))
    m.add_transform(T.ReversePermutation(hid[0]), hid)
    return m


def _glow_step():
    return T.CompositeTransform([T.ActNorm(4), T.OneByOneConvolution(4), T.AffineCouplingTransform(alt_mask(4), convnet())])


def _flow_small(ctx=False):
    tr = T.CompositeTransform([
        T.RandomPermutation(F4),
        T.MaskedAffineAutoregressiveTransform(F4, 8, context_features=(6 if ctx else None), num_blocks=1),
        T.LULinear(F4),
        T.PiecewiseRationalQuadraticCouplingTransform(alt_mask(), resnet(ctx=(6 if ctx else None)), num_bins=4,
                                                      tails='linear', tail_bound=2.0),
    ])
    emb = nn.Linear(CTX, 6) if ctx else None
    return FL.Flow(tr, D.StandardNormal([F4]), embedding_net=emb)


def _flow_norm():
    tr = T.CompositeTransform([T.ActNorm(F4), T.BatchNorm(F4), T.AffineCouplingTransform(rnd_mask(), resnet(bn=True))])
    return FL.Flow(tr, D.StandardNormal([F4]))


def _flow_cond_base():
    tr = T.CompositeTransform([T.ReversePermutation(F4), T.AffineCouplingTransform(alt_mask(), resnet(ctx=CTX))])
    return FL.Flow(tr, D.ConditionalDiagonalNormal([F4], context_encoder=nn.Linear(CTX, 2 * F4)))


def registry():
    R = []
    add = lambda *a, **k: R.append(Cfg(*a, **k))
    S = (F4,)
    # --- element-wise / standard --------------------------------------------------------------------
    add('Identity', 'transform', lambda: T.IdentityTransform(), S, atoms=['std', 'std~alt'])
    add('PointwiseAffine/scalar', 'transform', lambda: T.PointwiseAffineTransform(shift=0.5, scale=2.0), S, atoms=['std', 'std~alt'])
    add('PointwiseAffine', 'transform', lambda: T.PointwiseAffineTransform(shift=torch.tensor([0.5, -1.0, 0.0, 2.0]), scale=torch.tensor([2.0, 0.5, -1.5, 1.0])), S, atoms=['std', 'std~alt'])
    # buffers held in a different float dtype from the data (float64 statistics, float32 inputs): evaluation must not re-type them
    add('PointwiseAffine/float64_buffers', 'transform', lambda: T.PointwiseAffineTransform(shift=torch.tensor([0.5, -1.0, 0.0, 2.0], dtype=torch.float64),
                                                                                              scale=torch.tensor([2.0, 0.5, -1.5, 1.0], dtype=torch.float64)), S)
    add('Exp', 'transform', lambda: T.Exp(), S, atoms=['std', 'std~alt'])
    add('Tanh', 'transform', lambda: T.Tanh(), S, atoms=['std', 'std~alt'])
    add('LogTanh', 'transform', lambda: T.LogTanh(cut_point=1), S, atoms=['std', 'wide'])
    add('LeakyReLU', 'transform', lambda: T.LeakyReLU(), S, atoms=['std', 'std~alt'])
    add('Sigmoid', 'transform', lambda: T.Sigmoid(), S, atoms=['std', 'std~alt'])
    add('Sigmoid/learn_temperature', 'transform', lambda: T.Sigmoid(temperature=1.5, learn_temperature=True), S, random_ctor=True,
        note='no constructor randomness, but a learned temperature that must travel')
    add('Logit', 'transform', lambda: T.Logit(), S, domain='unit', atoms=['unit', 'unit!edge', 'unit~alt'])
    add('GatedLinearUnit', 'transform', lambda: T.GatedLinearUnit(), S, ctx=(1,))
    add('CompositeCDF/Sigmoid+LinearCDF', 'transform', lambda: T.CompositeCDFTransform(T.Sigmoid(), T.PiecewiseLinearCDF([F4], num_bins=4)), S)
    add('Image/Sigmoid', 'transform', lambda: T.Sigmoid(), IMG, tier='thorough')
    # --- unconditional spline CDFs ------------------------------------------------------------------
    add('LinearCDF', 'transform', lambda: T.PiecewiseLinearCDF([F4], num_bins=4), S, domain='unit')
    add('LinearCDF/tails', 'transform', lambda: T.PiecewiseLinearCDF([F4], num_bins=4, tails='linear', tail_bound=2.0), S, domain=('tails', 2.0))
    add('QuadraticCDF', 'transform', lambda: T.PiecewiseQuadraticCDF([F4], num_bins=4), S, domain='unit')
    add('QuadraticCDF/tails', 'transform', lambda: T.PiecewiseQuadraticCDF([F4], num_bins=4, tails='linear', tail_bound=2.0), S, domain=('tails', 2.0))
    add('CubicCDF', 'transform', lambda: T.PiecewiseCubicCDF([F4], num_bins=4), S, domain='unit', atoms=['unit', 'unit#B', 'unit#C'])
    add('CubicCDF/tails', 'transform', lambda: T.PiecewiseCubicCDF([F4], num_bins=4, tails='linear', tail_bound=2.0), S, domain=('tails', 2.0))
    add('RQCDF', 'transform', lambda: T.PiecewiseRationalQuadraticCDF([F4], num_bins=4), S, domain='unit')
    add('RQCDF/tails', 'transform', lambda: T.PiecewiseRationalQuadraticCDF([F4], num_bins=4, tails='linear', tail_bound=2.0), S, domain=('tails', 2.0))
    # --- coupling -----------------------------------------------------------------------------------
    add('AdditiveCoupling', 'transform', lambda: T.AdditiveCouplingTransform(alt_mask(), resnet()), S)
    add('AffineCoupling/ctx', 'transform', lambda: T.AffineCouplingTransform(alt_mask(), resnet(ctx=CTX)), S, ctx=(CTX,))
    add('AffineCoupling/random_mask', 'transform', lambda: T.AffineCouplingTransform(rnd_mask(), resnet()), S, random_ctor=True)
    add('AffineCoupling/bn_conditioner', 'transform', lambda: T.AffineCouplingTransform(alt_mask(), resnet(bn=True)), S, batch_stats=True)
    add('AffineCoupling/image', 'transform', lambda: T.AffineCouplingTransform(alt_mask(4), convnet()), IMG)
    add('AffineCoupling/image_bn', 'transform', lambda: T.AffineCouplingTransform(alt_mask(4), convnet(bn=True)), IMG, batch_stats=True, tier='thorough')
    add('LinearCoupling', 'transform', lambda: T.PiecewiseLinearCouplingTransform(alt_mask(), resnet(), num_bins=4), S, domain='unit')
    add('LinearCoupling/tails', 'transform', lambda: T.PiecewiseLinearCouplingTransform(alt_mask(), resnet(), num_bins=4, tails='linear', tail_bound=2.0), S, domain=('tails', 2.0), tier='thorough')
    add('QuadraticCoupling', 'transform', lambda: T.PiecewiseQuadraticCouplingTransform(alt_mask(), resnet(), num_bins=4), S, domain='unit')
    add('QuadraticCoupling/tails+uncond', 'transform', lambda: T.PiecewiseQuadraticCouplingTransform(alt_mask(), resnet(), num_bins=4, tails='linear', tail_bound=2.0, apply_unconditional_transform=True), S, domain=('tails', 2.0))
    add('CubicCoupling', 'transform', lambda: T.PiecewiseCubicCouplingTransform(alt_mask(), resnet(), num_bins=4), S, domain='unit', atoms=['unit', 'unit#B', 'unit#C'])
    add('CubicCoupling/tails', 'transform', lambda: T.PiecewiseCubicCouplingTransform(alt_mask(), resnet(), num_bins=4, tails='linear', tail_bound=2.0), S, domain=('tails', 2.0))
    add('RQCoupling', 'transform', lambda: T.PiecewiseRationalQuadraticCouplingTransform(alt_mask(), resnet(), num_bins=4), S, domain='unit')
    add('RQCoupling/tails+ctx', 'transform', lambda: T.PiecewiseRationalQuadraticCouplingTransform(alt_mask(), resnet(ctx=CTX), num_bins=4, tails='linear', tail_bound=2.0), S, ctx=(CTX,), domain=('tails', 2.0))
    add('RQCoupling/random_mask', 'transform', lambda: T.PiecewiseRationalQuadraticCouplingTransform(rnd_mask(), resnet(), num_bins=4, tails='linear', tail_bound=2.0), S, domain=('tails', 2.0), random_ctor=True, atoms=['mixed'])
    add('RQCoupling/image', 'transform', lambda: T.PiecewiseRationalQuadraticCouplingTransform(alt_mask(4), convnet(), num_bins=4, tails='linear', tail_bound=2.0), IMG, domain=('tails', 2.0))
    add('UMNNCoupling', 'transform', lambda: T.UMNNCouplingTransform(alt_mask(), resnet(), integrand_net_layers=[8, 8], cond_size=4, nb_steps=5), S, tier='thorough')
    # --- autoregressive -----------------------------------------------------------------------------
    add('MAF/residual', 'transform', lambda: T.MaskedAffineAutoregressiveTransform(F4, 8, num_blocks=1), S)
    add('MAF/ctx', 'transform', lambda: T.MaskedAffineAutoregressiveTransform(F4, 8, context_features=CTX, num_blocks=1), S, ctx=(CTX,))
    add('MAF/random_mask', 'transform', lambda: T.MaskedAffineAutoregressiveTransform(F4, 8, num_blocks=2, use_residual_blocks=False, random_mask=True), S, random_ctor=True)
    add('MAF/bn', 'transform', lambda: T.MaskedAffineAutoregressiveTransform(F4, 8, num_blocks=1, use_batch_norm=True), S, batch_stats=True)
    add('MAF/ff_bn', 'transform', lambda: T.MaskedAffineAutoregressiveTransform(F4, 8, num_blocks=1, use_residual_blocks=False, use_batch_norm=True), S, batch_stats=True, tier='thorough')
    add('LinearAR', 'transform', lambda: T.MaskedPiecewiseLinearAutoregressiveTransform(4, F4, 8, num_blocks=1), S, domain='unit')
    add('QuadraticAR/tails', 'transform', lambda: T.MaskedPiecewiseQuadraticAutoregressiveTransform(F4, 8, num_bins=4, num_blocks=1, tails='linear', tail_bound=2.0), S, domain=('tails', 2.0))
    add('CubicAR', 'transform', lambda: T.MaskedPiecewiseCubicAutoregressiveTransform(4, F4, 8, num_blocks=1), S, domain='unit', atoms=['unit', 'unit#B'])
    add('RQAR/tails', 'transform', lambda: T.MaskedPiecewiseRationalQuadraticAutoregressiveTransform(F4, 8, num_bins=4, num_blocks=1, tails='linear', tail_bound=2.0), S, domain=('tails', 2.0))
    add('RQAR/random_mask', 'transform', lambda: T.MaskedPiecewiseRationalQuadraticAutoregressiveTransform(F4, 8, num_bins=4, num_blocks=2, use_residual_blocks=False, random_mask=True, tails='linear', tail_bound=2.0), S, domain=('tails', 2.0), random_ctor=True, atoms=['mixed'])
    add('UMNNAR', 'transform', lambda: T.MaskedUMNNAutoregressiveTransform(F4, 8, num_blocks=1, integrand_net_layers=[8, 8], cond_size=4, nb_steps=5), S, tier='thorough')
    # --- linear family ------------------------------------------------------------------------------
    add('NaiveLinear', 'transform', lambda: T.NaiveLinear(F4), S, cache=True)
    add('LULinear', 'transform', lambda: T.LULinear(F4, identity_init=False), S, cache=True, random_ctor=True,
        note='numpy index arrays are plain attributes, constructor-determined')
    add('QRLinear', 'transform', lambda: T.QRLinear(F4, num_householder=3), S, cache=True)
    add('SVDLinear', 'transform', lambda: T.SVDLinear(F4, num_householder=4, identity_init=False), S, cache=True)
    add('HouseholderSequence', 'transform', lambda: T.HouseholderSequence(F4, 3), S)
    # one feature: reflections of a 1-vector, 1x1 triangular factors (special cases that may return or write through the caller's tensor)
    add('SVDLinear/features1', 'transform', lambda: T.SVDLinear(1, num_householder=2, identity_init=False), (1,), cache=True)
    add('QRLinear/features1', 'transform', lambda: T.QRLinear(1, num_householder=1), (1,), cache=True)
    add('LULinear/features1', 'transform', lambda: T.LULinear(1, identity_init=False), (1,), cache=True)
    add('HouseholderSequence/features1-even', 'transform', lambda: T.HouseholderSequence(1, 2), (1,))
    add('OneByOneConvolution', 'transform', lambda: T.OneByOneConvolution(4), IMG, cache=True, random_ctor=True)
    # --- normalisation ------------------------------------------------------------------------------
    add('BatchNorm', 'transform', lambda: T.BatchNorm(F4), S, batch_stats=True, random_ctor=True, note='running statistics')
    add('ActNorm', 'transform', lambda: T.ActNorm(F4), S, batch_stats=True, random_ctor=True, note='initialized flag + data-dependent init')
    add('ActNorm/image', 'transform', lambda: T.ActNorm(4), IMG, batch_stats=True)
    # image shapes for which permute(0,2,3,1).reshape(-1, C) is a VIEW of the caller's tensor (single channel / single pixel)
    add('ActNorm/image-C1', 'transform', lambda: T.ActNorm(1), (1, 3, 3), batch_stats=True)
    add('ActNorm/image-1x1', 'transform', lambda: T.ActNorm(4), (4, 1, 1), batch_stats=True)
    # --- permutations / reshape / wrappers ----------------------------------------------------------
    add('RandomPermutation', 'transform', lambda: T.RandomPermutation(F4), S, random_ctor=True)
    add('ReversePermutation', 'transform', lambda: T.ReversePermutation(F4), S)
    add('Permutation/dim2', 'transform', lambda: T.Permutation(torch.tensor([2, 0, 3, 1]), dim=2), IMG, tier='thorough')
    add('Squeeze', 'transform', lambda: T.SqueezeTransform(2), IMG)
    add('Composite', 'transform', lambda: T.CompositeTransform([T.ActNorm(F4), T.LULinear(F4), T.RandomPermutation(F4), T.AffineCouplingTransform(alt_mask(), resnet()), T.BatchNorm(F4)]), S, batch_stats=True, random_ctor=True)
    add('Inverse/AffineCoupling', 'transform', lambda: T.InverseTransform(T.AffineCouplingTransform(alt_mask(), resnet())), S)
    add('Multiscale', 'transform', _multiscale, S)
    add('GlowStep/image', 'transform', _glow_step, IMG, batch_stats=True, random_ctor=True)
    # --- distributions ------------------------------------------------------------------------------
    add('StandardNormal', 'dist', lambda: D.StandardNormal([F4]), S, random_ctor=True, note='_log_z non-persistent, constructor-determined (control)')
    add('StandardNormal/ctx', 'dist', lambda: D.StandardNormal([F4]), S, ctx=(CTX,), tier='thorough')
    add('DiagonalNormal', 'dist', lambda: D.DiagonalNormal([F4]), S, calls=['log_prob'])
    add('ConditionalDiagonalNormal', 'dist', lambda: D.ConditionalDiagonalNormal([F4], context_encoder=nn.Linear(CTX, 2 * F4)), S, ctx=(CTX,))
    # the DEFAULT (identity) context encoder: the distribution's parameters are views of the caller's context tensor; one draw per
    # context row is where `repeat_rows` returns a view instead of a copy
    add('ConditionalDiagonalNormal/identity_encoder', 'dist', lambda: D.ConditionalDiagonalNormal([F4]), S, ctx=(2 * F4,),
        calls=['log_prob', 'sample', 'sample1', 'sample_and_log_prob', 'sample_and_log_prob1'])
    add('ConditionalIndependentBernoulli', 'dist', lambda: D.ConditionalIndependentBernoulli([F4], context_encoder=nn.Linear(CTX, F4)), S, ctx=(CTX,), domain='binary')
    add('MADEMoG', 'dist', lambda: D.MADEMoG(F4, 8, CTX, num_blocks=1, num_mixture_components=2), S, ctx=(CTX,))
    add('MADEMoG/random_mask', 'dist', lambda: D.MADEMoG(F4, 8, CTX, num_blocks=2, num_mixture_components=2, use_residual_blocks=False, random_mask=True), S, ctx=(CTX,), random_ctor=True)
    # --- flows --------------------------------------------------------------------------------------
    add('Flow/small', 'flow', lambda: _flow_small(False), S, random_ctor=True)
    add('Flow/small+embedding', 'flow', lambda: _flow_small(True), S, ctx=(CTX,), random_ctor=True)
    add('Flow/norm_layers', 'flow', _flow_norm, S, batch_stats=True, random_ctor=True)
    add('Flow/conditional_base', 'flow', _flow_cond_base, S, ctx=(CTX,))
    add('Flow/identity_encoder_base', 'flow', lambda: FL.Flow(T.PointwiseAffineTransform(shift=0.5, scale=2.0), D.ConditionalDiagonalNormal([F4])), S, ctx=(2 * F4,),
        calls=['log_prob', 'sample', 'sample1', 'sample_and_log_prob1', 'transform_to_noise'])
    add('SimpleRealNVP', 'flow', lambda: FL.SimpleRealNVP(F4, 8, num_layers=2, num_blocks_per_layer=1), S, random_ctor=True)
    add('SimpleRealNVP/bn', 'flow', lambda: FL.SimpleRealNVP(F4, 8, num_layers=2, num_blocks_per_layer=1, batch_norm_within_layers=True, batch_norm_between_layers=True), S, batch_stats=True, random_ctor=True)
    add('SimpleRealNVP/volume_preserving', 'flow', lambda: FL.SimpleRealNVP(F4, 8, num_layers=2, num_blocks_per_layer=1, use_volume_preserving=True), S, tier='thorough')
    add('MaskedAutoregressiveFlow', 'flow', lambda: FL.MaskedAutoregressiveFlow(F4, 8, num_layers=2, num_blocks_per_layer=1), S, random_ctor=True)
    add('MaskedAutoregressiveFlow/random', 'flow', lambda: FL.MaskedAutoregressiveFlow(F4, 8, num_layers=2, num_blocks_per_layer=2, use_residual_blocks=False, use_random_masks=True, use_random_permutations=True, batch_norm_within_layers=True, batch_norm_between_layers=True), S, batch_stats=True, random_ctor=True)
    # --- public functions called with caller-provided parameter tensors -----------------------------
    from nflows.transforms import splines as SP
    K = 4
    R.append(FuncCfg('fn/searchsorted', lambda inputs, bin_locations: torchutils.searchsorted(bin_locations, inputs),
                     {'bin_locations': K + 1}, domain='unit', has_inverse=False, sort='bin_locations'))
    R.append(FuncCfg('fn/linear_spline', SP.linear_spline, {'unnormalized_pdf': K}, domain='unit'))
    R.append(FuncCfg('fn/unconstrained_linear_spline', SP.unconstrained_linear_spline, {'unnormalized_pdf': K},
                     domain=('tails', 2.0), static={'tail_bound': 2.0}))
    R.append(FuncCfg('fn/quadratic_spline', SP.quadratic_spline, {'unnormalized_widths': K, 'unnormalized_heights': K + 1}, domain='unit'))
    R.append(FuncCfg('fn/unconstrained_quadratic_spline', SP.unconstrained_quadratic_spline,
                     {'unnormalized_widths': K, 'unnormalized_heights': K - 1}, domain=('tails', 2.0), static={'tail_bound': 2.0}))
    R.append(FuncCfg('fn/cubic_spline', SP.cubic_spline,
                     {'unnormalized_widths': K, 'unnormalized_heights': K, 'unnorm_derivatives_left': 1, 'unnorm_derivatives_right': 1},
                     domain='unit', atoms=['unit', 'unit#B', 'unit#C']))
    R.append(FuncCfg('fn/unconstrained_cubic_spline', SP.unconstrained_cubic_spline,
                     {'unnormalized_widths': K, 'unnormalized_heights': K, 'unnorm_derivatives_left': 1, 'unnorm_derivatives_right': 1},
                     domain=('tails', 2.0), static={'tail_bound': 2.0}))
    R.append(FuncCfg('fn/rational_quadratic_spline', SP.rational_quadratic_spline,
                     {'unnormalized_widths': K, 'unnormalized_heights': K, 'unnormalized_derivatives': K + 1}, domain='unit'))
    R.append(FuncCfg('fn/unconstrained_rational_quadratic_spline', SP.unconstrained_rational_quadratic_spline,
                     {'unnormalized_widths': K, 'unnormalized_heights': K, 'unnormalized_derivatives': K - 1},
                     domain=('tails', 2.0), static={'tail_bound': 2.0}))
    names = [c.name for c in R]
    assert len(names) == len(set(names))
    return R


def build(cfg, seed):
    torch.manual_seed(seed)
    if cfg.kind == 'func':
        return None
    m = cfg.build()
    return m


def forward_for_inverse(module, x, ctx):
    """a valid input for `inverse`: the forward image of a valid input, computed on a deep copy in eval mode"""
    m = copy.deepcopy(module)
    m.eval()
    with torch.no_grad():
        y, _ = m(x, ctx)
    return y.detach().clone()
