"""Storage/ownership tracer and bitwise snapshots for C13 (translator + ground truth).

`trace_call(fn, owned)` runs `fn()` under a `torch.overrides.TorchFunctionMode` and returns the sequence of
storage-relevant events of the call: every torch function seen by the mode contributes `read s` for its tensor
arguments, `write s` for every tensor it modifies in place (rules in `write_targets`), and `alloc s` / `view s`
for its tensor results (fresh storage / storage shared with an argument or an already known storage).
Storage identity is `untyped_storage().data_ptr()`; every result tensor is kept alive until the end of the call so
that an address is never reused inside one trace.  Rebinding of a parameter / buffer to another storage
(`p.data = …`, seen by the mode as `Tensor.data.__set__`, and double-checked after the call by comparing the storage
of every named tensor) is a `write` to the storage that was owned at call entry.

`Snapshot` is the independent ground truth: bytes of the WHOLE underlying storage, `_version`, shape/stride/offset,
`requires_grad`, `.grad is None` of caller tensors and of every parameter / buffer, before and after.
"""
import hashlib
import torch
from torch.overrides import TorchFunctionMode, resolve_name

ALLOC, VIEW, READ, WRITE = 0, 1, 2, 3
TAGS = {ALLOC: 'alloc', VIEW: 'view', READ: 'read', WRITE: 'write'}

_INPLACE_DUNDER = {'__setitem__', '__iadd__', '__isub__', '__imul__', '__itruediv__', '__ifloordiv__', '__imod__',
                   '__ipow__', '__iand__', '__ior__', '__ixor__', '__ilshift__', '__irshift__', '__idiv__',
                   '__imatmul__', '__delitem__'}


def sptr(t):
    """storage id of a tensor, or None when it has no (non-empty) storage"""
    try:
        st = t.untyped_storage()
        if st.nbytes() == 0:
            return None
        return st.data_ptr()
    except Exception:
        return None


def tensors_in(obj, out=None, depth=0):
    if out is None:
        out = []
    if isinstance(obj, torch.Tensor):
        out.append(obj)
    elif isinstance(obj, (list, tuple)) and depth < 4:
        for o in obj:
            tensors_in(o, out, depth + 1)
    elif isinstance(obj, dict) and depth < 4:
        for o in obj.values():
            tensors_in(o, out, depth + 1)
    return out


def write_targets(name, args, kwargs):
    """tensors that the torch call `name(*args, **kwargs)` modifies in place"""
    short = name.split('.')[-1]
    tg = []
    if short in _INPLACE_DUNDER:
        tg += tensors_in(args[:1])
    elif short == '__set__' and (name.endswith('.data.__set__') or name.endswith('.grad.__set__')
                                 or name.endswith('.requires_grad.__set__')):
        tg += tensors_in(args[:1])
    elif short.endswith('_') and not short.endswith('__'):
        tg += tensors_in(args[:1])
    out = kwargs.get('out', None)
    if out is not None:
        tg += tensors_in(out)
    if kwargs.get('inplace', False) is True:
        tg += tensors_in(args[:1])
    if short in ('batch_norm', 'instance_norm'):
        if name.startswith('torch.nn.functional'):
            # F.batch_norm(input, running_mean, running_var, weight, bias, training, momentum, eps)
            training = kwargs.get('training', args[5] if len(args) > 5 else False)
            if short == 'instance_norm':
                training = kwargs.get('use_input_stats', args[5] if len(args) > 5 else True)
                rm = kwargs.get('running_mean', args[1] if len(args) > 1 else None)
                rv = kwargs.get('running_var', args[2] if len(args) > 2 else None)
            else:
                rm = kwargs.get('running_mean', args[1] if len(args) > 1 else None)
                rv = kwargs.get('running_var', args[2] if len(args) > 2 else None)
        else:
            # torch.batch_norm(input, weight, bias, running_mean, running_var, training, momentum, eps, cudnn)
            training = kwargs.get('training', args[5] if len(args) > 5 else False)
            rm = kwargs.get('running_mean', args[3] if len(args) > 3 else None)
            rv = kwargs.get('running_var', args[4] if len(args) > 4 else None)
        if training:
            tg += tensors_in([rm, rv])
    return tg


class StoreTracer(TorchFunctionMode):
    def __init__(self, known):
        super().__init__()
        self.events = []          # (tag, storage ptr, op name)
        self.known = set(known)
        self.keep = []
        self.ops = 0

    def __torch_function__(self, func, types, args=(), kwargs=None):
        kwargs = kwargs or {}
        try:
            name = resolve_name(func) or getattr(func, '__name__', repr(func))
        except Exception:
            name = getattr(func, '__name__', repr(func))
        self.ops += 1
        ins = tensors_in(args) + tensors_in(kwargs)
        in_ptrs = set()
        for t in ins:
            p = sptr(t)
            if p is not None:
                in_ptrs.add(p)
                self.events.append((READ, p, name))
        try:
            targets = write_targets(name, args, kwargs)
        except Exception:
            targets = []
        for t in targets:
            p = sptr(t)
            if p is not None:
                self.events.append((WRITE, p, name))
        out = func(*args, **kwargs)
        for t in tensors_in(out):
            p = sptr(t)
            if p is None:
                continue
            self.keep.append(t)
            if p in in_ptrs or p in self.known:
                self.events.append((VIEW, p, name))
            else:
                self.events.append((ALLOC, p, name))
            self.known.add(p)
        return out


def storage_bytes(t):
    st = t.untyped_storage()
    if st.nbytes() == 0:
        return b''
    flat = torch.empty(0, dtype=torch.uint8, device=t.device).set_(st)
    return flat.cpu().numpy().tobytes()


def tensor_bytes(t):
    """bytes of the logical content of a tensor (row-major), NaN-safe"""
    t = t.detach()
    if t.dtype == torch.bool:
        t = t.to(torch.uint8)
    return t.contiguous().cpu().numpy().tobytes()


def digest(b):
    return hashlib.sha1(b).hexdigest()[:16]


class TensorSnap:
    __slots__ = ('name', 'ptr', 'version', 'digest', 'meta', 'requires_grad', 'grad_none', 'is_leaf', 'obj_id')

    def __init__(self, name, t):
        self.name = name
        self.ptr = sptr(t)
        self.version = t._version
        self.digest = digest(storage_bytes(t))
        self.meta = (tuple(t.shape), tuple(t.stride()), t.storage_offset(), str(t.dtype))
        self.requires_grad = t.requires_grad
        self.grad_none = t.grad is None if t.is_leaf else True
        self.is_leaf = t.is_leaf
        self.obj_id = id(t)

    def diff(self, other):
        """list of reasons why `other` (after) differs from self (before)"""
        why = []
        if self.digest != other.digest:
            why.append('bits')
        if self.ptr == other.ptr and self.version != other.version:
            why.append('_version %d->%d' % (self.version, other.version))
        if self.meta != other.meta:
            why.append('shape/stride/offset/dtype')
        if self.requires_grad != other.requires_grad:
            why.append('requires_grad')
        if self.grad_none != other.grad_none:
            why.append('.grad populated')
        return why


def named_state(module):
    """all parameters and buffers (persistent or not) of a module tree, by qualified name"""
    out = {}
    if module is None or not isinstance(module, torch.nn.Module):
        return out
    for n, p in module.named_parameters(remove_duplicate=False):
        out['P:' + n] = p
    for n, b in module.named_buffers(remove_duplicate=False):
        out['B:' + n] = b
    return out


class Snapshot:
    """bitwise + version snapshot of caller tensors and of the model state"""

    def __init__(self, callers, module):
        self.callers = {k: TensorSnap(k, t) for k, t in callers.items() if isinstance(t, torch.Tensor)}
        self.state = {k: TensorSnap(k, t) for k, t in named_state(module).items()}
        # the mode flags are state too: a call must leave every sub-module in the mode it found it in
        self.modes = {n: bool(m.training) for n, m in module.named_modules()} if isinstance(module, torch.nn.Module) else {}

    def changed(self, after):
        """-> dict name -> reasons, over callers and state (names that disappeared / appeared are reported too)"""
        ch = {}
        for grp_b, grp_a in ((self.callers, after.callers), (self.state, after.state)):
            for k, sb in grp_b.items():
                sa = grp_a.get(k)
                if sa is None:
                    ch[k] = ['removed']
                    continue
                d = sb.diff(sa)
                if d:
                    ch[k] = d
            for k in grp_a:
                if k not in grp_b:
                    ch[k] = ['added']
        for n, tr in self.modes.items():
            if n in after.modes and after.modes[n] != tr:
                ch['B:' + (n + '.' if n else '') + 'training (mode flag)'] = ['training %s -> %s' % (tr, after.modes[n])]
        return ch


def whitelist_names(module):
    """documented statistics that may move in TRAINING mode (module.training of the owning submodule):
    nflows BatchNorm running_mean/var, ActNorm one-shot init (only while not initialised), nn.BatchNorm*
    running_mean/running_var/num_batches_tracked"""
    wl = set()
    if module is None or not isinstance(module, torch.nn.Module):
        return wl
    from nflows.transforms.normalization import BatchNorm as NBatchNorm, ActNorm
    for prefix, m in module.named_modules():
        pre = prefix + '.' if prefix else ''
        if not m.training:
            continue
        if isinstance(m, NBatchNorm):
            wl |= {'B:' + pre + 'running_mean', 'B:' + pre + 'running_var'}
        elif isinstance(m, ActNorm):
            try:
                init = bool(m.initialized)
            except Exception:
                init = True
            if not init:
                wl |= {'P:' + pre + 'log_scale', 'P:' + pre + 'shift', 'B:' + pre + 'initialized'}
        elif isinstance(m, torch.nn.modules.batchnorm._BatchNorm):
            wl |= {'B:' + pre + 'running_mean', 'B:' + pre + 'running_var', 'B:' + pre + 'num_batches_tracked'}
    return wl


class Trace:
    """result of one traced call, canonicalised"""

    def __init__(self):
        self.owned = []       # canonical ids
        self.wl = []
        self.events = []      # (tag, canonical id)
        self.names = {}       # canonical id -> sorted list of names of owned tensors on that storage
        self.write_ops = {}   # canonical id -> list of op names that wrote it
        self.raised = None
        self.result = None
        self.n_ops = 0

    def key(self):
        return (tuple(self.owned), tuple(self.wl), tuple(self.events))

    def safe_py(self):
        o, w = set(self.owned), set(self.wl)
        return all(not (t == WRITE and s in o and s not in w) for t, s in self.events)

    def write_counts(self):
        c = {s: 0 for s in self.owned}
        for t, s in self.events:
            if t == WRITE and s in c:
                c[s] += 1
        return c

    def flat(self):
        out = []
        for t, s in self.events:
            out += [t, s]
        return out


def trace_call(fn, callers, module, keep_reads_of='callers'):
    """run fn() under the tracer.  callers: dict name -> tensor (caller-owned); module: the model (or None).
    Returns a canonical `Trace` (owned storages numbered first, in name order; other storages in order of first
    appearance in the compressed trace)."""
    named = {}
    for k, t in callers.items():
        if isinstance(t, torch.Tensor):
            named['A:' + k] = t
    named.update(named_state(module))
    wl_names = whitelist_names(module)
    ptr_names = {}
    for k in sorted(named):
        p = sptr(named[k])
        if p is not None:
            ptr_names.setdefault(p, []).append(k)
    entry_ptr = {k: sptr(t) for k, t in named.items()}
    hold = []
    for t in named.values():          # keep the entry storages alive: their addresses must not be reused
        try:
            hold.append(t.untyped_storage())
        except Exception:
            pass
    tracer = StoreTracer(ptr_names.keys())
    tr = Trace()
    try:
        with tracer:
            tr.result = fn()
    except Exception as e:           # the events up to the exception are kept: an attempted write is a write
        tr.raised = e
    tr.n_ops = tracer.ops
    events = list(tracer.events)
    # rebinding check: a named tensor that now lives on another storage was overwritten (`.data = …`)
    after = {}
    for k, t in callers.items():
        if isinstance(t, torch.Tensor):
            after['A:' + k] = t
    after.update(named_state(module))
    for k in sorted(named):
        p0 = entry_ptr[k]
        t1 = after.get(k)
        p1 = sptr(t1) if t1 is not None else None
        if p0 is not None and p1 != p0:
            if not any(tag == WRITE and p == p0 for tag, p, _ in events):
                events.append((WRITE, p0, 'rebind:' + k))
    # compress: keep every write; origin (first alloc/view) of every written storage; first read of caller storages
    written = {p for tag, p, _ in events if tag == WRITE}
    caller_ptrs = {p for p, ns in ptr_names.items() if any(n.startswith('A:') for n in ns)}
    seen_origin, seen_read = set(), set()
    comp = []
    for tag, p, name in events:
        if tag == WRITE:
            comp.append((tag, p, name))
        elif tag in (ALLOC, VIEW):
            if p in written and p not in seen_origin and p not in ptr_names:
                seen_origin.add(p)
                comp.append((tag, p, name))
        elif tag == READ:
            if p in caller_ptrs and p not in seen_read:
                seen_read.add(p)
                comp.append((tag, p, name))
    # canonical numbering: owned storages first, ordered by their first (sorted) name
    order = sorted(ptr_names, key=lambda p: ptr_names[p][0])
    canon = {p: i for i, p in enumerate(order)}
    nxt = len(order)
    for tag, p, name in comp:
        if p not in canon:
            canon[p] = nxt
            nxt += 1
    tr.owned = [canon[p] for p in order]
    tr.names = {canon[p]: ptr_names[p] for p in order}
    tr.wl = sorted(canon[p] for p in order if any(n in wl_names for n in ptr_names[p])
                   and all((n in wl_names) for n in ptr_names[p]))
    tr.events = [(tag, canon[p]) for tag, p, _ in comp]
    for tag, p, name in comp:
        if tag == WRITE:
            tr.write_ops.setdefault(canon[p], []).append(name)
    tracer.keep.clear()
    del hold
    return tr
