"""Registry of transform configurations and the bridge transform -> Lean model request.

The model is fed (i) the module's own parameters/buffers as observed through public attributes and (ii) the
recorded outputs of neural conditioners (forward hooks).  Conditioners are arbitrary functions in the theorems."""
import math
import numpy as np
import torch
from torch import nn
from torch.nn import functional as F
from . import bits, splines as S


# ------------------------------------------------------------------ conditioner nets
class PlainNet(nn.Module):
    """conditioner without `hidden_features` / `hidden_channels` attributes (2-D)"""
    def __init__(self, i, o, ctx=None):
        super().__init__()
        self.l1 = nn.Linear(i + (ctx or 0), 7)
        self.l2 = nn.Linear(7, o)

    def forward(self, x, context=None):
        if context is not None:
            x = torch.cat([x, context], 1)
        return self.l2(torch.tanh(self.l1(x)))


def net_fn(kind, ctx=None, hidden=8):
    from nflows.nn.nets import ResidualNet, ConvResidualNet
    if kind == 'res':
        return lambda i, o: ResidualNet(i, o, hidden_features=hidden, context_features=ctx, num_blocks=1)
    if kind == 'conv':
        return lambda i, o: ConvResidualNet(i, o, hidden_channels=hidden, context_channels=ctx, num_blocks=1)
    if kind == 'res-bn-do':
        # non-default conditioner options: batch norm and dropout inside the residual blocks (both inert in evaluation mode)
        return lambda i, o: ResidualNet(i, o, hidden_features=hidden, context_features=ctx, num_blocks=2, use_batch_norm=True, dropout_probability=0.3)
    if kind == 'conv-bn-do':
        return lambda i, o: ConvResidualNet(i, o, hidden_channels=hidden, context_channels=ctx, num_blocks=1, use_batch_norm=True, dropout_probability=0.3)
    if kind == 'plain':
        return lambda i, o: PlainNet(i, o, ctx)
    raise ValueError(kind)


class Entry:
    def __init__(self, name, kind, build, in_shape, ctx=None, dom_fwd=None, dom_inv=None, spline=None, extra=None):
        self.name = name; self.kind = kind; self.build = build; self.in_shape = tuple(in_shape)
        self.ctx = ctx; self.dom_fwd = dom_fwd; self.dom_inv = dom_inv; self.spline = spline or {}
        self.extra = extra or {}

    def __repr__(self):
        return self.name


def _spl(fam, tails, K, B=None):
    return dict(fam=fam, tails=bool(tails), K=K, B=B)


def entries(level='quick'):
    import nflows.transforms as T
    E = []
    full = level != 'quick'
    # ---- element-wise non-linearities
    for shape in ([3], [2, 1, 2], [1], [2]) if full else ([3],):
        E += [
            Entry('Exp%s' % shape, 'nonlin', lambda: T.Exp(), shape, dom_inv=(1e-3, 20.0), extra={'cls': 'Exp'}),
            Entry('Tanh%s' % shape, 'nonlin', lambda: T.Tanh(), shape, dom_inv=(-0.999, 0.999), extra={'cls': 'Tanh'}),
            Entry('LogTanh1%s' % shape, 'nonlin', lambda: T.LogTanh(cut_point=1), shape, extra={'cls': 'LogTanh'}),
            Entry('LogTanh.5%s' % shape, 'nonlin', lambda: T.LogTanh(cut_point=0.5), shape, extra={'cls': 'LogTanh'}),
            Entry('LeakyReLU%s' % shape, 'nonlin', lambda: T.LeakyReLU(), shape, extra={'cls': 'LeakyReLU'}),
            Entry('LeakyReLU.3%s' % shape, 'nonlin', lambda: T.LeakyReLU(negative_slope=0.3), shape, extra={'cls': 'LeakyReLU'}),
            Entry('Sigmoid%s' % shape, 'nonlin', lambda: T.Sigmoid(), shape, dom_inv=(0.0, 1.0), extra={'cls': 'Sigmoid'}),
            Entry('SigmoidT.7%s' % shape, 'nonlin', lambda: T.Sigmoid(temperature=0.7, learn_temperature=True), shape, dom_inv=(0.0, 1.0), extra={'cls': 'Sigmoid'}),
            Entry('Logit%s' % shape, 'nonlin', lambda: T.Logit(), shape, dom_fwd=(0.0, 1.0), extra={'cls': 'Logit'}),
            Entry('CauchyCDF%s' % shape, 'nonlin', lambda: T.nonlinearities.CauchyCDF(), shape, dom_inv=(0.01, 0.99), extra={'cls': 'CauchyCDF'}),
            Entry('CauchyCDFInverse%s' % shape, 'nonlin', lambda: T.nonlinearities.CauchyCDFInverse(), shape, dom_fwd=(0.01, 0.99), extra={'cls': 'CauchyCDFInverse'}),
            Entry('Affine%s' % shape, 'nonlin', lambda: T.PointwiseAffineTransform(shift=0.75, scale=-2.0), shape, extra={'cls': 'Affine'}),
            Entry('Identity%s' % shape, 'nonlin', lambda: T.IdentityTransform(), shape, extra={'cls': 'Identity'}),
            # integer constructor arguments (`scale=2`)
            Entry('AffineInt%s' % shape, 'nonlin', lambda: T.PointwiseAffineTransform(shift=-1, scale=2), shape, extra={'cls': 'Affine'}),
        ]
    if not full:
        # a learnt temperature on an event with more than one non-batch dimension; one-dimensional events
        E.append(Entry('SigmoidT.7[2, 1, 2]', 'nonlin', lambda: T.Sigmoid(temperature=0.7, learn_temperature=True), [2, 1, 2], dom_inv=(0.0, 1.0), extra={'cls': 'Sigmoid'}))
        E.append(Entry('Sigmoid1.6[2, 2]', 'nonlin', lambda: T.Sigmoid(temperature=1.6), [2, 2], dom_inv=(0.0, 1.0), extra={'cls': 'Sigmoid'}))
        E.append(Entry('LogTanh2[1]', 'nonlin', lambda: T.LogTanh(cut_point=2), [1], extra={'cls': 'LogTanh'}))
    # ---- PointwiseAffineTransform with tensor-valued scale / shift (broadcast over the event shape)
    def aff(scale_shape, shift_shape):
        def build():
            g = torch.Generator().manual_seed(sum(scale_shape) * 7 + sum(shift_shape) + 1)
            sc = torch.randn(scale_shape, generator=g).abs() + 0.3
            sc = sc * torch.where(torch.rand(scale_shape, generator=g) < 0.3, -1.0, 1.0)
            sh = torch.randn(shift_shape, generator=g)
            return T.PointwiseAffineTransform(shift=sh, scale=sc)
        return build
    for ev, ssc, ssh in (([3], [3], [3]), ([2, 2, 3], [2, 1, 1], [3]), ([2, 2, 3], [2, 2, 3], [1]), ([2, 2, 3], [3], [2, 1, 1]),
                         ([4], [1], [4]), ([2, 3], [3], [2, 1])):
        E.append(Entry('AffineT%s/s%s/b%s' % (ev, ssc, ssh), 'affine_t', aff(ssc, ssh), ev, extra={'sscale': ssc, 'sshift': ssh}))
    E.append(Entry('AffineT[3]/int', 'affine_t', lambda: T.PointwiseAffineTransform(shift=torch.tensor([1, 0, -2]), scale=torch.tensor([2, 3, -4])), [3],
                   extra={'sscale': [3], 'sshift': [3]}))
    # ---- Piecewise*CDF
    cdfs = {'lin': T.PiecewiseLinearCDF, 'quad': T.PiecewiseQuadraticCDF, 'cubic': T.PiecewiseCubicCDF, 'rq': T.PiecewiseRationalQuadraticCDF}
    for fam, cls in cdfs.items():
        for tails, B in ((None, None), ('linear', 1.0), ('linear', 4.0)):
            for K in ((1, 3, 8) if full else (3,)):
                if fam == 'quad' and tails and K == 1:
                    continue
                for shape in ([2], [2, 1, 2]) if full else ([2],):
                    E.append(Entry('%sCDF/%s/K%d%s' % (fam, 'tails%g' % B if tails else 'box', K, shape), 'cdf',
                                   (lambda cls=cls, shape=shape, K=K, tails=tails, B=B:
                                    cls(shape, num_bins=K, tails=tails, tail_bound=B if B else 1.0)),
                                   shape, dom_fwd=None if tails else (0.0, 1.0), dom_inv=None if tails else (0.0, 1.0),
                                   spline=_spl(fam, tails, K, B)))
    # ---- coupling layers
    cps = {'lin': T.PiecewiseLinearCouplingTransform, 'quad': T.PiecewiseQuadraticCouplingTransform,
           'cubic': T.PiecewiseCubicCouplingTransform, 'rq': T.PiecewiseRationalQuadraticCouplingTransform}
    masks2 = [[1, 0, 1], [0, 1], [-2.5, 0.0, 0.1, 3.0], [1, 1, 0, 1, 0]] if full else [[1, 0, 1], [-2.5, 0.0, 0.1, 3.0]]
    for mask in masks2:
        for ctx in (None, 2):
            for netk in ('res', 'plain') if full else ('res',):
                tag = 'm%s/ctx%s/%s' % (''.join('T' if m > 0 else 'I' for m in mask), ctx, netk)
                E.append(Entry('AdditiveCoupling/' + tag, 'coupling',
                               (lambda mask=mask, ctx=ctx, netk=netk: T.AdditiveCouplingTransform(mask, net_fn(netk, ctx))),
                               [len(mask)], ctx=ctx, extra={'ckind': 'additive', 'mask': mask}))
                E.append(Entry('AffineCoupling/' + tag, 'coupling',
                               (lambda mask=mask, ctx=ctx, netk=netk: T.AffineCouplingTransform(mask, net_fn(netk, ctx))),
                               [len(mask)], ctx=ctx, extra={'ckind': 'affine', 'mask': mask, 'act': 'default'}))
                E.append(Entry('AffineCouplingGeneral/' + tag, 'coupling',
                               (lambda mask=mask, ctx=ctx, netk=netk: T.AffineCouplingTransform(
                                   mask, net_fn(netk, ctx), scale_activation=T.AffineCouplingTransform.GENERAL_SCALE_ACTIVATION)),
                               [len(mask)], ctx=ctx, extra={'ckind': 'affine', 'mask': mask, 'act': 'general'}))
                for fam, cls in cps.items():
                    for tails, B in ((None, None), ('linear', 3.0)):
                        for K in ((2, 5) if full else (4,)):
                            E.append(Entry('%sCoupling/%s/K%d/%s' % (fam, 'tails' if tails else 'box', K, tag), 'coupling',
                                           (lambda cls=cls, mask=mask, ctx=ctx, netk=netk, K=K, tails=tails, B=B:
                                            cls(mask, net_fn(netk, ctx), num_bins=K, tails=tails, tail_bound=B if B else 1.0)),
                                           [len(mask)], ctx=ctx, dom_fwd=None if tails else (0.0, 1.0), dom_inv=None if tails else (0.0, 1.0),
                                           spline=_spl(fam, tails, K, B), extra={'ckind': fam, 'mask': mask}))
    # coupling with an unconditional transform of the identity features
    for fam, cls in cps.items():
        for tails, B in ((None, None), ('linear', 2.5)):
            for ctx in (None, 2):
                mask = [1, 0, 0, 1]
                tag = 'uncond/%s/ctx%s' % ('tails' if tails else 'box', ctx)
                E.append(Entry('%sCoupling/%s' % (fam, tag), 'coupling',
                               (lambda cls=cls, mask=mask, ctx=ctx, tails=tails, B=B: cls(mask, net_fn('res', ctx), num_bins=3, tails=tails,
                                                                                      tail_bound=B if B else 1.0, apply_unconditional_transform=True)),
                               [4], ctx=ctx, dom_fwd=None if tails else (0.0, 1.0), dom_inv=None if tails else (0.0, 1.0),
                               spline=_spl(fam, tails, 3, B), extra={'ckind': fam, 'mask': mask, 'uncond': True}))
            mask = [0, 1, 1]
            E.append(Entry('%sCoupling/uncond/img/%s' % (fam, 'tails' if tails else 'box'), 'coupling',
                           (lambda cls=cls, mask=mask, tails=tails, B=B: cls(mask, net_fn('conv', None, 4), num_bins=3, tails=tails, tail_bound=B if B else 1.0,
                                                                              apply_unconditional_transform=True, img_shape=[2, 2])),
                           [3, 2, 2], dom_fwd=None if tails else (0.0, 1.0), dom_inv=None if tails else (0.0, 1.0),
                           spline=_spl(fam, tails, 3, B), extra={'ckind': fam, 'mask': mask, 'img': True, 'uncond': True}))
    # two features, the single identity feature goes through the unconditional transform (small enough for 2-D quadrature)
    for fam, cls in (('rq', cps['rq']), ('quad', cps['quad'])):
        E.append(Entry('%sCoupling/uncond2/tails' % fam, 'coupling',
                       (lambda cls=cls: cls([1, 0], net_fn('res', None), num_bins=3, tails='linear', tail_bound=2.5, apply_unconditional_transform=True)),
                       [2], spline=_spl(fam, 'linear', 3, 2.5), extra={'ckind': fam, 'mask': [1, 0], 'uncond': True}))
    # conditioners with batch norm and dropout (evaluation mode: running statistics, no dropout)
    E.append(Entry('AffineCoupling/mTIT/ctxNone/res-bn-do', 'coupling',
                   (lambda: T.AffineCouplingTransform([1, 0, 1], net_fn('res-bn-do', None))),
                   [3], extra={'ckind': 'affine', 'mask': [1, 0, 1], 'act': 'default'}))
    E.append(Entry('rqCoupling/tails/K4/mTIT/ctx2/res-bn-do', 'coupling',
                   (lambda: cps['rq']([1, 0, 1], net_fn('res-bn-do', 2), num_bins=4, tails='linear', tail_bound=3.0)),
                   [3], ctx=2, spline=_spl('rq', 'linear', 4, 3.0), extra={'ckind': 'rq', 'mask': [1, 0, 1]}))
    E.append(Entry('AffineCoupling/img/mTI/ctxNone/conv-bn-do', 'coupling',
                   (lambda: T.AffineCouplingTransform([1, 0], net_fn('conv-bn-do', None, 4))),
                   [2, 2, 3], extra={'ckind': 'affine', 'mask': [1, 0], 'act': 'default', 'img': True}))
    # image coupling, identity block FIRST / in the middle
    for mask in ([0, 0, 1, 1], [-1, 0.5, 2]):
        tag = 'img/m%s/ctxNone' % ''.join('T' if m > 0 else 'I' for m in mask)
        E.append(Entry('AffineCoupling/' + tag, 'coupling',
                       (lambda mask=mask: T.AffineCouplingTransform(mask, net_fn('conv', None, 4))),
                       [len(mask), 2, 3], extra={'ckind': 'affine', 'mask': mask, 'act': 'default', 'img': True}))
        E.append(Entry('rqCoupling/tails/' + tag, 'coupling',
                       (lambda mask=mask: cps['rq'](mask, net_fn('conv', None, 4), num_bins=3, tails='linear', tail_bound=2.0)),
                       [len(mask), 2, 3], spline=_spl('rq', 'linear', 3, 2.0), extra={'ckind': 'rq', 'mask': mask, 'img': True}))
    # image coupling
    for mask in ([1, 0], [0, 1, 1]):
        for ctx in (None, 2) if full else (None,):
            tag = 'img/m%s/ctx%s' % (''.join('T' if m > 0 else 'I' for m in mask), ctx)
            shp = [len(mask), 2, 3]
            E.append(Entry('AffineCoupling/' + tag, 'coupling',
                           (lambda mask=mask, ctx=ctx: T.AffineCouplingTransform(mask, net_fn('conv', ctx, 4))),
                           shp, ctx=ctx, extra={'ckind': 'affine', 'mask': mask, 'act': 'default', 'img': True}))
            for fam, cls in cps.items():
                for tails, B in ((None, None), ('linear', 2.0)):
                    E.append(Entry('%sCoupling/%s/%s' % (fam, 'tails' if tails else 'box', tag), 'coupling',
                                   (lambda cls=cls, mask=mask, ctx=ctx, tails=tails, B=B:
                                    cls(mask, net_fn('conv', ctx, 4), num_bins=3, tails=tails, tail_bound=B if B else 1.0)),
                                   shp, ctx=ctx, dom_fwd=None if tails else (0.0, 1.0), dom_inv=None if tails else (0.0, 1.0),
                                   spline=_spl(fam, tails, 3, B), extra={'ckind': fam, 'mask': mask, 'img': True}))
    # ---- autoregressive
    for Fd in ((1, 3, 4) if full else (3,)):
        for ctx in (None, 2):
            for resid in (True, False):
                tag = 'F%d/ctx%s/%s' % (Fd, ctx, 'res' if resid else 'ff')
                E.append(Entry('MaskedAffineAR/' + tag, 'ar',
                               (lambda Fd=Fd, ctx=ctx, resid=resid: T.MaskedAffineAutoregressiveTransform(
                                   Fd, 6, context_features=ctx, num_blocks=1, use_residual_blocks=resid)),
                               [Fd], ctx=ctx, extra={'akind': 'araffine'}))
                E.append(Entry('MaskedLinearAR/' + tag, 'ar',
                               (lambda Fd=Fd, ctx=ctx, resid=resid: T.MaskedPiecewiseLinearAutoregressiveTransform(
                                   4, Fd, 6, context_features=ctx, num_blocks=1, use_residual_blocks=resid)),
                               [Fd], ctx=ctx, dom_fwd=(0.0, 1.0), dom_inv=(0.0, 1.0), spline=_spl('lin', None, 4), extra={'akind': 'lin'}))
                E.append(Entry('MaskedCubicAR/' + tag, 'ar',
                               (lambda Fd=Fd, ctx=ctx, resid=resid: T.MaskedPiecewiseCubicAutoregressiveTransform(
                                   4, Fd, 6, context_features=ctx, num_blocks=1, use_residual_blocks=resid)),
                               [Fd], ctx=ctx, dom_fwd=(0.0, 1.0), dom_inv=(0.0, 1.0), spline=_spl('cubic', None, 4), extra={'akind': 'cubic'}))
                for tails, B in ((None, None), ('linear', 3.0)):
                    E.append(Entry('MaskedQuadraticAR/%s/%s' % ('tails' if tails else 'box', tag), 'ar',
                                   (lambda Fd=Fd, ctx=ctx, resid=resid, tails=tails, B=B: T.MaskedPiecewiseQuadraticAutoregressiveTransform(
                                       Fd, 6, context_features=ctx, num_bins=4, num_blocks=1, tails=tails, tail_bound=B if B else 1.0,
                                       use_residual_blocks=resid)),
                                   [Fd], ctx=ctx, dom_fwd=None if tails else (0.0, 1.0), dom_inv=None if tails else (0.0, 1.0),
                                   spline=_spl('quad', tails, 4, B), extra={'akind': 'quad'}))
                    E.append(Entry('MaskedRQAR/%s/%s' % ('tails' if tails else 'box', tag), 'ar',
                                   (lambda Fd=Fd, ctx=ctx, resid=resid, tails=tails, B=B: T.MaskedPiecewiseRationalQuadraticAutoregressiveTransform(
                                       Fd, 6, context_features=ctx, num_bins=4, num_blocks=1, tails=tails, tail_bound=B if B else 1.0,
                                       use_residual_blocks=resid)),
                                   [Fd], ctx=ctx, dom_fwd=None if tails else (0.0, 1.0), dom_inv=None if tails else (0.0, 1.0),
                                   spline=_spl('rq', tails, 4, B), extra={'akind': 'rq'}))
    if not full:
        for resid in (True, False):
            tag = 'F1/ctxNone/%s' % ('res' if resid else 'ff')
            E.append(Entry('MaskedAffineAR/' + tag, 'ar',
                           (lambda resid=resid: T.MaskedAffineAutoregressiveTransform(1, 6, num_blocks=1, use_residual_blocks=resid)), [1], extra={'akind': 'araffine'}))
            E.append(Entry('MaskedRQAR/tails/' + tag, 'ar',
                           (lambda resid=resid: T.MaskedPiecewiseRationalQuadraticAutoregressiveTransform(
                               1, 6, num_bins=4, num_blocks=1, tails='linear', tail_bound=3.0, use_residual_blocks=resid)),
                           [1], spline=_spl('rq', 'linear', 4, 3.0), extra={'akind': 'rq'}))
    # non-default minimal bin sizes (different for widths and heights) on the class level
    E.append(Entry('quadCDF/tails3/K4[2]/mins', 'cdf',
                   (lambda: T.PiecewiseQuadraticCDF([2], num_bins=4, tails='linear', tail_bound=3.0, min_bin_width=0.02, min_bin_height=0.05)),
                   [2], spline=_spl('quad', 'linear', 4, 3.0)))
    E.append(Entry('cubicCDF/tails3/K4[2]/mins', 'cdf',
                   (lambda: T.PiecewiseCubicCDF([2], num_bins=4, tails='linear', tail_bound=3.0, min_bin_width=0.03, min_bin_height=0.08)),
                   [2], spline=_spl('cubic', 'linear', 4, 3.0)))
    E.append(Entry('rqCDF/tails3/K4[2]/mins', 'cdf',
                   (lambda: T.PiecewiseRationalQuadraticCDF([2], num_bins=4, tails='linear', tail_bound=3.0, min_bin_width=0.03, min_bin_height=0.08, min_derivative=0.05)),
                   [2], spline=_spl('rq', 'linear', 4, 3.0)))
    # ... and on one-dimensional events (where a flow's total mass can be integrated)
    E.append(Entry('quadCDF/tails3/K4[1]/mins', 'cdf',
                   (lambda: T.PiecewiseQuadraticCDF([1], num_bins=4, tails='linear', tail_bound=3.0, min_bin_width=0.02, min_bin_height=0.08)),
                   [1], spline=_spl('quad', 'linear', 4, 3.0)))
    E.append(Entry('cubicCDF/tails3/K4[1]/mins', 'cdf',
                   (lambda: T.PiecewiseCubicCDF([1], num_bins=4, tails='linear', tail_bound=3.0, min_bin_width=0.03, min_bin_height=0.08)),
                   [1], spline=_spl('cubic', 'linear', 4, 3.0)))
    E.append(Entry('rqCDF/tails3/K4[1]/mins', 'cdf',
                   (lambda: T.PiecewiseRationalQuadraticCDF([1], num_bins=4, tails='linear', tail_bound=3.0, min_bin_width=0.03, min_bin_height=0.08, min_derivative=0.05)),
                   [1], spline=_spl('rq', 'linear', 4, 3.0)))
    # MADE conditioners with batch norm and dropout (feed-forward and residual blocks)
    for resid in (True, False):
        tag = 'F3/ctxNone/%s+bn+do' % ('res' if resid else 'ff')
        E.append(Entry('MaskedAffineAR/' + tag, 'ar',
                       (lambda resid=resid: T.MaskedAffineAutoregressiveTransform(3, 6, num_blocks=1, use_residual_blocks=resid, use_batch_norm=True,
                                                                                  dropout_probability=0.3)),
                       [3], extra={'akind': 'araffine'}))
        E.append(Entry('MaskedRQAR/tails/' + tag, 'ar',
                       (lambda resid=resid: T.MaskedPiecewiseRationalQuadraticAutoregressiveTransform(
                           3, 6, num_bins=4, num_blocks=1, tails='linear', tail_bound=3.0, use_residual_blocks=resid, use_batch_norm=True, dropout_probability=0.3)),
                       [3], spline=_spl('rq', 'linear', 4, 3.0), extra={'akind': 'rq'}))
    return E


# ------------------------------------------------------------------ parameter regimes
def perturb(t, regime, gen):
    """move the module's parameters away from their initial values"""
    with torch.no_grad():
        for n, p in t.named_parameters():
            if regime == 'fresh':
                continue
            if regime == 'zeros' and ('unnormalized' in n or 'unnorm' in n or n.endswith('final_layer.weight') or n.endswith('final_layer.bias') or n.endswith('l2.weight') or n.endswith('l2.bias')):
                p.zero_()
            elif regime == 'normal':
                p.add_(0.5 * torch.randn(p.shape, generator=gen, dtype=p.dtype))
                if n.endswith('temperature'):
                    p.abs_().clamp_(min=0.05)     # a learnt temperature stays a positive number: log(T) is part of the log-det
            elif regime == 'extreme':
                # as 'normal', and the LAST layer's biases pushed far out with alternating signs: the heads of a conditioner (log-scales,
                # unconstrained scales) then reach values such as -9 and +6, where clamps and floors inside a transformer become active
                p.add_(0.5 * torch.randn(p.shape, generator=gen, dtype=p.dtype))
                if n.endswith('final_layer.bias') or n.endswith('l2.bias') or n.endswith('_final_layer.bias'):
                    pat = torch.tensor([-9.0, 0.0, 6.0, -7.0, 3.0], dtype=p.dtype)
                    p.add_(pat[torch.arange(p.numel()) % 5].reshape(p.shape))
            elif regime == 'wide':
                if 'final_layer' in n or 'unnorm' in n or n.startswith('transform_net.l2'):
                    p.mul_(3.0).add_(2.0 * torch.randn(p.shape, generator=gen, dtype=p.dtype))
                else:
                    p.add_(0.5 * torch.randn(p.shape, generator=gen, dtype=p.dtype))
        if regime in ('normal', 'wide', 'extreme'):
            # batch-norm layers inside conditioners: running statistics as after some training
            for mod in t.modules():
                if isinstance(mod, torch.nn.modules.batchnorm._BatchNorm) and mod.running_mean is not None:
                    mod.running_mean.copy_(0.3 * torch.randn(mod.running_mean.shape, generator=gen).to(mod.running_mean.dtype))
                    mod.running_var.copy_((0.5 + torch.rand(mod.running_var.shape, generator=gen)).to(mod.running_var.dtype))
    return t


def make_inputs(e, B, gen, dtype, inverse, t=None, ctx=None):
    """in-domain inputs of the requested direction (inverse inputs = forward outputs of in-domain points when the
    inverse domain is not a simple interval)"""
    dom = e.dom_inv if inverse else e.dom_fwd
    shape = (B,) + e.in_shape
    if dom is None:
        x = 2.0 * torch.randn(shape, generator=gen, dtype=dtype)
        if e.spline.get('B'):
            # put some entries exactly on / beyond the tail bound
            flat = x.reshape(-1)
            Bv = e.spline['B']
            if flat.numel() >= 4:
                flat[0] = Bv; flat[1] = -Bv; flat[2] = Bv + 1.5
        return x
    lo, hi = dom
    x = lo + (hi - lo) * torch.rand(shape, generator=gen, dtype=dtype)
    if e.kind == 'coupling' and e.dom_fwd is not None:
        pass
    return x


def make_context(e, B, gen, dtype):
    if e.ctx is None:
        return None
    if e.extra.get('img'):
        return torch.randn((B, e.ctx) + e.in_shape[1:], generator=gen, dtype=dtype)
    return torch.randn(B, e.ctx, generator=gen, dtype=dtype)


# ------------------------------------------------------------------ observing the implementation
class Recorder:
    """forward hooks on the conditioner: every call's inputs and output"""
    def __init__(self, module):
        self.calls = []
        self.h = module.register_forward_hook(self._hook)

    def _hook(self, mod, inp, out):
        self.calls.append(([a.detach().clone() if torch.is_tensor(a) else a for a in inp], out.detach().clone()))

    def close(self):
        self.h.remove()


def conditioner_of(t):
    for name in ('transform_net', 'autoregressive_net'):
        if hasattr(t, name):
            return getattr(t, name)
    return None


def impl_call(t, x, ctx, inverse):
    try:
        f = t.inverse if inverse else t.forward
        y, ld = f(x.clone(), ctx.clone() if ctx is not None else None) if ctx is not None else f(x.clone())
        return 'ok', y.detach(), ld.detach()
    except Exception as ex:
        return S.exc_kind(ex), None, None


def _spline_d(e, t):
    """cfg doubles in the order `runSpline`/`elTransform` expect, read from the module's own attributes"""
    fam, tails = e.spline['fam'], e.spline['tails']
    d = S.defaults(fam, tails)
    for k in ('min_bin_width', 'min_bin_height', 'min_derivative'):
        if hasattr(t, k):
            d[k] = getattr(t, k)
    head = [float(getattr(t, 'tail_bound', e.spline.get('B') or 1.0))] if tails else [0.0, 1.0, 0.0, 1.0]
    if fam == 'rq':
        return head + [d['min_bin_width'], d['min_bin_height'], d['min_derivative'], 1.0]
    if fam == 'quad':
        return head + [d['min_bin_width'], d['min_bin_height']]
    if fam == 'lin':
        return head
    return head + [d['min_bin_width'], d['min_bin_height'], d['eps'], d['quadratic_threshold']]


def model_request(e, t, x, ctx, inverse, rec=None, pass_index=-1):
    """build the Lean request that evaluates the model on the same inputs"""
    prec = 'f32' if x.dtype == torch.float32 else 'f64'
    B = x.shape[0]
    fb = lambda v: bits.f64_bits(float(v))
    if e.kind == 'nonlin':
        cls = e.extra['cls']
        ds, ps = [], []
        if cls == 'LogTanh':
            ds = [t.cut_point]   # alpha, beta, inv_cut_point are DERIVED by the model from cut_point as the constructor does
        elif cls == 'LeakyReLU':
            ds = [t.negative_slope]; ps = [t.log_negative_slope.to(x.dtype).reshape(1)]
        elif cls == 'Sigmoid':
            ds = [t.eps]; ps = [t.temperature.detach().to(x.dtype).reshape(1)]
        elif cls == 'Logit':
            ds = [t._transform.eps]; ps = [t._transform.temperature.detach().to(x.dtype).reshape(1)]
        elif cls == 'Affine':
            ps = [torch.stack([t._scale.to(x.dtype).reshape(()), t._shift.to(x.dtype).reshape(())])]
        return {'op': 'nonlin', 'p': prec, 's': [cls, 'nonlin', ''], 'i': [int(inverse), 0, 0, B],
                'f': [bits.tensor_bits(x), bits.tensor_bits(ps[0]) if ps else []], 'd': [fb(v) for v in ds]}
    if e.kind == 'affine_t':
        ev = list(e.in_shape); ssc = list(t._scale.shape); ssh = list(t._shift.shape)
        return {'op': 'affine_t', 'p': prec, 's': ['AffineT', 'affine_t', ''], 'i': [int(inverse), 0, 0, B, len(ev), len(ssc), len(ssh)] + ev + ssc + ssh,
                'f': [bits.tensor_bits(x), bits.tensor_bits(t._scale.to(x.dtype)), bits.tensor_bits(t._shift.to(x.dtype))], 'd': []}
    fam = e.spline.get('fam')
    if e.kind == 'cdf':
        names = S.PARAM_NAMES[fam]
        n = int(np.prod(e.in_shape))
        P = torch.cat([getattr(t, nm).detach().to(x.dtype).reshape(n, getattr(t, nm).shape[-1]) for nm in names], -1)
        return {'op': 'cdf', 'p': prec, 's': [fam, 'cdf', ''], 'i': [int(inverse), int(e.spline['tails']), e.spline['K'], B, n, 0, 0],
                'f': [bits.tensor_bits(x), bits.tensor_bits(P)], 'd': [fb(v) for v in _spline_d(e, t)]}
    if e.kind == 'coupling':
        net = t.transform_net
        params = rec.calls[pass_index][1]
        S_ = int(np.prod(x.shape[2:])) if x.dim() > 2 else 1
        ck = e.extra['ckind']
        d = _spline_d(e, t) if fam else []
        hf = int(getattr(net, 'hidden_features', 0) or 0)
        hc = int(getattr(net, 'hidden_channels', 0) or 0)
        mask = torch.tensor(e.extra['mask'], dtype=x.dtype)
        ufam, ubits = '', []
        ut = getattr(t, 'unconditional_transform', None)
        if ut is not None:
            ufam = fam
            nid = int(sum(1 for m in e.extra['mask'] if m <= 0)) * S_
            UP = torch.cat([getattr(ut, nm).detach().to(x.dtype).reshape(nid, getattr(ut, nm).shape[-1]) for nm in S.PARAM_NAMES[fam]], -1)
            ubits = bits.tensor_bits(UP)
        return {'op': 'coupling', 'p': prec, 's': [ck, 'coupling', e.extra.get('act', 'default'), ufam],
                'i': [int(inverse), int(bool(e.spline.get('tails'))), e.spline.get('K', 0), B, S_, hf, hc],
                'f': [bits.tensor_bits(x), bits.tensor_bits(params.to(x.dtype)), bits.tensor_bits(mask), ubits], 'd': [fb(v) for v in d]}
    if e.kind == 'ar':
        net = t.autoregressive_net
        params = rec.calls[pass_index][1]
        ak = e.extra['akind']
        d = _spline_d(e, t) if fam else [t._epsilon]
        hf = int(getattr(net, 'hidden_features', 0) or 0)
        return {'op': 'ar', 'p': prec, 's': [ak, 'ar', ''],
                'i': [int(inverse), int(bool(e.spline.get('tails'))), e.spline.get('K', 0), B, x.shape[1], hf, 0],
                'f': [bits.tensor_bits(x), bits.tensor_bits(params.to(x.dtype))], 'd': [fb(v) for v in d]}
    raise ValueError(e.kind)


def decode(resp, prec):
    out = bits.dec(resp['f'][0], prec)
    ld = bits.dec(resp['f'][1], prec)
    cond = bits.dec(resp['f'][2], prec) if len(resp['f']) > 2 else []
    alts = {int(i): bits.dec(a, prec) for i, a in zip(resp.get('i', []), resp['f'][3:])}
    err = resp['s'][0] if resp.get('s') else ''
    return out, ld, cond, alts, err
