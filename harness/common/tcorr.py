"""Transform-level correspondence shared by C01, C02, C07, C12, C17, C19: run the implementation, feed the Lean model the
same inputs plus the recorded conditioner outputs, compare the requested observables."""
import copy
import math
import pickle
import torch
from . import registry as R, leandriver, bits


class Job:
    __slots__ = ('e', 'regime', 'inverse', 'x', 'ctx', 'kind', 'y', 'ld', 'reqs', 'rec_inputs', 'tag', 'prec', 't', 'resp', 'nograd', 'nc', 'cp')

    def __init__(self, **kw):
        for k in self.__slots__:
            setattr(self, k, kw.get(k))


def build(e, gen, dtype, regime):
    torch.manual_seed(int(torch.randint(0, 2 ** 31 - 1, (1,), generator=gen)))
    t = e.build()
    R.perturb(t, regime, gen)
    if dtype == torch.float64:
        t = t.double()
    t.eval()
    return t


def make_job(e, t, x, ctx, inverse, regime='', tag=None):
    prec = 'f32' if x.dtype == torch.float32 else 'f64'
    cond = R.conditioner_of(t)
    rec = R.Recorder(cond) if cond is not None else None
    try:
        kind, y, ld = R.impl_call(t, x, ctx, inverse)
    finally:
        if rec:
            rec.close()
    reqs, rec_inputs = [], []
    if e.kind in ('nonlin', 'cdf', 'affine_t'):
        reqs = [R.model_request(e, t, x, ctx, inverse)]
    elif rec is not None and rec.calls:
        if e.kind == 'ar' and inverse:
            # every pass: the model is fed the recorded parameters of that pass
            for k in range(len(rec.calls)):
                reqs.append(R.model_request(e, t, x, ctx, inverse, rec, pass_index=k))
                rec_inputs.append(rec.calls[k][0][0])
        else:
            reqs = [R.model_request(e, t, x, ctx, inverse, rec, pass_index=0)]
            rec_inputs = [rec.calls[0][0][0]]
    # the same call without autograd (inference): values must be bit-identical (a "fast path" taken only under no_grad is still the
    # same function)
    with torch.no_grad():
        ng = R.impl_call(t, x, ctx, inverse)
    # the same values handed over as a dense NON-CONTIGUOUS tensor (a transposed batch, a channels-last image): same function
    nc = None
    xn = noncontiguous(x)
    if xn is not None and tag != 'backward':
        nc = R.impl_call(t, xn, ctx, inverse)
    # a copy of the object made by standard Python means (copy.deepcopy / a pickle round trip, alternating): the same function, so
    # bit-identical results in evaluation mode — state kept outside parameters and buffers must survive the copy
    cp = None
    if tag != 'backward':
        _COPY[0] += 1
        how = 'deepcopy' if _COPY[0] % 2 else 'pickle'
        try:
            t2 = copy.deepcopy(t) if how == 'deepcopy' else pickle.loads(pickle.dumps(t))
        except Exception as ex:
            # unpicklable members (local functions as activations) on some registry entries: nothing to compare
            t2 = None if how == 'pickle' and isinstance(ex, (pickle.PicklingError, AttributeError, TypeError)) else ex
        if isinstance(t2, Exception):
            cp = (how, ('copy-raises:' + type(t2).__name__, None, None))
        elif t2 is not None:
            cp = (how, R.impl_call(t2, x, ctx, inverse))
    return Job(e=e, regime=regime, inverse=inverse, x=x, ctx=ctx, kind=kind, y=y, ld=ld, reqs=reqs, rec_inputs=rec_inputs,
               tag=tag, prec=prec, t=t, nograd=ng, nc=nc, cp=cp)


_COPY = [0]


def noncontiguous(x):
    """a tensor equal to x whose memory layout is dense but not contiguous (None when there is no such layout)"""
    if x.dim() == 2 and x.shape[0] > 1 and x.shape[1] > 1:
        xn = x.detach().t().contiguous().t()
    elif x.dim() == 4 and x.shape[1] > 1 and x.shape[2] * x.shape[3] > 1:
        xn = x.detach().permute(0, 2, 3, 1).contiguous().permute(0, 3, 1, 2)
    else:
        return None
    assert not xn.is_contiguous() and torch.equal(xn, x)
    return xn


def run_jobs(jobs):
    flat = [r for j in jobs for r in j.reqs]
    resps = leandriver.call(flat)
    k = 0
    for j in jobs:
        j.resp = resps[k:k + len(j.reqs)]
        k += len(j.reqs)
    return jobs


def close(a, b, atol, rtol):
    if math.isinf(atol):
        return True
    if math.isnan(a) and math.isnan(b):
        return True
    if math.isinf(a) or math.isinf(b):
        return a == b
    return abs(a - b) <= atol + rtol * max(abs(a), abs(b))


def _backward(j):
    """An inverse whose answer differs from the model's by more than the forward-error tolerance (an ill-conditioned point: a
    nearly flat bin makes x and, through f''/f', the log-det, arbitrarily sensitive to the last ulp of y and of the parameters)
    is still right when it is a preimage in the BACKWARD-error sense: the MODEL's forward map, fed the implementation's answer
    and the parameters the implementation's conditioner produces there, returns the original input and the negated log-det.
    -> (model forward outputs at the implementation's answer, model forward log-dets there) or None"""
    try:
        if not torch.isfinite(j.y).all() or not torch.isfinite(j.ld).all():
            return None
        j2 = make_job(j.e, j.t, j.y.detach().clone(), j.ctx, False, j.regime, tag='backward')
        if j2.kind != 'ok' or not j2.reqs:
            return None
        run_jobs([j2])
        out, ld, cond, alts, err = R.decode(j2.resp[-1], j2.prec)
        if err or len(out) != j.x.numel() or len(ld) != j.ld.numel():
            return None
        return out, ld
    except Exception:
        return None


def _forward_ld_range(j):
    """model log-dets of the forward map on inputs within 8 ulps of the job's inputs -> (row-wise min, row-wise max) or None"""
    try:
        eps = torch.finfo(j.x.dtype).eps
        lds = []
        for k in (-8, -3, -1, 1, 3, 8):
            xp = j.x.detach() * (1.0 + k * eps) + (k * torch.finfo(j.x.dtype).tiny)
            jj = make_job(j.e, j.t, xp, j.ctx, bool(j.inverse), j.regime, tag='backward')
            if jj.kind != 'ok' or not jj.reqs:
                continue
            run_jobs([jj])
            out, ld, cond, alts, err = R.decode(jj.resp[-1], jj.prec)
            if err or len(ld) != j.ld.numel():
                continue
            # a perturbed input that crossed into a linear tail (identity, log-det exactly 0) is on the other side of a junction where
            # the log-det jumps: it says nothing about the conditioning on this side
            xpl = xp.reshape(-1).tolist()
            per = max(1, len(out) // max(1, len(ld)))
            ld = [v if not (v == 0.0 and all(out[i * per + q] == xpl[i * per + q] for q in range(per))) else None for i, v in enumerate(ld)]
            lds.append(ld)
        if len(lds) < 2:
            return None
        cols = [[v for v in col if v is not None] for col in zip(*lds)]
        if any(len(c) == 0 for c in cols):
            return None
        return [min(c) for c in cols], [max(c) for c in cols]
    except Exception:
        return None


def compare(ctx, j, prop, observables=('out', 'ld'), atol=1e-9, rtol=1e-9, check_cond=True, branch_extra=''):
    """-> True if the job agrees.  Records cases/disagreements in ctx."""
    e = j.e
    case = {'entry': e.name, 'regime': j.regime, 'inverse': j.inverse, 'prec': j.prec, 'tag': j.tag,
            'x_bits': bits.tensor_bits(j.x)[:64], 'shape': list(j.x.shape)}
    n = j.x.numel()
    br = '%s/%s/%s%s' % (e.kind, e.name.split('/')[0], 'inv' if j.inverse else 'fwd', branch_extra)
    if j.nograd is not None:
        k2, y2, l2 = j.nograd
        if k2 != j.kind or (k2 == 'ok' and not (torch.equal(torch.nan_to_num(y2, nan=1.25e300), torch.nan_to_num(j.y, nan=1.25e300))
                                               and torch.equal(torch.nan_to_num(l2, nan=1.25e300), torch.nan_to_num(j.ld, nan=1.25e300)))):
            ctx.disagree(prop + '/' + e.kind, case, {'no_grad': k2}, {'grad': j.kind}, 'evaluation under torch.no_grad() differs from evaluation with autograd')
    if j.nc is not None:
        k3, y3, l3 = j.nc
        bad = k3 != j.kind
        if not bad and k3 == 'ok':
            tol = 1e-3 if j.prec == 'f32' else 1e-7
            ldr = j.ld.detach().abs().clamp(max=50.0).exp().reshape([-1] + [1] * (j.y.dim() - 1))
            dy = (y3.detach() - j.y.detach()).abs()
            dl = (l3.detach() - j.ld.detach()).abs()
            fin = torch.isfinite(j.y.detach()).all() and torch.isfinite(j.ld.detach()).all()
            if fin and (tuple(y3.shape) != tuple(j.y.shape) or not bool((dy <= tol * (1 + j.y.detach().abs()) * ldr).all())
                        or not bool((dl <= tol * (1 + j.ld.detach().abs()) * ldr.reshape(-1)).all())):
                bad = True
        if bad:
            ctx.disagree(prop + '/' + e.kind, case, {'noncontiguous': k3}, {'contiguous': j.kind},
                         'the same values passed as a dense non-contiguous tensor give a different result')
    if j.cp is not None:
        how, (k4, y4, l4) = j.cp
        if k4 != j.kind or (k4 == 'ok' and not (torch.equal(torch.nan_to_num(y4, nan=1.25e300), torch.nan_to_num(j.y, nan=1.25e300))
                                               and torch.equal(torch.nan_to_num(l4, nan=1.25e300), torch.nan_to_num(j.ld, nan=1.25e300)))):
            ctx.disagree(prop + '/' + e.kind, case, {how: k4}, {'original': j.kind}, 'a %s copy of the transform computes something else than the original' % how)
    if not j.resp:
        ctx.case(n=n, branch=br + '/no-model')
        if j.kind != 'ok':
            # implementation raised before reaching the conditioner: nothing to compare with
            ctx.disagree(prop + '/' + e.kind, case, j.kind, None, 'implementation raised %s before the conditioner was called' % j.kind)
            return False
        return True
    out, ld, cond, alts, err = R.decode(j.resp[-1], j.prec)
    errs = [R.decode(r, j.prec)[4] for r in j.resp]
    merr = next((x for x in errs if x), '')
    if j.kind != 'ok' or merr:
        ok = (j.kind == merr) or (j.kind != 'ok' and merr and e.kind == 'ar' and j.inverse)
        ctx.case(key=('err', e.name, j.inverse, j.kind), branch=br + '/error:' + str(j.kind), n=n, nontrivial=True)
        if not ok:
            ctx.disagree(prop + '/' + e.kind, case, j.kind, merr or 'ok', 'outcome kinds differ')
        return ok
    ok = True
    yl = j.y.reshape(-1).tolist()
    ldl = j.ld.reshape(-1).tolist()
    why = ''
    # conditioning: a row whose |log-det| is large has a tiny/huge local derivative; one ulp of the inputs then moves
    # outputs and log-dets by ~ulp*exp(|ld|) in BOTH implementation and model (property text: accuracy is scaled by
    # the local conditioning of the map)
    if e.spline.get('fam') == 'cubic' and j.inverse:
        # the trigonometric / Cardano root is only accurate to ~sqrt(ulp) near a vanishing discriminant; the
        # implementation declares eps = 1e-5 for its root selection
        atol = max(atol, 2e-6 if j.prec == 'f64' else 5e-3)
    per_row = max(1, len(yl) // max(1, len(ldl)))
    unit = 1e-15 if j.prec == 'f64' else 1e-4
    # a non-finite log-det (a bin whose softmax mass underflowed to exactly 0) means infinite conditioning: the row's
    # outputs are not comparable; the log-dets themselves must still agree (inf == inf)
    kap = [unit * math.exp(min(60.0, abs(v))) if math.isfinite(v) else float('inf') for v in ldl]
    if 'out' in observables:
        if len(out) != len(yl):
            ok = False; why = 'output sizes differ: %d vs %d' % (len(out), len(yl))
        else:
            for i, (a, b) in enumerate(zip(yl, out)):
                cands = [b] + alts.get(i, [])
                if not any(close(a, c, atol + (kap[i // per_row] if i // per_row < len(kap) else 0.0), rtol) for c in cands):
                    ok = False; why = 'outputs[%d]: impl %r model %r' % (i, a, b); break
    if ok and 'ld' in observables:
        if len(ld) != len(ldl):
            ok = False; why = 'log-det sizes differ: %d vs %d' % (len(ld), len(ldl))
        else:
            for i, (a, b) in enumerate(zip(ldl, ld)):
                if not close(a, b, atol * 10 + (kap[i] if math.isfinite(kap[i]) else 0.0), rtol * 10):
                    ok = False; why = 'logabsdet[%d]: impl %r model %r' % (i, a, b); break
    if ok and e.kind == 'ar' and j.inverse:
        # pass k+1 of the implementation must be fed the model's output of pass k
        for k in range(len(j.resp) - 1):
            mo = R.decode(j.resp[k], j.prec)[0]
            nxt = j.rec_inputs[k + 1].reshape(-1).tolist()
            if len(mo) != len(nxt) or not all(close(a, b, atol, rtol) for a, b in zip(nxt, mo)):
                ok = False; why = 'autoregressive inverse: input of pass %d differs from the model output of pass %d' % (k + 1, k); break
    if ok and check_cond and e.kind == 'coupling':
        got = j.rec_inputs[0].reshape(-1)
        gb = bits.tensor_bits(got)
        mb = j.resp[0]['f'][2]
        if gb != mb:
            # bit-for-bit unless an unconditional transform computed the identity split (then: numerically)
            mv = bits.dec(mb, j.prec)
            gv = got.tolist()
            if not (e.extra.get('uncond') and len(mv) == len(gv) and all(close(a, b, atol, rtol) for a, b in zip(gv, mv))):
                ok = False; why = 'conditioner input differs from the identity split the model predicts'
    if not ok and j.inverse and why.startswith(('outputs[', 'logabsdet[')):
        bw = _backward(j)
        if bw is not None:
            # element-wise: forward-error agreement with the model's inverse OR backward-error agreement through the model's forward
            fo, fl = bw
            xin = j.x.reshape(-1).tolist()
            ok2 = True
            if 'out' in observables:
                for i, (a, b) in enumerate(zip(yl, out)):
                    ka = kap[i // per_row] if i // per_row < len(kap) else 0.0
                    fwd_err = any(close(a, c, atol + ka, rtol) for c in [b] + alts.get(i, []))
                    if not (fwd_err or close(xin[i], fo[i], atol, rtol)):
                        ok2 = False; break
            if ok2 and 'ld' in observables:
                for i, (a, b) in enumerate(zip(ldl, ld)):
                    if not (close(a, b, atol * 10 + (kap[i] if math.isfinite(kap[i]) else 0.0), rtol * 10) or close(a, -fl[i], atol * 10, rtol * 10)):
                        ok2 = False; break
            if ok2:
                ok = True; why = ''; br += '/backward-error'
    if not ok and why.startswith('logabsdet[') and j.tag != 'backward':
        # (both directions) a log-det that differs from the model's by more than exp(|ld|) ulps: where the local slope is tiny (a nearly flat
        # end of a bin, |ld| ~ 25) the log-det f''/f' is far more sensitive to the last ulp of the input than the value is.  Accept
        # when the implementation's log-det lies within the range the MODEL returns on inputs a few ulps away (the implementation is
        # then the model at an input within rounding distance) and the outputs agreed.  The range is sampled at six points only, so
        # one more width of it is allowed on either side.
        rng_ld = _forward_ld_range(j)
        if rng_ld is not None:
            lo, hi = rng_ld
            if all(close(a, b, atol * 10 + (kap[i] if math.isfinite(kap[i]) else 0.0), rtol * 10)
                   or (lo[i] - atol * 10 - 1.0 * (hi[i] - lo[i]) <= a <= hi[i] + atol * 10 + 1.0 * (hi[i] - lo[i]))
                   for i, (a, b) in enumerate(zip(ldl, ld))):
                ok = True; why = ''; br += '/ld-within-ulp-range'
    nontriv = any(abs(a - b) > 1e-12 for a, b in zip(yl, j.x.reshape(-1).tolist())) or any(abs(v) > 1e-12 for v in ldl)
    ctx.case(key=(e.name, j.regime, j.inverse, j.prec, j.tag), branch=br, nontrivial=nontriv, n=n,
             sample={'entry': e.name, 'regime': j.regime, 'inverse': j.inverse, 'x': j.x.reshape(-1).tolist()[:4],
                     'impl_out': yl[:4], 'model_out': out[:4], 'impl_ld': ldl[:2], 'model_ld': ld[:2]} if len(ctx.samples) < 6 else None)
    if not ok:
        ctx.disagree(prop + '/' + e.kind, case, {'out': yl[:8], 'ld': ldl[:4]}, {'out': out[:8], 'ld': ld[:4]}, why)
    return ok
