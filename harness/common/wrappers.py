"""C08 helpers: nestings of Composite / Inverse / Multiscale wrappers over exact-arithmetic atoms.

A nesting is a JSON-able tree; `build(tree)` constructs the real nflows objects (wrappers are the library classes;
atoms are library classes with dyadic / integer parameters plus one test double, `TagShift`), `model_tree(tree, obj)`
is the same tree as sent to the Lean model (permutations are read back from the constructed objects)."""
import math
import torch
from nflows.transforms.base import (Transform, CompositeTransform, MultiscaleCompositeTransform, InverseTransform,
                                    InverseNotAvailable, InputOutsideDomain)
from nflows.transforms.standard import PointwiseAffineTransform
from nflows.transforms.permutations import Permutation, ReversePermutation
from harness.common import bits

DT = torch.float64


class TagShift(Transform):
    """test double (not library code): y_i = x_i + m*(i+1) + cm*context, i = row-major position inside the batch item;
    declares log-abs-det `t` (inverse: -t) so that sums of log-dets identify which parts ran.  `noinv`: forward only."""

    def __init__(self, m, t, cm=0, noinv=False):
        super().__init__()
        self.m, self.t, self.cm, self.noinv = m, t, cm, noinv

    def _delta(self, inputs, context):
        B = inputs.shape[0]
        n = inputs[0].numel() if B > 0 else 0
        pos = torch.arange(1, n + 1, dtype=inputs.dtype).reshape((1,) + tuple(inputs.shape[1:]))
        d = self.m * pos
        if self.cm:
            d = d + self.cm * context.to(inputs.dtype).reshape((B,) + (1,) * (inputs.dim() - 1))
        return d

    def forward(self, inputs, context=None):
        return inputs + self._delta(inputs, context), inputs.new_full((inputs.shape[0],), float(self.t))

    def inverse(self, inputs, context=None):
        if self.noinv:
            return super().inverse(inputs, context)
        return inputs - self._delta(inputs, context), inputs.new_full((inputs.shape[0],), -float(self.t))


def err_kind(e):
    for cls, name in ((InputOutsideDomain, 'InputOutsideDomain'), (InverseNotAvailable, 'InverseNotAvailable'),
                      (AssertionError, 'AssertionError'), (IndexError, 'IndexError'), (TypeError, 'TypeError'),
                      (ValueError, 'ValueError'), (RuntimeError, 'RuntimeError')):
        if isinstance(e, cls):
            return name
    return 'other'


_SD_OTHER = {'float': 1.5, 'str': '1', 'none': None}


def sd_value(sd):
    """tree encoding of split_dim -> the Python value passed to the constructor"""
    if isinstance(sd, int):
        return sd
    return _SD_OTHER[sd]


def build_tied(nodes):
    """sibling nodes that are equal become one and the same object (the same module listed several times)"""
    built = []
    for i, c in enumerate(nodes):
        j = next((j for j in range(i) if nodes[j] == c), None)
        built.append(built[j] if j is not None else build(c))
    return built


def build(node, log=None):
    """construct the real object; `log` (a list) receives the returned value of every add_transform call of the
    TOP-MOST multiscale node"""
    k = node['k']
    if k == 'aff':
        return PointwiseAffineTransform(shift=torch.tensor(float(node['s']), dtype=DT),
                                        scale=torch.tensor(float(node['sg']) * 2.0 ** node['e'], dtype=DT))
    if k == 'tag':
        return TagShift(node['m'], node['t'], node.get('cm', 0), bool(node.get('noinv', 0)))
    if k == 'perm':
        return Permutation(torch.tensor(node['p'], dtype=torch.long), dim=node['dim'])
    if k == 'rev':
        return ReversePermutation(node['n'], dim=node['dim'])
    if k == 'comp':
        # the documented argument is "an iterable of Transform objects": a list, a tuple or a one-shot generator, by turns
        children = build_tied(node['c'])
        how = len(children) % 3
        return CompositeTransform(children if how == 0 else ((c for c in children) if how == 1 else tuple(children)))
    if k == 'inv':
        return InverseTransform(build(node['c']))
    if k == 'ms':
        children = [build(c) for c in node['c']]
        m = MultiscaleCompositeTransform(node['n'], split_dim=sd_value(node['sd']))
        for ch, sh in zip(children, node['shapes']):
            r = m.add_transform(ch, tuple(sh))
            if log is not None:
                log.append(None if r is None else list(r))
        return m
    raise KeyError(k)


def model_tree(node, obj=None):
    """the tree as the Lean model reads it.  `rev` becomes `perm` with the permutation the library object holds."""
    k = node['k']
    if k == 'aff':
        return {'k': 'aff', 'e': node['e'], 'sg': node['sg'], 's': node['s']}
    if k == 'tag':
        return {'k': 'tag', 'm': node['m'], 't': node['t'], 'cm': node.get('cm', 0), 'noinv': int(node.get('noinv', 0))}
    if k == 'perm':
        return {'k': 'perm', 'dim': node['dim'], 'p': list(node['p'])}
    if k == 'rev':
        o = ReversePermutation(node['n'], dim=node['dim'])
        p = getattr(o, '_permutation', None)
        # best effort white-box read; the documented meaning is the reversal
        p = p.tolist() if p is not None else list(range(node['n'] - 1, -1, -1))
        return {'k': 'perm', 'dim': node['dim'], 'p': p}
    if k == 'comp':
        return {'k': 'comp', 'c': [model_tree(c) for c in node['c']]}
    if k == 'inv':
        return {'k': 'inv', 'c': model_tree(node['c'])}
    if k == 'ms':
        sd = node['sd']
        return {'k': 'ms', 'n': node['n'], 'sd': sd if isinstance(sd, int) else None,
                'c': [model_tree(c) for c in node['c']], 'shapes': [list(s) for s in node['shapes']]}
    raise KeyError(k)


def skeleton(node):
    """structure signature of a tree (used for the distinct-case key)"""
    k = node['k']
    if k == 'comp':
        return 'C(' + ','.join(skeleton(c) for c in node['c']) + ')'
    if k == 'inv':
        return 'I(' + skeleton(node['c']) + ')'
    if k == 'ms':
        return 'M%s/%s(' % (node['n'], node['sd']) + ','.join(skeleton(c) for c in node['c']) + ')'
    return {'aff': 'a', 'tag': 't', 'perm': 'p', 'rev': 'r'}[k]


def depth(node):
    k = node['k']
    if k == 'comp':
        return 1 + max([depth(c) for c in node['c']] + [0])
    if k == 'inv':
        return 1 + depth(node['c'])
    if k == 'ms':
        return 1 + max([depth(c) for c in node['c']] + [0])
    return 0


def wrappers_in(node):
    k = node['k']
    s = set()
    if k in ('comp', 'inv', 'ms'):
        s.add(k)
        for c in (node['c'] if k != 'inv' else [node['c']]):
            s |= wrappers_in(c)
    return s


# ---------------------------------------------------------------------------------------------------------
# running
def run_impl(node, direction, x, context):
    """-> ('ok', y, ld, addlog) | ('err', kind, phase, addlog)"""
    log = []
    try:
        obj = build(node, log if node['k'] == 'ms' else None)
    except Exception as e:
        return ('err', err_kind(e), 'build', log)
    try:
        with torch.no_grad():
            y, ld = (obj.forward if direction == 'fwd' else obj.inverse)(x, context)
            # a wrapper is a pure function of its parts: evaluating the SAME object again must give the same result
            # (the model is a pure function; if the repeat differs, the repeat is what gets compared with it)
            y2, ld2 = (obj.forward if direction == 'fwd' else obj.inverse)(x, context)
            if y2.shape != y.shape or not torch.equal(y2, y) or not torch.equal(ld2, ld):
                y, ld = y2, ld2
    except Exception as e:
        return ('err', err_kind(e), 'call', log)
    return ('ok', y, ld, log)


def model_req(node, direction, x, context):
    B = x.shape[0]
    return {'op': 'c08_eval', 'tree': model_tree(node), 'dir': direction, 'shape': list(x.shape[1:]),
            'f': [bits.tensor_bits(x[b]) for b in range(B)],
            'd': bits.tensor_bits(context.reshape(-1)) if context is not None else [0] * B}


def model_result(resp):
    """-> ('ok', shape, rows(list of list of float), lds) | ('err', kind, phase)"""
    if resp.get('e'):
        ph = resp.get('s') or ['']
        return ('err', resp['e'], ph[0])
    rows = [bits.dec(r) for r in resp['f'][:-1]]
    lds = bits.dec(resp['f'][-1])
    return ('ok', list(resp['i']), rows, lds)


# ---------------------------------------------------------------------------------------------------------
# generation of shape-correct nestings
def ms_max_stages(n):
    """largest number of stages a size-n split dimension admits (each add_transform needs size >= 2)"""
    k = 0
    while n >= 2:
        k += 1
        n //= 2
    return k


def gen_atom(rng, S, pool=('aff', 'tag', 'perm', 'rev', 'tagc')):
    kind = rng.choice(pool)
    if kind in ('perm', 'rev') and len(S) == 0:
        kind = 'aff'
    if kind == 'aff':
        return {'k': 'aff', 'e': rng.choice([-2, -1, 1, 2, 3]), 'sg': rng.choice([1, 1, -1]), 's': rng.randint(-5, 5)}
    if kind == 'tag':
        return {'k': 'tag', 'm': rng.randint(-3, 3) or 1, 't': rng.choice([1, 2, 4, 8, 16, 32, 64, 128, -3, 5]), 'cm': 0}
    if kind == 'tagc':
        return {'k': 'tag', 'm': rng.randint(-2, 2), 't': rng.choice([256, 512, 1024, -7]), 'cm': rng.choice([1, -2, 3])}
    dim = rng.randint(1, len(S))
    n = S[dim - 1]
    if kind == 'rev':
        return {'k': 'rev', 'n': n, 'dim': dim}
    p = list(range(n))
    rng.shuffle(p)
    return {'k': 'perm', 'dim': dim, 'p': p}


def gen_ms(rng, S, d, stage_gen=None, nst=None, sd=None):
    """a multiscale node on item shape S built the documented way; returns (node, total) or None if no dimension
    of S has size >= 2"""
    dims = [i + 1 for i, n in enumerate(S) if n >= 2]
    if not dims:
        return None
    if sd is None:
        sd = rng.choice(dims)
    n = S[sd - 1]
    mx = min(4, ms_max_stages(n))
    if nst is None:
        nst = rng.randint(1, mx)
    shapes, children = [], []
    cur = list(S)
    for k in range(nst):
        shapes.append(list(cur))
        children.append(stage_gen(rng, cur, d - 1) if stage_gen else gen_preserving(rng, cur, d - 1))
        cur = list(cur)
        cur[sd - 1] = cur[sd - 1] // 2
    return {'k': 'ms', 'n': nst, 'sd': sd, 'c': children, 'shapes': shapes}


def gen_preserving(rng, S, d):
    """a transform mapping item shape S to item shape S, nesting depth <= d"""
    if d <= 0:
        return gen_atom(rng, S)
    r = rng.random()
    if r < 0.2:
        return gen_atom(rng, S)
    if r < 0.5:
        return {'k': 'comp', 'c': _tied(rng, [gen_preserving(rng, S, d - 1) for _ in range(rng.randint(0, 3))])}
    if r < 0.7:
        return {'k': 'inv', 'c': gen_preserving(rng, S, d - 1)}
    # multiscale: flat -> flat directly; otherwise S -> flat -> S through an inverted multiscale
    if len(S) == 1 and rng.random() < 0.5:
        m = gen_ms(rng, S, d)
        if m is not None:
            return m
    if d >= 2:
        m1 = gen_ms(rng, S, d - 1)
        m2 = gen_ms(rng, S, d - 2)
        if m1 is not None and m2 is not None:
            mid = [gen_preserving(rng, [math.prod(S)], d - 1)] if rng.random() < 0.5 else []
            return {'k': 'comp', 'c': [m1] + mid + [{'k': 'inv', 'c': m2}]}
    return {'k': 'comp', 'c': _tied(rng, [gen_preserving(rng, S, d - 1) for _ in range(rng.randint(1, 2))])}


def _tied(rng, cs):
    """weight tying: now and then one part appears more than once in a composite — `build` makes equal sibling nodes ONE object"""
    import copy
    if cs and rng.random() < 0.35:
        for _ in range(rng.randint(1, 2)):
            cs.insert(rng.randrange(len(cs) + 1), copy.deepcopy(cs[rng.randrange(len(cs))]))
    return cs


def gen_general(rng, S, d):
    """a transform whose input and output shapes may differ (one of them flat); returns (node, INPUT item shape)"""
    r = rng.random()
    if d >= 1 and r < 0.35:
        m = gen_ms(rng, S, d)
        if m is not None:
            return m, list(S)
    if d >= 2 and r < 0.65:
        m = gen_ms(rng, S, d - 1)
        if m is not None:
            D = [math.prod(S)]
            pre = [gen_preserving(rng, S, d - 1) for _ in range(rng.randint(0, 2))]
            post = [gen_preserving(rng, D, d - 1) for _ in range(rng.randint(0, 2))]
            return {'k': 'comp', 'c': pre + [m] + post}, list(S)
    if d >= 2 and r < 0.8:
        # InverseTransform(Multiscale): the forward direction takes the FLAT tensor
        m = gen_ms(rng, S, d - 1)
        if m is not None:
            return {'k': 'inv', 'c': m}, [math.prod(S)]
    return gen_preserving(rng, S, d), list(S)
