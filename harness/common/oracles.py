"""The properties' own oracles, run on the IMPLEMENTATION only.  Used (a) to search for a concrete failing input
once a proof obligation or the correspondence has broken, (b) to replay the witnesses of known_findings.json."""
import math
import numpy as np
import torch
from torch import nn
from . import registry as R, splines as S


def extra_entries():
    """transform classes that the transform-level model does not cover directly (they are modelled by other
    properties' machinery or, for UMNN, not at all); the oracles below run on these too"""
    import nflows.transforms as T
    E = []
    add = lambda name, build, shape, **kw: E.append(R.Entry(name, 'extra', build, shape, **kw))
    for f in (1, 2, 4):
        add('LULinear/%d' % f, lambda f=f: T.LULinear(f, identity_init=False), [f])
        add('NaiveLinear/%d' % f, lambda f=f: T.NaiveLinear(f), [f])
        add('QRLinear/%d' % f, lambda f=f: T.QRLinear(f, num_householder=3), [f])
        add('SVDLinear/%d' % f, lambda f=f: T.SVDLinear(f, num_householder=4, identity_init=False), [f])
        add('Householder/%d' % f, lambda f=f: T.HouseholderSequence(f, 2 * f + 3), [f])
        add('RandomPermutation/%d' % f, lambda f=f: T.RandomPermutation(f), [f])
        add('ReversePermutation/%d' % f, lambda f=f: T.ReversePermutation(f), [f])
        add('ActNorm/%d' % f, lambda f=f: _init_actnorm(T.ActNorm(f), [f]), [f])
        add('BatchNorm/%d' % f, lambda f=f: _init_batchnorm(T.BatchNorm(f), f), [f])
    def scaled_q(build, scale):
        # a reflection I - 2 q q^T / |q|^2 does not depend on the length of q: q-vectors far from unit length are ordinary parameter values
        def b():
            t = build()
            with torch.no_grad():
                for n, p in t.named_parameters():
                    if n.endswith('q_vectors'):
                        p.copy_(scale * torch.randn(p.shape))
            return t
        return b
    for sc, tag in ((1e-3, 'small'), (3e2, 'large')):
        add('Householder/q-%s' % tag, scaled_q(lambda: T.HouseholderSequence(3, 4), sc), [3], extra={'fixed_q': True})
        add('QRLinear/q-%s' % tag, scaled_q(lambda: T.QRLinear(3, num_householder=3), sc), [3], extra={'fixed_q': True})
        add('SVDLinear/q-%s' % tag, scaled_q(lambda: T.SVDLinear(3, num_householder=2, identity_init=False), sc), [3], extra={'fixed_q': True})
    def warm(cls, **kw):
        # eval mode, cache on, and the FIRST cached call is an inverse (as when sampling before evaluating densities)
        def build():
            t = cls(3, using_cache=True, **kw)
            with torch.no_grad():
                for p in t.parameters():
                    p.add_(0.4 * torch.randn(p.shape))
            return t
        return build
    add('NaiveLinearCachedInvFirst', warm(T.NaiveLinear), [3], extra={'warm_inverse': True})
    add('LULinearCachedInvFirst', warm(T.LULinear, identity_init=False), [3], extra={'warm_inverse': True})
    add('QRLinearCachedInvFirst', warm(T.QRLinear, num_householder=3), [3], extra={'warm_inverse': True})
    add('SVDLinearCachedInvFirst', warm(T.SVDLinear, num_householder=2, identity_init=False), [3], extra={'warm_inverse': True})
    add('ActNorm/img', lambda: _init_actnorm(T.ActNorm(2), [2, 2, 3]), [2, 2, 3])
    add('ActNormFresh/3', lambda: T.ActNorm(3), [3])          # never initialised: evaluation mode must not initialise it
    add('BatchNormFresh/3', lambda: T.BatchNorm(3), [3], extra={'tol': 1e-4})
    add('BatchNormTrain/3', lambda: T.BatchNorm(3), [3], extra={'train': True, 'offset': 10.0, 'spread': 0.01, 'tol': 1e-4})
    add('ActNormTrainInit/3', lambda: T.ActNorm(3), [3], extra={'train': True, 'offset': -4.0, 'spread': 0.1, 'tol': 1e-4})
    add('OneByOneConvolution', lambda: T.OneByOneConvolution(3, identity_init=False), [3, 2, 2])
    def big(cls, f, scale, **kw):
        def build():
            t = cls(f, **kw)
            with torch.no_grad():
                if hasattr(t, '_weight'):
                    q, _ = torch.linalg.qr(torch.randn(f, f))
                    t._weight.copy_(scale * q)
                elif hasattr(t, 'unconstrained_upper_diag'):
                    t.unconstrained_upper_diag.fill_(float(scale if scale > 30 else np.log(np.expm1(scale))))
                elif hasattr(t, 'log_upper_diag'):
                    t.log_upper_diag.fill_(float(np.log(scale)))
                elif hasattr(t, 'unconstrained_diagonal'):
                    t.unconstrained_diagonal.fill_(float(scale if scale > 30 else np.log(np.expm1(scale))))
            return t
        return build
    # determinants far outside the floating-point range (|det| = scale^f): log|det| itself is moderate
    for scale in (1e-5, 3e4):
        add('NaiveLinearHuge/80/%g' % scale, big(T.NaiveLinear, 80, scale), [80], extra={'big': True, 'huge': True})
        add('LULinearHuge/80/%g' % scale, big(T.LULinear, 80, scale), [80], extra={'big': True, 'huge': True})
    for f in (80, 96):
        for scale in (0.25, 4.0):
            add('NaiveLinearBig/%d/%g' % (f, scale), big(T.NaiveLinear, f, scale), [f], extra={'big': True})
            add('LULinearBig/%d/%g' % (f, scale), big(T.LULinear, f, scale), [f], extra={'big': True})
            add('QRLinearBig/%d/%g' % (f, scale), big(T.QRLinear, f, scale, num_householder=4), [f], extra={'big': True})
            add('SVDLinearBig/%d/%g' % (f, scale), big(T.SVDLinear, f, scale, num_householder=4), [f], extra={'big': True})
    add('Squeeze2', lambda: T.SqueezeTransform(2), [1, 4, 2], extra={'inv_shape': [4, 2, 1]})
    add('Squeeze3', lambda: T.SqueezeTransform(3), [2, 3, 6], extra={'inv_shape': [18, 1, 2]})
    add('GLU', lambda: T.GatedLinearUnit(), [3], ctx=1)
    add('GLU/per-feature', lambda: T.GatedLinearUnit(), [3], ctx=3)       # one gate per feature
    add('Composite', lambda: T.CompositeTransform([T.LULinear(3, identity_init=False), T.Tanh(), T.ReversePermutation(3),
                                                   T.PointwiseAffineTransform(0.5, 2.0)]), [3])
    # usage patterns of the wrappers: parts given as a one-shot iterable; one instance listed more than once (weight tying)
    add('CompositeFromGenerator', lambda: T.CompositeTransform(t for t in [T.LULinear(3, identity_init=False), T.Tanh(), T.ReversePermutation(3),
                                                                           T.PointwiseAffineTransform(0.5, 2.0)]), [3])
    add('CompositeFromIterator', lambda: T.CompositeTransform(iter([T.LULinear(3, identity_init=False), T.LeakyReLU(), T.RandomPermutation(3)])), [3])
    def tied():
        a, l, p = T.PointwiseAffineTransform(0.25, 1.5), T.LULinear(3, identity_init=False), T.RandomPermutation(3)
        return T.CompositeTransform([l, a, p, l, a, p, T.LeakyReLU()])
    add('CompositeTiedParts', tied, [3])
    # integer-valued constructor arguments
    add('PointwiseAffine/int', lambda: T.PointwiseAffineTransform(shift=1, scale=2), [3])
    add('PointwiseAffine/int-tensor', lambda: T.PointwiseAffineTransform(shift=torch.tensor([1, 0, -2]), scale=torch.tensor([2, 3, -4])), [3])
    # autoregressive layers as black boxes (the transform-level model is fed the conditioner's outputs, so it cannot see a conditioner
    # that looks at the variable it transforms): one feature, two features, random masks
    add('MaskedAffineAR-blackbox/F1', lambda: T.MaskedAffineAutoregressiveTransform(1, 5, num_blocks=1), [1])
    add('MaskedAffineAR-blackbox/F1/ff', lambda: T.MaskedAffineAutoregressiveTransform(1, 5, num_blocks=2, use_residual_blocks=False), [1])
    add('MaskedRQAR-blackbox/F1', lambda: T.MaskedPiecewiseRationalQuadraticAutoregressiveTransform(1, 5, num_bins=3, num_blocks=1, tails='linear', tail_bound=3.0), [1])
    add('MaskedAffineAR-blackbox/F2', lambda: T.MaskedAffineAutoregressiveTransform(2, 5, num_blocks=1), [2])
    add('MaskedAffineAR-blackbox/F4/random', lambda: T.MaskedAffineAutoregressiveTransform(4, 9, num_blocks=2, use_residual_blocks=False, random_mask=True), [4])
    # wrappers around CONTEXT-dependent parts (both directions must hand the context on)
    add('InverseTransform/ctx-AR', lambda: T.InverseTransform(T.MaskedAffineAutoregressiveTransform(3, 6, context_features=2, num_blocks=1)), [3], ctx=2,
        extra={'no_inverse_oracle': False})
    add('InverseTransform/ctx-Composite', lambda: T.InverseTransform(T.CompositeTransform([
        T.MaskedAffineAutoregressiveTransform(3, 6, context_features=2, num_blocks=1), T.ReversePermutation(3),
        T.AffineCouplingTransform([1, 0, 1], R.net_fn('res', 2))])), [3], ctx=2)
    add('Composite/ctx', lambda: T.CompositeTransform([T.AffineCouplingTransform([1, 0, 1], R.net_fn('res', 2)), T.LULinear(3, identity_init=False),
                                                        T.MaskedAffineAutoregressiveTransform(3, 6, context_features=2, num_blocks=1)]), [3], ctx=2)
    # non-default stabilisers
    add('BatchNorm/eps0.2', lambda: _init_batchnorm(T.BatchNorm(3, eps=0.2), 3), [3])
    add('BatchNorm/eps0.2/fresh', lambda: T.BatchNorm(3, eps=0.2), [3], extra={'tol': 1e-4})
    add('LULinear/eps0.1', lambda: T.LULinear(3, identity_init=False, eps=0.1), [3])
    add('InverseTransform', lambda: T.InverseTransform(T.CompositeTransform([T.LULinear(3, identity_init=False), T.LeakyReLU()])), [3])
    add('CompositeCDF', lambda: T.CompositeCDFTransform(T.Sigmoid(), T.PiecewiseRationalQuadraticCDF([2], num_bins=3)), [2])

    def ms():
        m = T.MultiscaleCompositeTransform(num_transforms=2)
        h = m.add_transform(T.LULinear(4, identity_init=False), [4])
        m.add_transform(T.LULinear(2, identity_init=False), h)
        return m
    add('Multiscale', ms, [4])
    try:
        add('UMNNCoupling', lambda: T.UMNNCouplingTransform([1, 0, 1], R.net_fn('res'), integrand_net_layers=[10, 10], cond_size=4, nb_steps=30), [3],
            extra={'tol': 1e-3})
        add('UMNNAR', lambda: T.MaskedUMNNAutoregressiveTransform(3, 8, integrand_net_layers=[10, 10], cond_size=4, nb_steps=30, num_blocks=1), [3],
            extra={'tol': 1e-3})
    except Exception:
        pass
    return E


def _init_actnorm(t, shape):
    with torch.no_grad():
        t.log_scale.normal_(0, 0.5); t.shift.normal_()
        t.initialized.fill_(True)
    return t


def _init_batchnorm(t, f):
    with torch.no_grad():
        t.running_mean.normal_(); t.running_var.uniform_(0.5, 2.0); t.unconstrained_weight.normal_(); t.bias.normal_()
    return t


def all_entries(level):
    return R.entries(level) + extra_entries()


MODES = ('grad', 'no_grad', 'noncontiguous', 'reloaded', 'after_decoy')


def _mode_setup(mode, e, t, x, gen):
    """-> (transform, inputs) for a usage mode: 'reloaded' = a second instance built under another seed that loaded the first one's
    state dict (same function by C15, so every law must hold for it too); 'noncontiguous' = same values, dense non-contiguous layout"""
    if mode == 'reloaded':
        from .tcorr import build
        t2 = build(e, gen, x.dtype, 'fresh')
        if not list(t.state_dict()):
            return None, None
        t2.load_state_dict(t.state_dict())
        t2.train(t.training)
        return t2, x
    if mode == 'after_decoy':
        # another live instance of the same configuration, with other parameter values, is USED (both directions, evaluation mode)
        # before the tested one: state shared between instances (class-level caches, module-level memos keyed by shape) shows here
        from .tcorr import build
        d = build(e, gen, x.dtype, 'fresh')
        d.train(t.training)
        c = R.make_context(e, x.shape[0], gen, x.dtype)
        k, yd, _ = R.impl_call(d, x, c, False)
        _DECOY_N[0] += 1
        if k == 'ok' and _DECOY_N[0] % 2:
            R.impl_call(d, yd, c, True)      # every other time the decoy is used in one direction only
        _DECOYS.append(d)
        del _DECOYS[:-5]
        return t, x
    if mode == 'noncontiguous':
        from .tcorr import noncontiguous
        xn = noncontiguous(x)
        return (t, xn) if xn is not None else (None, None)
    return t, x


_DECOYS = []
_DECOY_N = [0]


def _call(mode, t, x, c, inverse):
    if mode == 'no_grad':
        with torch.no_grad():
            return R.impl_call(t, x, c, inverse)
    return R.impl_call(t, x, c, inverse)


def _jac_logdet(t, x_row, c_row):
    def f(a):
        y, _ = t(a[None], c_row[None]) if c_row is not None else t(a[None])
        return y[0].reshape(-1)
    J = torch.autograd.functional.jacobian(f, x_row)
    J = J.reshape(J.shape[0], -1)
    if J.shape[0] != J.shape[1]:
        return None
    return torch.slogdet(J)[1].item()


def jacobian_search(ctx, budget_s=300, entries=None, count=False):
    """C01 oracle: returned forward log-abs-det vs log|det| of the autograd Jacobian, row by row"""
    gen = torch.Generator().manual_seed(ctx.seed + 101)
    from .tcorr import build
    for e in (entries if entries is not None else all_entries('quick')):
        big = bool(e.extra.get('big'))
        if big and not (e.extra.get('huge') or e.name.endswith('/80/4') or e.name.endswith('/80/0.25')):
            continue
        for regime in (('fresh',) if big else (('normal', 'fresh') if e.spline else ('normal', 'fresh', 'extreme'))):
            try:
                t = build(e, gen, torch.float64, regime)
                if e.extra.get('warm_inverse'):
                    with torch.no_grad():
                        t.inverse(torch.randn(2, *e.in_shape, dtype=torch.float64))
                x0 = R.make_inputs(e, 2, gen, torch.float64, False)
                c = R.make_context(e, 2, gen, torch.float64)
                t0 = t
                for mode in (('grad',) if big else MODES):
                    t, x = _mode_setup(mode, e, t0, x0, gen)
                    if t is None:
                        continue
                    kind, y, ld = _call(mode, t, x, c, False)
                    if count:
                        ctx.case(key=('direct-jacobian', e.name, regime, mode), branch='direct-jacobian/' + mode, nontrivial=True, n=int(x.numel()))
                    msfx = {} if mode == 'grad' else {'mode': mode}
                    if kind != 'ok':
                        ctx.fail('forward raised %s on in-domain inputs%s' % (kind, '' if mode == 'grad' else ' (%s)' % mode), {'entry': e.name, 'regime': regime, 'mode': mode},
                                 match=dict({'class': e.name.split('/')[0], 'symptom': 'raises'}, **msfx))
                        continue
                    for i in range(1 if big else 2):
                        jl = _jac_logdet(t, x[i], c[i] if c is not None else None)
                        if jl is None or not math.isfinite(jl):
                            continue
                        tol = e.extra.get('tol', 1e-6) * (1 + abs(jl))
                        if abs(jl - ld[i].item()) > tol:
                            ctx.fail('forward log-abs-det %r but log|det Jacobian| = %r%s' % (ld[i].item(), jl, '' if mode == 'grad' else ' (%s)' % mode),
                                     {'entry': e.name, 'regime': regime, 'mode': mode, 'x': x[i].reshape(-1).tolist(),
                                      'context': c[i].reshape(-1).tolist() if c is not None else None},
                                     match=dict({'class': e.name.split('/')[0], 'symptom': 'logdet!=jacobian'}, **msfx))
                            break
            except Exception as ex:
                ctx.notes.append('jacobian oracle on %s raised %r' % (e.name, ex))
        if len(ctx.failing) >= 8 or ctx.elapsed() > budget_s:
            break
    if entries is not None:
        return
    # exported spline functions on non-default boxes
    for fam in S.FAMS:
        for box in ((0.0, 1.0, 0.0, 2.0), (-1.5, 2.0, 0.25, 4.0)):
            params = S.make_params(fam, 6, 4, False, 'normal', torch.float64, gen)
            x = (box[0] + (box[1] - box[0]) * torch.rand(6, dtype=torch.float64, generator=gen)).requires_grad_()
            kind, y, ld = S.impl_call(fam, x, params, False, False, box, None)
            if kind != 'ok':
                continue
            g, = torch.autograd.grad(y.sum(), x)
            d = (g.log() - ld).abs().max().item()
            if d > 1e-6:
                ctx.fail('%s_spline(box=%s): log-abs-det differs from log dy/dx by %.3g' % (fam, box, d),
                         {'fn': fam + '_spline', 'box': box}, match={'fn': fam + '_spline', 'symptom': 'box-logdet'})


def roundtrip_search(ctx, budget_s=300, entries=None, count=False):
    """C02 oracle: inverse(forward(x)) = x, forward(inverse(y)) = y, negated log-dets, finiteness"""
    gen = torch.Generator().manual_seed(ctx.seed + 202)
    from .tcorr import build
    for e in (entries if entries is not None else all_entries('quick')):
        if e.extra.get('big'):
            continue
        for regime in ('zeros', 'normal', 'fresh'):
            try:
                t = build(e, gen, torch.float64, regime)
                if e.extra.get('warm_inverse'):
                    with torch.no_grad():
                        t.inverse(torch.randn(2, *e.in_shape, dtype=torch.float64))
                x0 = R.make_inputs(e, 3, gen, torch.float64, False)
                c = R.make_context(e, 3, gen, torch.float64)
                t0 = t
                for mode in MODES:
                    t, x = _mode_setup(mode, e, t0, x0, gen)
                    if t is None:
                        continue
                    msfx = {} if mode == 'grad' else {'mode': mode}
                    kind, y, ld = _call(mode, t, x, c, False)
                    if kind != 'ok':
                        continue
                    if count:
                        ctx.case(key=('direct-roundtrip', e.name, regime, mode), branch='direct-roundtrip/' + mode, nontrivial=True, n=int(x.numel()))
                    k2, xi, ldi = _call(mode, t, y, c, True)
                    cls = e.name.split('/')[0]
                    case = {'entry': e.name, 'regime': regime, 'mode': mode, 'x': x.reshape(-1).tolist()[:16]}
                    if k2 != 'ok':
                        ctx.fail('inverse raised %s on forward outputs' % k2, case, match={'class': cls, 'symptom': 'inverse-raises', 'regime': regime, **msfx}); continue
                    if not (torch.isfinite(xi).all() and torch.isfinite(ldi).all() and torch.isfinite(y).all() and torch.isfinite(ld).all()):
                        ctx.fail('non-finite value returned', case, match={'class': cls, 'symptom': 'non-finite', 'regime': regime, **msfx}); continue
                    # conditioning-scaled tolerance: exp(|ld|) per row + the declared constants
                    kap = torch.exp(ld.abs().clamp(max=30)).reshape(-1, *([1] * (x.dim() - 1)))
                    tol = e.extra.get('tol', 1e-6) * (1 + x.abs()) * kap + _declared(e)
                    if ((xi - x).abs() > tol).any():
                        ctx.fail('inverse(forward(x)) differs from x by %.3g' % (xi - x).abs().max().item(), case,
                                 match={'class': cls, 'symptom': 'roundtrip', 'regime': regime, **msfx}); continue
                    # the property: the log-abs-det returned by inverse at y is the negative of the one forward returns AT inverse(y)
                    k3, y2, ld2 = _call(mode, t, xi, c, False)
                    if k3 != 'ok':
                        ctx.fail('forward raised %s at inverse(y)' % k3, case, match={'class': cls, 'symptom': 'forward-raises', 'regime': regime, **msfx}); continue
                    if ((ld2 + ldi).abs() > 1e-5 * (1 + ld2.abs()) * kap.reshape(-1) + 10 * _declared(e)).any():
                        ctx.fail('inverse log-abs-det is not the negated forward one (%.3g)' % (ld2 + ldi).abs().max().item(), case,
                                 match={'class': cls, 'symptom': 'ld-not-negated', 'regime': regime, **msfx}); continue
                    if ((y2 - y).abs() > tol.reshape(y.shape) if tol.shape == y.shape else ((y2 - y).abs() > 1e-6 * (1 + y.abs()).max() * kap.max() + _declared(e))).any():
                        ctx.fail('forward(inverse(y)) differs from y by %.3g' % (y2 - y).abs().max().item(), case,
                                 match={'class': cls, 'symptom': 'roundtrip-fi', 'regime': regime, **msfx})
            except Exception as ex:
                ctx.notes.append('roundtrip oracle on %s raised %r' % (e.name, ex))
        if len(ctx.failing) >= 8 or ctx.elapsed() > budget_s:
            break
    if entries is None:
        knot_consistency(ctx, gen, count)


def knot_consistency(ctx, gen, count=False):
    """the linear spline is the one family whose derivative JUMPS at a knot: at an input exactly on an interior knot the two directions
    must use the same side.  Dyadic knots (K a power of two, unit box), so that forward(knot) is
    exactly the cdf knot in both precisions; the claim checked is the property's own: inverse log-det at y = -(forward log-det at
    inverse(y)) wherever inverse(y) is bit for bit the knot, and inverse(forward(x)) = x."""
    for dtype in (torch.float64, torch.float32):
        for K in (2, 4, 8):
            for tails, B in ((False, None),):       # a rescaled box rounds y before the bin search: the side is rounding there
                for regime in ('normal', 'wide'):
                    n = K - 1
                    params = S.make_params('lin', n, K, tails, regime, dtype, gen)
                    lo, hi = (-B, B) if tails else (0.0, 1.0)
                    x = torch.tensor([lo + (hi - lo) * k / K for k in range(1, K)], dtype=dtype)
                    box = None if tails else (0.0, 1.0, 0.0, 1.0)
                    k1, y, ld = S.impl_call('lin', x, params, False, tails, box, B)
                    if k1 != 'ok':
                        continue
                    k2, xi, ldi = S.impl_call('lin', y, params, True, tails, box, B)
                    if k2 != 'ok':
                        continue
                    k3, y2, ld2 = S.impl_call('lin', xi, params, False, tails, box, B)
                    if count:
                        ctx.case(key=('knot-consistency', K, tails, B, regime, str(dtype)), branch='direct-roundtrip/knot', nontrivial=True, n=n)
                    if k3 != 'ok':
                        continue
                    tol = (1e-4 if dtype == torch.float32 else 1e-9)
                    case = {'family': 'lin', 'K': K, 'tails': tails, 'tail_bound': B, 'dtype': str(dtype), 'x': x.tolist(),
                            'params': [p.tolist() for p in params], 'ld_inverse': ldi.tolist(), 'ld_forward_at_inverse': ld2.tolist()}
                    # only where inverse(y) IS the knot, bit for bit: one ulp to its left the forward derivative legitimately is the other
                    # slope (the map has no derivative at a knot; which side a perturbed point falls on is rounding, not a defect)
                    exact = (xi == x)
                    if bool((((ld2 + ldi).abs() > tol * (1 + ld2.abs())) & exact).any()):
                        ctx.fail('linear spline at an interior knot: the inverse log-abs-det is not the negated forward one at inverse(y) (%.3g): the two '
                                 'directions use different sides of the knot' % (ld2 + ldi).abs().max().item(), case,
                                 match={'class': 'linear_spline', 'symptom': 'knot-side'})
                    elif bool(((xi - x).abs() > 64 * tol * (1 + x.abs()) * torch.exp(ld.abs().clamp(max=30))).any()):
                        ctx.fail('linear spline at an interior knot: inverse(forward(x)) differs from x by %.3g' % (xi - x).abs().max().item(), case,
                                 match={'class': 'linear_spline', 'symptom': 'knot-roundtrip'})


def _declared(e):
    """declared approximation constants of the implementation"""
    if e.spline.get('fam') == 'cubic':
        return 1e-4
    if 'Sigmoid' in e.name or 'Logit' in e.name or 'CompositeCDF' in e.name:
        return 1e-3
    if 'UMNN' in e.name:
        return 1e-3
    return 0.0


# ---- replays of listed findings (witness inputs) -----------------------------------------------------------------
def _F1(fam):
    def run():
        box = (0.0, 1.0, 0.0, 2.0)
        gen = torch.Generator().manual_seed(5)
        params = S.make_params(fam, 5, 3, False, 'normal', torch.float64, gen)
        x = torch.rand(5, dtype=torch.float64, generator=gen).requires_grad_()
        kind, y, ld = S.impl_call(fam, x, params, False, False, box, None)
        if kind != 'ok':
            return True
        g, = torch.autograd.grad(y.sum(), x)
        return bool((g.log() - ld).abs().max() > 1e-6)
    return run


def _F2():
    z = [torch.zeros(4, 3, dtype=torch.float64), torch.zeros(4, 4, dtype=torch.float64)]
    kind, y, ld = S.impl_call('quad', torch.tensor([0.1, 0.4, 0.6, 0.9], dtype=torch.float64), z, True, False, (0., 1., 0., 1.), None)
    return kind != 'ok' or not bool(torch.isfinite(y).all())


def _F3():
    z = [torch.zeros(4, 3, dtype=torch.float64), torch.zeros(4, 3, dtype=torch.float64), torch.zeros(4, 1, dtype=torch.float64), torch.zeros(4, 1, dtype=torch.float64)]
    kind, y, ld = S.impl_call('cubic', torch.tensor([0.1, 0.4, 0.6, 0.9], dtype=torch.float64), z, True, False, (0., 1., 0., 1.), None)
    return kind != 'ok' or not bool(torch.isfinite(y).all())


def _F4():
    import nflows.transforms as T
    t = T.SqueezeTransform(3)
    x = torch.randn(2, 2, 3, 6)
    try:
        y, _ = t(x); xi, _ = t.inverse(y)
        return not torch.equal(xi, x)
    except Exception:
        return True


def _F6():
    import nflows.transforms as T
    t = T.GatedLinearUnit()
    x = torch.randn(2, 3, dtype=torch.float64); c = torch.randn(2, 1, dtype=torch.float64)
    try:
        y, ld = t(x, c)
        jl = _jac_logdet(t, x[0], c[0])
        return ld.shape != (2,) or abs(jl - ld[0].item()) > 1e-8
    except Exception:
        return True


def _F9():
    x = torch.tensor([100., -100., 3.], dtype=torch.float32)
    p = [torch.zeros(3, 4), torch.zeros(3, 4), torch.zeros(3, 3)]
    kind, y, ld = S.impl_call('rq', x, p, False, True, None, 100.0)
    return kind != 'ok' or not bool(torch.isfinite(y).all())


def _F12():
    from nflows.utils import torchutils
    loc = torch.linspace(0, 1, 5)[None, :].clone()
    before = loc.clone()
    torchutils.searchsorted(loc, torch.tensor([0.3]))
    return not torch.equal(loc, before)


def _F13():
    import nflows.transforms as T
    t = T.LeakyReLU()
    x = -torch.ones(2, 3, dtype=torch.float64)
    ld = t(x)[1]
    return ld.dtype != torch.float64 or abs(ld[0].item() - 3 * math.log(t.negative_slope)) > 1e-12


def _F16():
    kind, y, ld = S.impl_call('rq', torch.tensor([1.5], dtype=torch.float64),
                              [torch.zeros(1, 3, dtype=torch.float64)] * 2 + [torch.zeros(1, 4, dtype=torch.float64)], True, False, (0., 1., 0., 2.), None)
    k2, _, _ = S.impl_call('rq', torch.tensor([2.5], dtype=torch.float64),
                           [torch.zeros(1, 3, dtype=torch.float64)] * 2 + [torch.zeros(1, 4, dtype=torch.float64)], True, False, (0., 3., 0., 2.), None)
    return kind != 'ok' or k2 != 'InputOutsideDomain'


def _F17():
    gen = torch.Generator().manual_seed(0)
    x = torch.rand(50, dtype=torch.float64, generator=gen); p = [torch.randn(50, 10, dtype=torch.float64, generator=gen)]
    kind, y, ld = S.impl_call('lin', x, p, False, False, (0., 1., 0., 1.), None)
    k2, xi, ldi = S.impl_call('lin', y, p, True, False, (0., 1., 0., 1.), None)
    return k2 != 'ok' or bool((xi - x).abs().max() > 1e-12)


def _F24():
    from nflows.transforms.splines import cubic
    p = torch.tensor([-4.299658298492432, 9.492609977722168, 7.090306282043457, 11.4033784866333, -2.6588692665100098,
                      3.665842056274414, 0.12750910222530365, -7.90150260925293])
    K = 3
    uw = (p[:K] / math.sqrt(8))[None]; uh = (p[K:2 * K] / math.sqrt(8))[None]; dl = p[2 * K][None, None]; dr = p[2 * K + 1][None, None]
    y = torch.tensor([2.5])
    x32, l32 = cubic.unconstrained_cubic_spline(y, uw, uh, dl, dr, inverse=True, tail_bound=2.5)
    x64, l64 = cubic.unconstrained_cubic_spline(y.double(), uw.double(), uh.double(), dl.double(), dr.double(), inverse=True, tail_bound=2.5)
    return not (torch.isfinite(l32).all() and abs(x32.item() - x64.item()) < 1e-2)


def _F25():
    from nflows.transforms.splines import cubic
    d = torch.float64
    P = [torch.tensor([[-2.042648389142907, 2.1556574189043207, -2.501295435517151]], dtype=d), torch.tensor([[-2.7315940063331006, -2.219553617055479, 6.522554196539569]], dtype=d),
         torch.tensor([[3.8766771142191283]], dtype=d), torch.tensor([[5.952021889416101]], dtype=d)]
    x = torch.tensor([0.2792710028362954], dtype=d, requires_grad=True)
    ps = [p.clone().requires_grad_(True) for p in P]
    y, ld = cubic.unconstrained_cubic_spline(x, *ps, inverse=True, tail_bound=2.0)
    if not (torch.isfinite(y).all() and torch.isfinite(ld).all()):
        return True
    g = torch.autograd.grad(y.sum() + ld.sum(), [x] + ps, allow_unused=True)
    return any(t is not None and not torch.isfinite(t).all() for t in g)


def _F26():
    """cubic inverse at the upper end of the box with a bin whose right-end derivative is ~1e-13: NaN before c64b8d4"""
    from nflows.transforms.splines import cubic
    d = torch.float64
    uw = torch.tensor([[4.48458777751344, -5.585793871578711, 13.891890674159548]], dtype=d)
    uh = torch.tensor([[11.549948023183198, 6.283586693125125, 2.8481076635106293]], dtype=d)
    dl = torch.tensor([[11.775860094804058]], dtype=d); dr = torch.tensor([[-22.619951080641542]], dtype=d)
    for yv in (2.0, math.nextafter(2.0, 0.0)):
        x, ld = cubic.unconstrained_cubic_spline(torch.tensor([yv], dtype=d), uw, uh, dl, dr, inverse=True, tail_bound=2.0,
                                                 min_bin_width=1e-3, min_bin_height=1e-3)
        if not (torch.isfinite(x).all() and torch.isfinite(ld).all() and abs(x.item() - 2.0) < 1e-6):
            return True
    return False


def _F27():
    """quadratic spline with linear tails and ONE bin: the constructor accepts it, every call raises IndexError"""
    import nflows.transforms as T
    try:
        t = T.PiecewiseQuadraticCDF(shape=[2], num_bins=1, tails='linear', tail_bound=1.0)
    except Exception:
        return False          # rejected at construction: no longer "accepted and then failing"
    try:
        y, ld = t(torch.zeros(3, 2))
        return not bool(torch.isfinite(y).all() and torch.isfinite(ld).all())
    except IndexError:
        return True
    except Exception:
        return True


def _F28():
    """Tanh.forward log-abs-det in float32 at x = 9: -inf before 1d63aad (true value -16.6)"""
    import nflows.transforms as T
    for dt, xs in ((torch.float32, [9.0, 17.0, -17.0]), (torch.float64, [19.5, 30.0, -25.0])):
        x = torch.tensor([xs], dtype=dt)
        y, ld = T.Tanh()(x)
        want = sum(2 * (math.log(2.0) - abs(v) - math.log1p(math.exp(-2 * abs(v)))) for v in xs)
        if not torch.isfinite(ld).all() or abs(ld.item() - want) > 1e-4 * abs(want):
            return True
    return False


def _F29():
    """UMNN integrand activation: elu(x) + 1 = 0 exactly for x < -37 before the fix (true value exp(x))"""
    import importlib
    M = importlib.import_module('nflows.transforms.UMNN.MonotonicNormalizer')
    v = M.ELUPlus()(torch.tensor([-40.0, -112.0, -700.0, 0.0, 2.5], dtype=torch.float64))
    want = torch.tensor([math.exp(-40.0), math.exp(-112.0), math.exp(-700.0), 1.0, 3.5], dtype=torch.float64)
    return not bool(((v - want).abs() <= 1e-12 * want).all())


def _F30():
    """linear spline inverse in float32 at the upper end of the interval with a last bin of mass ~1e-8: NaN / inf before c321ed1"""
    from nflows.transforms.splines import linear
    p = torch.tensor([[0.0, 1.0, -0.5, -18.5]])
    x, ld = linear.linear_spline(torch.tensor([1.0]), p, inverse=True)
    y, ldf = linear.linear_spline(torch.tensor([1.0]), p, inverse=False)
    return not (torch.isfinite(x).all() and torch.isfinite(ld).all() and abs(x.item() - 1.0) < 1e-6 and abs(ld.item() + ldf.item()) < 1e-4)


def _F31():
    import nflows.transforms as T
    t = T.PointwiseAffineTransform(shift=1, scale=2).double()
    x = torch.tensor([[0.5, -1.25, 3.0]], dtype=torch.float64)
    y, ld = t(x)
    return not (y.dtype == torch.float64 and ld.dtype == torch.float64 and abs(ld.item() - 3 * math.log(2.0)) < 1e-14)


def _F32():
    from nflows.transforms.splines.cubic import cubic_spline
    g = torch.Generator().manual_seed(1)
    uw = torch.randn(1, 3, generator=g); uh = torch.randn(1, 3, generator=g)
    y, ld = cubic_spline(torch.tensor([1.0]), uw, uh, torch.zeros(1, 1), torch.full((1, 1), -17.0))
    return not (torch.isfinite(y).all() and torch.isfinite(ld).all())


REPLAYS = {'F32': _F32, 'F31': _F31, 'F24': _F24, 'F25': _F25, 'F26': _F26, 'F27': _F27, 'F28': _F28, 'F29': _F29, 'F30': _F30, 'F1-linear': _F1('lin'), 'F1-quadratic': _F1('quad'), 'F1-cubic': _F1('cubic'), 'F2': _F2, 'F3': _F3, 'F4': _F4,
           'F6': _F6, 'F9': _F9, 'F12': _F12, 'F13': _F13, 'F16': _F16, 'F17': _F17}


def replay_transform_finding(ctx, f):
    fn = REPLAYS.get(f.get('id'))
    if fn is None:
        return None
    return bool(fn())


def direct_on_extras(ctx, prop, fn, **kw):
    """classes the transform-level model does not cover: run the property's own check on them as part of the
    correspondence stage; failing inputs that are not listed known findings count as disagreements"""
    before = len(ctx.failing)
    fn(ctx, entries=extra_entries(), count=True, **kw)
    for f in ctx.failing[before:]:
        if not ctx.is_known(f.get('match', {})):
            ctx.disagree(prop + '/direct', f['case'], f['what'], 'property holds', f['what'])
