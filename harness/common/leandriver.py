"""Run the Lean model driver (line protocol, one JSON object per line)."""
import json, os, subprocess, sys

VERIF = os.path.dirname(os.path.dirname(os.path.dirname(os.path.abspath(__file__))))
LEAN_DIR = os.path.join(VERIF, 'lean')
EXE = os.path.join(LEAN_DIR, '.lake', 'build', 'bin', 'driver')


class DriverError(RuntimeError):
    pass


def driver_cmd():
    if os.path.exists(EXE):
        return [EXE]
    return ['lake', 'env', 'lean', '--run', 'Main.lean']


def call(reqs, timeout=3600):
    """Send a list of request dicts, return the list of response dicts (same order)."""
    if not reqs:
        return []
    data = '\n'.join(json.dumps(r, separators=(',', ':')) for r in reqs) + '\n'
    p = subprocess.run(driver_cmd(), input=data.encode(), stdout=subprocess.PIPE, stderr=subprocess.PIPE,
                       cwd=LEAN_DIR, timeout=timeout)
    if p.returncode != 0:
        raise DriverError('driver exited %d: %s' % (p.returncode, p.stderr.decode()[-2000:]))
    lines = p.stdout.decode().splitlines()
    if len(lines) != len(reqs):
        raise DriverError('driver returned %d lines for %d requests; stderr=%s' % (len(lines), len(reqs), p.stderr.decode()[-2000:]))
    return [json.loads(l) for l in lines]
