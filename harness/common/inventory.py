"""State inventory of a module tree (translator for C15).

`walk(module)` lists every value-carrying thing reachable from the module tree:
  * parameters (`named_parameters`), buffers (`named_buffers`, persistent or not via `_non_persistent_buffers_set`);
  * every other tensor / ndarray / number / bool / string / None / callable in each submodule's `__dict__`, recursing into
    tuples, lists, dicts, `torch.Size` and into plain helper objects defined by the library (e.g. `LinearCache`).
The `training` flag and the `using_cache` flag of the linear transforms are not listed: they are mode switches set by the
user after construction (`train()/eval()`, `use_cache()`); the comparison puts both instances into the same mode.
Each entry has a path, a kind code (0 param, 1 persistent buffer, 2 non-persistent buffer, 3 plain, 4 alias of a persisted
tensor = a plain attribute sharing its storage), and a digest of its value (dtype + shape + bytes).
"""
import hashlib
import numpy as np
import torch
from torch import nn

PARAM, BUF_P, BUF_NP, PLAIN, ALIAS = 0, 1, 2, 3, 4
KIND_NAMES = {PARAM: 'param', BUF_P: 'bufPersistent', BUF_NP: 'bufNonPersistent', PLAIN: 'plain', ALIAS: 'aliasOfPersisted'}
SKIP_ATTRS = {'_parameters', '_buffers', '_modules', '_non_persistent_buffers_set', 'training', 'using_cache', '_backward_hooks',
              '_backward_pre_hooks', '_forward_hooks', '_forward_hooks_with_kwargs', '_forward_hooks_always_called',
              '_forward_pre_hooks', '_forward_pre_hooks_with_kwargs', '_state_dict_hooks', '_state_dict_pre_hooks',
              '_load_state_dict_pre_hooks', '_load_state_dict_post_hooks', '_is_full_backward_hook', '_compiled_call_impl',
              '_version'}


def _sptr(t):
    try:
        st = t.untyped_storage()
        return st.data_ptr() if st.nbytes() else None
    except Exception:
        return None


def tdigest(t):
    t = t.detach()
    meta = ('T', str(t.dtype), tuple(t.shape))
    if t.dtype == torch.bool:
        t = t.to(torch.uint8)
    return hashlib.sha1(repr(meta).encode() + t.contiguous().cpu().numpy().tobytes()).hexdigest()[:16]


def vdigest(v):
    if isinstance(v, torch.Tensor):
        return tdigest(v)
    if isinstance(v, np.ndarray):
        return hashlib.sha1(repr(('N', str(v.dtype), v.shape)).encode() + np.ascontiguousarray(v).tobytes()).hexdigest()[:16]
    if callable(v) and not isinstance(v, (int, float, bool)):
        return 'fn:' + getattr(v, '__module__', '?') + '.' + getattr(v, '__qualname__', type(v).__name__)
    return 'v:' + repr(v)


class Entry:
    __slots__ = ('path', 'kind', 'digest', 'owner', 'attr', 'is_tensor')

    def __init__(self, path, kind, digest, owner=None, attr=None, is_tensor=False):
        self.path, self.kind, self.digest, self.owner, self.attr, self.is_tensor = path, kind, digest, owner, attr, is_tensor


def _walk_value(path, v, out, persisted_ptrs, owner, attr, depth=0):
    if isinstance(v, nn.Module):
        # a module that sits in __dict__ (or in a plain list / dict) is NOT registered: nothing of it travels
        if depth >= 4:
            return
        out.append(Entry(path + '#unregistered-module', PLAIN, 'cls:' + type(v).__module__ + '.' + type(v).__qualname__, owner, attr))
        for n, p in v.named_parameters(remove_duplicate=False):
            out.append(Entry('%s.P:%s' % (path, n), PLAIN, tdigest(p), owner, attr, True))
        for n, b in v.named_buffers(remove_duplicate=False):
            out.append(Entry('%s.B:%s' % (path, n), PLAIN, tdigest(b), owner, attr, True))
        return
    if isinstance(v, torch.Tensor):
        p = _sptr(v)
        kind = ALIAS if (p is not None and p in persisted_ptrs) else PLAIN
        out.append(Entry(path, kind, tdigest(v), owner, attr, True))
    elif isinstance(v, np.ndarray) or v is None or isinstance(v, (bool, int, float, complex, str, bytes, np.generic)):
        out.append(Entry(path, PLAIN, vdigest(v), owner, attr))
    elif isinstance(v, (tuple, list)) and depth < 4:          # includes torch.Size
        out.append(Entry(path + '#len', PLAIN, 'v:%d' % len(v), owner, attr))
        for i, x in enumerate(v):
            _walk_value('%s[%d]' % (path, i), x, out, persisted_ptrs, owner, attr, depth + 1)
    elif isinstance(v, dict) and depth < 4:
        for k in sorted(v, key=repr):
            _walk_value('%s[%r]' % (path, k), v[k], out, persisted_ptrs, owner, attr, depth + 1)
    elif callable(v):
        out.append(Entry(path, PLAIN, vdigest(v), owner, attr))
    elif hasattr(v, '__dict__') and type(v).__module__.split('.')[0] in ('nflows', 'UMNN') and depth < 3:
        for k in sorted(vars(v)):
            _walk_value('%s.%s' % (path, k), vars(v)[k], out, persisted_ptrs, v, k, depth + 1)
    else:
        out.append(Entry(path, PLAIN, 'obj:' + type(v).__module__ + '.' + type(v).__qualname__, owner, attr))


def walk(module):
    """-> list of Entry in a deterministic order"""
    out = []
    persisted_ptrs = set()
    mods = dict(module.named_modules(remove_duplicate=False))
    for n, p in module.named_parameters(remove_duplicate=False):
        out.append(Entry('P:' + n, PARAM, tdigest(p), None, n, True))
        persisted_ptrs.add(_sptr(p))
    for n, b in module.named_buffers(remove_duplicate=False):
        owner_name, _, leaf = n.rpartition('.')
        owner = mods.get(owner_name, module)
        nonp = leaf in getattr(owner, '_non_persistent_buffers_set', set())
        out.append(Entry('B:' + n, BUF_NP if nonp else BUF_P, tdigest(b), owner, leaf, True))
        if not nonp:
            persisted_ptrs.add(_sptr(b))
    persisted_ptrs.discard(None)
    for prefix, m in module.named_modules(remove_duplicate=False):
        out.append(Entry('C:' + prefix + '#class', PLAIN, 'cls:' + type(m).__module__ + '.' + type(m).__qualname__, m, None))
        for k in sorted(vars(m)):
            if k in SKIP_ATTRS:
                continue
            _walk_value('A:' + (prefix + '.' if prefix else '') + k, vars(m)[k], out, persisted_ptrs, m, k)
    return out


def digests(module):
    return {e.path: e.digest for e in walk(module)}
