"""Spline cases: call the implementation, build the matching model request, compare.

Everything the theorems quantify over is read from the code at run time (defaults by introspection)."""
import inspect, math
import torch
from . import bits

FAMS = ('rq', 'quad', 'lin', 'cubic')


def _fns():
    from nflows.transforms.splines import (rational_quadratic, quadratic, linear, cubic)
    return {
        'rq': (rational_quadratic.rational_quadratic_spline, rational_quadratic.unconstrained_rational_quadratic_spline),
        'quad': (quadratic.quadratic_spline, quadratic.unconstrained_quadratic_spline),
        'lin': (linear.linear_spline, linear.unconstrained_linear_spline),
        'cubic': (cubic.cubic_spline, cubic.unconstrained_cubic_spline),
    }


def defaults(fam, tails):
    """default keyword values of the exported spline function, read from its signature"""
    f = _fns()[fam][1 if tails else 0]
    return {k: v.default for k, v in inspect.signature(f).parameters.items() if v.default is not inspect._empty}


def searchsorted_eps():
    from nflows.utils import torchutils
    return inspect.signature(torchutils.searchsorted).parameters['eps'].default


def side_conditions(fam, tails, K, cfg):
    """decidable hypotheses of the C09/C01 theorems, checked on the values read from the code"""
    ok = True
    if fam != 'lin':
        ok &= 0 <= cfg.get('min_bin_width', 0) and cfg.get('min_bin_width', 0) * K <= 1
        ok &= 0 <= cfg.get('min_bin_height', 0) and cfg.get('min_bin_height', 0) * K <= 1
    if fam == 'rq':
        ok &= 0 < cfg.get('min_derivative', 1e-3) < 1
    ok &= searchsorted_eps() > 0
    return bool(ok)


def param_shapes(fam, K, tails):
    if fam == 'rq':
        return [K, K, K - 1 if tails else K + 1]
    if fam == 'quad':
        return [K, K - 1 if tails else K + 1]
    if fam == 'lin':
        return [K]
    return [K, K, 1, 1]


PARAM_NAMES = {
    'rq': ['unnormalized_widths', 'unnormalized_heights', 'unnormalized_derivatives'],
    'quad': ['unnormalized_widths', 'unnormalized_heights'],
    'lin': ['unnormalized_pdf'],
    'cubic': ['unnormalized_widths', 'unnormalized_heights', 'unnorm_derivatives_left', 'unnorm_derivatives_right'],
}


def make_params(fam, n, K, tails, regime, dtype, gen):
    """parameter regimes: zeros, N(0,1), N(0,3^2), one-hot +-10, equal rows"""
    out = []
    for m in param_shapes(fam, K, tails):
        if regime == 'zeros':
            p = torch.zeros(n, m, dtype=dtype)
        elif regime == 'normal':
            p = torch.randn(n, m, dtype=dtype, generator=gen)
        elif regime == 'wide':
            p = 3 * torch.randn(n, m, dtype=dtype, generator=gen)
        elif regime == 'onehot':
            p = torch.zeros(n, m, dtype=dtype)
            if m > 0:
                idx = torch.randint(0, m, (n,), generator=gen)
                sgn = (torch.randint(0, 2, (n,), generator=gen) * 2 - 1).to(dtype)
                p[torch.arange(n), idx] = 10 * sgn
        elif regime == 'steep':
            # legitimate but uncommon: the LAST parameter group (knot derivatives for rq) holds values in the hundreds and thousands,
            # where softplus is the identity and a hand-written log(1 + exp(.)) overflows; the other groups are N(0, 1)
            p = torch.randn(n, m, dtype=dtype, generator=gen)
            if m > 0 and fam == 'rq' and len(out) == 2:
                vals = torch.tensor([1500.0, -40.0, 900.0, 3.0, 2500.0, -0.5, 130.0, 700.0], dtype=dtype)
                p = vals[(torch.arange(n)[:, None] * 3 + torch.arange(m)[None, :]) % 8] + 0.1 * p
        else:
            raise ValueError(regime)
        out.append(p)
    return out


def impl_call(fam, x, params, inverse, tails, box=None, tail_bound=None, extra=None):
    """returns ('ok', y, ld) or (kind, None, None) with kind the canonical exception name"""
    fn = _fns()[fam][1 if tails else 0]
    kw = dict(zip(PARAM_NAMES[fam], [p.clone() for p in params]))
    kw['inverse'] = inverse
    if tails:
        kw['tail_bound'] = tail_bound
    else:
        kw.update(left=box[0], right=box[1], bottom=box[2], top=box[3])
    if extra:
        kw.update(extra)
    try:
        y, ld = fn(x.clone(), **kw)
        return 'ok', y, ld
    except Exception as e:
        return exc_kind(e), None, None


def exc_kind(e):
    n = type(e).__name__
    if n in ('InputOutsideDomain', 'ValueError', 'TypeError', 'IndexError', 'AssertionError', 'RuntimeError',
             'InverseNotAvailable', 'NotImplementedError', 'AttributeError'):
        return n
    return 'other:' + n


def model_req(fam, x, params, inverse, tails, box=None, tail_bound=None, cfg=None):
    """line-protocol request for `spline`; cfg values are the code's own defaults unless overridden"""
    prec = 'f32' if x.dtype == torch.float32 else 'f64'
    d = defaults(fam, tails)
    if cfg:
        d.update(cfg)
    K = params[0].shape[-1]
    if fam == 'rq':
        beta = 1.0
        if d.get('enable_identity_init'):
            beta = math.log(2) / (1 - d['min_derivative'])
        tailv = [d['min_bin_width'], d['min_bin_height'], d['min_derivative'], beta]
    elif fam == 'quad':
        tailv = [d['min_bin_width'], d['min_bin_height']]
    elif fam == 'lin':
        tailv = []
    else:
        tailv = [d['min_bin_width'], d['min_bin_height'], d['eps'], d['quadratic_threshold']]
    dd = ([tail_bound] if tails else list(box)) + tailv
    return {'op': 'spline', 'p': prec, 'i': [int(inverse), int(tails), K], 's': [fam],
            'f': [bits.tensor_bits(x)] + [bits.tensor_bits(p) for p in params],
            'd': [bits.f64_bits(v) for v in dd]}


def model_result(resp, prec):
    """-> outputs, logabsdets, errs (list of '' or kind), alternatives (list of lists)"""
    y = bits.dec(resp['f'][0], prec)
    ld = bits.dec(resp['f'][1], prec)
    alts = [bits.dec(a, prec) for a in resp['f'][2:]]
    return y, ld, resp['s'], alts


def knots_x(fam, params, tails, box=None, tail_bound=None):
    """independent torch recomputation of the input-side knots, shape [n, K+1]"""
    K = params[0].shape[-1]
    lo, hi = (-tail_bound, tail_bound) if tails else (box[0], box[1])
    if fam == 'lin':
        k = torch.linspace(0, 1, K + 1, dtype=params[0].dtype).expand(params[0].shape[0], K + 1)
    else:
        d = defaults(fam, tails)
        m = d['min_bin_width']
        w = m + (1 - m * K) * torch.softmax(params[0], -1)
        k = torch.cat([torch.zeros_like(w[:, :1]), torch.cumsum(w, -1)], -1)
        k[:, -1] = 1.0
    return lo + (hi - lo) * k
