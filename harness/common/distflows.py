"""Registry of cheaply constructible Distribution / Flow configurations shared by the C18 and C04 checks.

Every entry knows how to build the object from /repo's own constructors, which raw context width it takes,
and how the Lean model describes it (the `cls` JSON of the `c18` driver op)."""
import math
import torch
from torch import nn

from nflows.distributions.normal import StandardNormal, ConditionalDiagonalNormal, DiagonalNormal
from nflows.distributions.discrete import ConditionalIndependentBernoulli
from nflows.distributions.mixture import MADEMoG
from nflows.flows.base import Flow
from nflows.flows.realnvp import SimpleRealNVP
from nflows.flows.autoregressive import MaskedAutoregressiveFlow
from nflows.transforms.autoregressive import MaskedAffineAutoregressiveTransform
from nflows.transforms.base import Transform, CompositeTransform
from nflows.transforms.coupling import AffineCouplingTransform
from nflows.transforms.linear import NaiveLinear
from nflows.nn import nets


def prod(shape):
    return int(math.prod(shape))


class CtxAffine(Transform):
    """Context-dependent element-wise affine map for ANY event shape: y = x * exp(s(c)) + t(c), (s, t) = lin(c)
    per row.  A stand-in for 'some transform whose parameters depend on the context row' where nflows has no
    ready-made one for multi-dimensional events."""

    def __init__(self, context_features):
        super().__init__()
        self.lin = nn.Linear(context_features, 2)

    def _params(self, x, context):
        if context is None:
            z = x.new_zeros(x.shape[0])
            return z, z
        p = self.lin(context)
        return torch.tanh(p[:, 0]), p[:, 1]

    def forward(self, inputs, context=None):
        s, t = self._params(inputs, context)
        v = (-1,) + (1,) * (inputs.dim() - 1)
        return inputs * torch.exp(s).reshape(v) + t.reshape(v), s * inputs[0].numel()

    def inverse(self, inputs, context=None):
        s, t = self._params(inputs, context)
        v = (-1,) + (1,) * (inputs.dim() - 1)
        return (inputs - t.reshape(v)) * torch.exp(-s).reshape(v), -s * inputs[0].numel()


class Cfg:
    def __init__(self, name, build, event, ctxw, model, *, needs_ctx=False, supports_ctx=True,
                 sample_implemented=True, ctx_dependent=False, emb=False, in_c18=True):
        self.name = name
        self.build = build            # () -> Distribution
        self.event = list(event)
        self.ctxw = ctxw              # width of a raw context row
        self.model = model            # `cls` JSON for the Lean model
        self.needs_ctx = needs_ctx or emb   # requires a context (a flow with an embedding net is conditional by construction)
        self.supports_ctx = supports_ctx
        self.sample_implemented = sample_implemented
        self.ctx_dependent = ctx_dependent   # the density really depends on the context row
        self.emb = emb
        self.in_c18 = in_c18          # False: the Lean shape model has no descriptor for it (C04 only)


def _mk_emb(cin, cout):
    return nn.Sequential(nn.Linear(cin, cout), nn.Tanh())


def _coupling(D, C):
    mask = torch.ones(D)
    mask[::2] = -1
    return AffineCouplingTransform(mask, lambda i, o: nets.ResidualNet(i, o, hidden_features=8, context_features=C, num_blocks=1))


def _randomize(module, gen):
    """nflows initialises the last layers near zero; spread the weights so that context dependence is O(1)"""
    with torch.no_grad():
        for p in module.parameters():
            p.copy_(torch.randn(p.shape, generator=gen) * 0.4)
        # normalisation layers: running statistics as after some training (nflows' BatchNorm starts with running_var = 0, i.e. a
        # scale of 1/sqrt(eps) = 316 per layer in evaluation mode: a correct but needle-shaped density that no fixed grid resolves)
        for mod in module.modules():
            rm, rv = getattr(mod, 'running_mean', None), getattr(mod, 'running_var', None)
            if torch.is_tensor(rm) and torch.is_tensor(rv):
                rm.copy_(0.3 * torch.randn(rm.shape, generator=gen))
                rv.copy_(0.5 + torch.rand(rv.shape, generator=gen))
    return module


def configs(events=((1,), (3,), (2, 2)), gen=None, randomize=False):
    """all configurations; `gen` seeds parameter draws (only values, never shapes, depend on it)"""
    out = []
    fin = (lambda m: _randomize(m, gen)) if randomize else (lambda m: m)
    for ev in events:
        ev = list(ev)
        P = prod(ev)
        tag = 'x'.join(map(str, ev))
        out.append(Cfg('StandardNormal[%s]' % tag, lambda ev=ev: StandardNormal(ev), ev, 4,
                       {'k': 'StandardNormal', 'event': ev}))
        out.append(Cfg('ConditionalDiagonalNormal[%s]' % tag, lambda ev=ev: ConditionalDiagonalNormal(ev), ev, 2 * P,
                       {'k': 'ConditionalDiagonalNormal', 'event': ev}, needs_ctx=True, ctx_dependent=True))
        out.append(Cfg('DiagonalNormal[%s]' % tag, lambda ev=ev: DiagonalNormal(ev), ev, 2,
                       {'k': 'DiagonalNormal', 'event': ev}, sample_implemented=False))
        out.append(Cfg('ConditionalIndependentBernoulli[%s]' % tag, lambda ev=ev: ConditionalIndependentBernoulli(ev), ev, P,
                       {'k': 'ConditionalIndependentBernoulli', 'event': ev}, needs_ctx=True, ctx_dependent=True))
        # flows over any event shape with the element-wise context-dependent transform
        for emb in (False, True):
            C = 2
            raw = 4 if emb else C
            out.append(Cfg('Flow(CtxAffine,StandardNormal[%s]%s)' % (tag, ',emb' if emb else ''),
                           lambda ev=ev, emb=emb, C=C, raw=raw: fin(Flow(CtxAffine(C), StandardNormal(ev), embedding_net=_mk_emb(raw, C) if emb else None)),
                           ev, raw,
                           {'k': 'Flow', 'event': ev, 'tr': {'k': 'ctxAware', 'C': C}, 'emb': [raw, C] if emb else None,
                            'base': {'k': 'StandardNormal', 'event': ev}}, ctx_dependent=True, emb=emb))
            C = 2 * P
            raw = 3 if emb else C
            out.append(Cfg('Flow(CtxAffine,ConditionalDiagonalNormal[%s]%s)' % (tag, ',emb' if emb else ''),
                           lambda ev=ev, emb=emb, C=C, raw=raw: fin(Flow(CtxAffine(C), ConditionalDiagonalNormal(ev), embedding_net=_mk_emb(raw, C) if emb else None)),
                           ev, raw,
                           {'k': 'Flow', 'event': ev, 'tr': {'k': 'ctxAware', 'C': C}, 'emb': [raw, C] if emb else None,
                            'base': {'k': 'ConditionalDiagonalNormal', 'event': ev}}, needs_ctx=True, ctx_dependent=True, emb=emb))
        C = 2
        out.append(Cfg('Flow(CtxAffine,StandardNormal[%s],emb=same-width)' % tag,
                       lambda ev=ev, C=C: fin(Flow(CtxAffine(C), StandardNormal(ev), embedding_net=_mk_emb(C, C))),
                       ev, C,
                       {'k': 'Flow', 'event': ev, 'tr': {'k': 'ctxAware', 'C': C}, 'emb': [C, C],
                        'base': {'k': 'StandardNormal', 'event': ev}}, ctx_dependent=True, emb=True))
        if len(ev) == 1:
            D = ev[0]
            out.append(Cfg('MADEMoG[%d]' % D, lambda D=D: MADEMoG(D, 8, 2, num_mixture_components=2), ev, 2,
                           {'k': 'MADEMoG', 'D': D, 'C': 2}, ctx_dependent=True))
            for emb in (False, True):
                C = 2
                raw = 4 if emb else C
                out.append(Cfg('Flow(MAAT,StandardNormal[%d]%s)' % (D, ',emb' if emb else ''),
                               lambda D=D, emb=emb, C=C, raw=raw: fin(Flow(MaskedAffineAutoregressiveTransform(D, 8, context_features=C),
                                                                           StandardNormal([D]), embedding_net=_mk_emb(raw, C) if emb else None)),
                               ev, raw,
                               {'k': 'Flow', 'event': ev, 'tr': {'k': 'ctxAware', 'C': C}, 'emb': [raw, C] if emb else None,
                                'base': {'k': 'StandardNormal', 'event': ev}}, ctx_dependent=True, emb=emb))
                C = 2 * D
                raw = 3 if emb else C
                out.append(Cfg('Flow(MAAT,ConditionalDiagonalNormal[%d]%s)' % (D, ',emb' if emb else ''),
                               lambda D=D, emb=emb, C=C, raw=raw: fin(Flow(MaskedAffineAutoregressiveTransform(D, 8, context_features=C),
                                                                           ConditionalDiagonalNormal([D]), embedding_net=_mk_emb(raw, C) if emb else None)),
                               ev, raw,
                               {'k': 'Flow', 'event': ev, 'tr': {'k': 'ctxAware', 'C': C}, 'emb': [raw, C] if emb else None,
                                'base': {'k': 'ConditionalDiagonalNormal', 'event': ev}}, needs_ctx=True, ctx_dependent=True, emb=emb))
            out.append(Cfg('MaskedAutoregressiveFlow[%d]' % D, lambda D=D: fin(MaskedAutoregressiveFlow(D, 8, 2, 1)), ev, 2,
                           {'k': 'Flow', 'event': ev, 'tr': {'k': 'noCtx', 'e': 'AttributeError'}, 'emb': None,
                            'base': {'k': 'StandardNormal', 'event': ev}}, supports_ctx=False))
            # ready-made flows with their non-default options: batch norm inside and between the layers, dropout (all inert in evaluation mode)
            out.append(Cfg('MaskedAutoregressiveFlow[%d]/bn' % D,
                           lambda D=D: fin(MaskedAutoregressiveFlow(D, 8, 2, 1, use_residual_blocks=False, batch_norm_within_layers=True,
                                                                    batch_norm_between_layers=True, dropout_probability=0.2)), ev, 2,
                           {'k': 'Flow', 'event': ev, 'tr': {'k': 'noCtx', 'e': 'AttributeError'}, 'emb': None,
                            'base': {'k': 'StandardNormal', 'event': ev}}, supports_ctx=False, in_c18=False))
            if D >= 2:
                out.append(Cfg('SimpleRealNVP[%d]/bn' % D,
                               lambda D=D: fin(SimpleRealNVP(D, 8, 2, 1, dropout_probability=0.2, batch_norm_within_layers=True,
                                                             batch_norm_between_layers=True)), ev, 2,
                               {'k': 'Flow', 'event': ev, 'tr': {'k': 'noCtx', 'e': 'RuntimeError'}, 'emb': None,
                                'base': {'k': 'StandardNormal', 'event': ev}}, supports_ctx=False, in_c18=False))
            if D >= 2:
                # a linear layer with its weight cache ON, in front of a context-dependent transform (the sampling path calls the
                # cached INVERSE before anything filled the cache)
                out.append(Cfg('Flow(CachedLinear+CtxAffine,StandardNormal[%d])' % D,
                               lambda D=D: fin(Flow(CompositeTransform([NaiveLinear(D, using_cache=True), CtxAffine(2)]), StandardNormal([D]))),
                               ev, 2,
                               {'k': 'Flow', 'event': ev, 'tr': {'k': 'ctxAware', 'C': 2}, 'emb': None,
                                'base': {'k': 'StandardNormal', 'event': ev}}, ctx_dependent=True, in_c18=False))
                out.append(Cfg('SimpleRealNVP[%d]' % D, lambda D=D: fin(SimpleRealNVP(D, 8, 2, 1)), ev, 2,
                               {'k': 'Flow', 'event': ev, 'tr': {'k': 'noCtx', 'e': 'RuntimeError'}, 'emb': None,
                                'base': {'k': 'StandardNormal', 'event': ev}}, supports_ctx=False))
                for emb in (False, True):
                    C = 2
                    raw = 4 if emb else C
                    out.append(Cfg('Flow(Coupling,StandardNormal[%d]%s)' % (D, ',emb' if emb else ''),
                                   lambda D=D, emb=emb, C=C, raw=raw: fin(Flow(CompositeTransform([_coupling(D, C), _coupling(D, C)]),
                                                                               StandardNormal([D]), embedding_net=_mk_emb(raw, C) if emb else None)),
                                   ev, raw,
                                   {'k': 'Flow', 'event': ev, 'tr': {'k': 'ctxAware', 'C': C}, 'emb': [raw, C] if emb else None,
                                    'base': {'k': 'StandardNormal', 'event': ev}}, needs_ctx=True, ctx_dependent=True, emb=emb, in_c18=False))
    return out


ERR_KINDS = {'TypeError', 'ValueError', 'RuntimeError', 'NotImplementedError', 'AttributeError', 'AssertionError', 'IndexError'}


def err_kind(e):
    n = type(e).__name__
    return n if n in ERR_KINDS else 'other:' + n
