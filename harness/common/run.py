"""Generic check runner: proof audit + correspondence + known findings + failing-input search + evidence.

Exit codes: 0 property held on everything explored; 1 VIOLATION printed; 2 infrastructure failure.
"""
import hashlib, importlib, json, os, random, re, subprocess, sys, time, traceback

VERIF = os.path.dirname(os.path.dirname(os.path.dirname(os.path.abspath(__file__))))
LEAN_DIR = os.path.join(VERIF, 'lean')
ALLOWED_AXIOMS = {'propext', 'Classical.choice', 'Quot.sound'}
FORBIDDEN = re.compile(r'\bsorry\b|\badmit\b|^axiom |native_decide|bv_decide|implemented_by|\bunsafe |maxHeartbeats 0')

TRUSTED_BASE = [
    "Lean 4.33 kernel (thorough tier: also leanchecker) and Mathlib v4.33 as compiled on this image",
    "axioms allowed in property theorems: propext, Classical.choice, Quot.sound (audited by collectAxioms on every run)",
    "the Lean compiler/runtime executing the model driver; Lean Float/Float32 = platform IEEE ops and libm",
    "the Python harness: bit-exact float transport, tolerance policy, hooks capturing conditioner I/O",
    "PyTorch kernels modelled by their documented meaning; autograd and RNGs trusted",
    "theorems are over the reals; that floating point approximates them is assumed, not proved",
]


class Infra(Exception):
    pass


class Ctx:
    def __init__(self, prop, tier, seed):
        self.prop = prop
        self.tier = tier
        self.seed = seed
        self.rng = random.Random(seed * 1000003 + int(prop[1:]))
        self.t0 = time.time()
        self.evaluations = 0
        self.nontrivial = set()
        self.branches = {}
        self.samples = []
        self.disagreements = []   # list of dicts {case, impl, model, op, why}
        self.failing = []         # concrete failing inputs of the property found by oracle/search
        self.notes = []
        self.extra = {}
        self.exhaustive = None
        self.obligations = []     # list of (theorem, axioms)
        self.proof_broken = []    # names of obligations that no longer check
        self.infos = []
        self.known_entries = []   # known_findings.json entries (status known) of this property

    # --- recording -------------------------------------------------------
    def count(self, branch, n=1):
        self.branches[branch] = self.branches.get(branch, 0) + n

    def case(self, key=None, branch=None, nontrivial=True, sample=None, n=1):
        """record n evaluated cases; key identifies a distinct non-trivial case"""
        self.evaluations += n
        if branch is not None:
            self.count(branch, n)
        if nontrivial and key is not None:
            self.nontrivial.add(key if isinstance(key, (str, int, tuple)) else json.dumps(key, sort_keys=True))
        if sample is not None and len(self.samples) < 6:
            self.samples.append(sample)

    def disagree(self, op, case, impl, model, why=''):
        self.disagreements.append({'op': op, 'case': case, 'impl': impl, 'model': model, 'why': why})

    def fail(self, what, case, detail=None, match=None):
        """a concrete input on which the property itself fails on the implementation"""
        self.failing.append({'what': what, 'case': case, 'detail': detail, 'match': match or {}})

    def is_known(self, match):
        """does a failing input with this match dict correspond to a listed known finding?"""
        return any(match_finding({'match': match}, k) for k in self.known_entries)

    def quick(self):
        return self.tier != 'thorough'

    def elapsed(self):
        return time.time() - self.t0


# ---------------------------------------------------------------------------------------------
def sh(cmd, cwd=None, timeout=3600):
    p = subprocess.run(cmd, cwd=cwd, stdout=subprocess.PIPE, stderr=subprocess.STDOUT, timeout=timeout)
    return p.returncode, p.stdout.decode(errors='replace')


def lake_build(prop=None):
    """build what this property's check needs: the driver executable, the audit tool and the property module with its
    dependencies (incl. its regenerated terms).  Other properties' generated files are not this check's business."""
    targets = ['driver', 'NflowsModel.Audit.Tool'] + (['NflowsModel.Properties.' + prop] if prop else [])
    # a property's theorems may continue in Properties/<prop>*.lean (same namespace; imported by its Audit script)
    if prop:
        for f in sorted(os.listdir(os.path.join(LEAN_DIR, 'NflowsModel', 'Properties'))):
            if f.startswith(prop) and f.endswith('.lean') and f != prop + '.lean':
                targets.append('NflowsModel.Properties.' + f[:-5])
    rc, out = sh(['lake', 'build'] + targets, cwd=LEAN_DIR, timeout=3000)
    return rc, out


def grep_forbidden():
    hits = []
    for root, _, files in os.walk(os.path.join(LEAN_DIR, 'NflowsModel')):
        for f in files:
            if not f.endswith('.lean'):
                continue
            p = os.path.join(root, f)
            in_block = 0
            for i, line in enumerate(open(p, encoding='utf-8'), 1):
                # strip comments (line comments and block comments)
                s = line
                out = ''
                j = 0
                while j < len(s):
                    if in_block:
                        k = s.find('-/', j)
                        k2 = s.find('/-', j)
                        if k2 != -1 and (k == -1 or k2 < k):
                            in_block += 1; j = k2 + 2; continue
                        if k == -1:
                            j = len(s)
                        else:
                            in_block -= 1; j = k + 2
                    else:
                        if s.startswith('/-', j):
                            in_block += 1; j += 2; continue
                        if s.startswith('--', j):
                            break
                        out += s[j]; j += 1
                if FORBIDDEN.search(out):
                    hits.append('%s:%d: %s' % (os.path.relpath(p, LEAN_DIR), i, line.strip()))
    main = os.path.join(LEAN_DIR, 'Main.lean')
    return hits


def audit(prop, extra_files=()):
    """elaborate the audit file of the property; returns list of (theorem, [axioms]) and raw output"""
    path = os.path.join('NflowsModel', 'Audit', prop + '.lean')
    if not os.path.exists(os.path.join(LEAN_DIR, path)):
        raise Infra('missing audit file ' + path)
    rc, out = sh(['lake', 'env', 'lean', path], cwd=LEAN_DIR, timeout=1800)
    obs = []
    for line in out.splitlines():
        m = re.search(r'AUDIT (\{.*\})\s*$', line)
        if m:
            d = json.loads(m.group(1))
            obs.append((d['theorem'], d['axioms']))
    return rc, obs, out


def load_findings():
    p = os.path.join(VERIF, 'known_findings.json')
    if not os.path.exists(p):
        return []
    return json.load(open(p))


def match_finding(f, entry):
    """does failing input f match the `match` dict of a known-finding entry (all keys equal)?"""
    m = entry.get('match', {})
    fm = f.get('match', {})
    return all(fm.get(k) == v for k, v in m.items()) and len(m) > 0


def write_replay(ctx, payload):
    os.makedirs(os.path.join(VERIF, 'replays'), exist_ok=True)
    h = hashlib.sha1(json.dumps(payload, sort_keys=True, default=str).encode()).hexdigest()[:12]
    path = os.path.join(VERIF, 'replays', '%s-%s.json' % (ctx.prop, h))
    payload = dict(payload)
    payload.update({'property': ctx.prop, 'seed': ctx.seed, 'tier': ctx.tier})
    with open(path, 'w') as fh:
        json.dump(payload, fh, indent=1, default=str)
    return os.path.relpath(path, VERIF)


def write_evidence(ctx, mod, violations, level, checker_cmd):
    ev = {
        'property_id': ctx.prop,
        'tier': 'thorough' if ctx.tier == 'thorough' else 'quick',
        'seed': ctx.seed,
        'level': level,
        'coverage': {
            'obligations': len(ctx.obligations),
            'discharged': len([1 for (_, ax) in ctx.obligations if set(ax) <= ALLOWED_AXIOMS]) - len(ctx.proof_broken),
            'checker_cmd': checker_cmd,
            'trusted_base': TRUSTED_BASE + list(getattr(mod, 'TRUSTED_EXTRA', [])),
            'theorems': [t for (t, _) in ctx.obligations],
            'partial_theorems': [t for (t, _) in ctx.obligations if t.endswith('_partial')],
            'counterexample_theorems': [t for (t, _) in ctx.obligations if 'counterexample' in t],
            'axioms_used': sorted({a for (_, ax) in ctx.obligations for a in ax}),
            'evaluations': ctx.evaluations,
            'distinct_nontrivial': len(ctx.nontrivial),
            'rule': getattr(mod, 'RULE', ''),
            'samples': ctx.samples[:6] if ctx.samples else [{'note': 'no sample recorded'}],
            'branches': ctx.branches,
            'disagreements_checked': len(ctx.disagreements),
            'failing_inputs_found': len(ctx.failing),
            'explanation': getattr(mod, 'EXPLANATION', ''),
            'notes': ctx.notes,
        },
        'assumptions': list(getattr(mod, 'ASSUMPTIONS', [])) + TRUSTED_BASE,
        'wall_s': round(ctx.elapsed(), 2),
        'violations': violations,
    }
    if ctx.exhaustive is not None:
        ev['coverage']['exhaustive'] = bool(ctx.exhaustive)
    ev['coverage'].update(ctx.extra)
    os.makedirs(os.path.join(VERIF, 'evidence'), exist_ok=True)
    with open(os.path.join(VERIF, 'evidence', ctx.prop + '.json'), 'w') as fh:
        json.dump(ev, fh, indent=1, default=str)


def main(argv=None):
    argv = argv or sys.argv[1:]
    if len(argv) < 1:
        print('usage: check Cxx [quick|thorough] [--replay FILE]'); return 2
    prop = argv[0]
    tier = 'quick'
    replay = None
    i = 1
    while i < len(argv):
        if argv[i] == '--replay':
            replay = argv[i + 1]; i += 2
        else:
            tier = argv[i]; i += 1
    tier = os.environ.get('VERIF_TIER', tier)
    seed = int(os.environ.get('VERIF_SEED', '0'))
    ctx = Ctx(prop, tier, seed)
    try:
        return run(ctx, replay)
    except Infra as e:
        print('INFRASTRUCTURE-ERROR: %s' % e)
        return 2
    except subprocess.TimeoutExpired as e:
        print('INFRASTRUCTURE-ERROR: timeout %s' % e)
        return 2


def run(ctx, replay):
    prop = ctx.prop
    sys.path.insert(0, VERIF)
    os.environ.setdefault('NFLOWS_VERIF', '1')
    try:
        mod = importlib.import_module('harness.props.' + prop.lower())
    except ImportError as e:
        raise Infra('cannot import property module: %s' % e)
    level = getattr(mod, 'LEVEL', 'proof')
    checker_cmd = 'cd lean && lake build && lake env lean NflowsModel/Audit/%s.lean  (collectAxioms per theorem of namespace Properties.%s)' % (prop, prop)

    if replay:
        payload = json.load(open(os.path.join(VERIF, replay) if not os.path.isabs(replay) else replay))
        mod.setup(ctx) if hasattr(mod, 'setup') else None
        if hasattr(mod, 'replay'):
            still = mod.replay(ctx, payload)
        else:
            # generic replay: re-run the correspondence with the seed of the recorded run and, if it (still) breaks, the
            # search; "still fails" = the same kind of failing input (same match dict) or the same disagreeing op recurs
            ctx.seed = int(payload.get('seed', ctx.seed))
            ctx.known_entries = [f for f in load_findings() if f.get('property') == prop and f.get('status') == 'known']
            try:
                mod.correspondence(ctx)
            except Exception as e:
                ctx.disagree('harness-exception', {'exception': repr(e)}, None, None, traceback.format_exc()[-2000:])
            if ctx.disagreements and hasattr(mod, 'search'):
                mod.search(ctx)
            want = (payload.get('failing') or {}).get('match')
            if payload.get('found_failing_input') and want:
                still = any(f.get('match') == want for f in ctx.failing) or (bool(ctx.disagreements) and not ctx.failing)
            else:
                ops = {c.get('op') for c in (payload.get('broken', {}).get('correspondence') or [])}
                still = any(d['op'] in ops for d in ctx.disagreements) if ops else bool(ctx.disagreements)
        print('REPLAY property=%s file=%s still_fails=%s' % (prop, replay, still))
        return 1 if still else 0

    # 1. pre-build translation (regenerated Lean terms), then build
    if hasattr(mod, 'generate_lean'):
        try:
            mod.generate_lean(ctx)
        except Exception as e:
            ctx.notes.append('generate_lean raised: %r' % (e,))
            ctx.proof_broken.append('Generated.%s (translator raised %s)' % (prop, type(e).__name__))
    rc, out = lake_build(prop)
    if rc != 0:
        gen_fail = [l for l in out.splitlines() if 'Generated' in l and ('error' in l or '✖' in l)]
        if gen_fail:
            ctx.proof_broken.append('Generated term no longer checks: ' + gen_fail[0][:300])
            ctx.notes.append(out[-3000:])
        else:
            raise Infra('lake build failed:\n' + out[-3000:])

    # 2. audit
    rc, obs, aout = audit(prop)
    ctx.obligations = obs
    if rc != 0 and not obs:
        if ctx.proof_broken:
            pass
        else:
            raise Infra('audit failed:\n' + aout[-3000:])
    for (t, ax) in obs:
        if not set(ax) <= ALLOWED_AXIOMS:
            ctx.proof_broken.append('%s depends on %s' % (t, sorted(set(ax) - ALLOWED_AXIOMS)))
    expected = getattr(mod, 'REQUIRED_THEOREMS', [])
    have = {t for (t, _) in obs}
    for t in expected:
        if t not in have:
            ctx.proof_broken.append('required theorem missing: ' + t)
    hits = grep_forbidden()
    if hits:
        ctx.proof_broken.append('forbidden token in Lean sources: ' + '; '.join(hits[:5]))
    if ctx.tier == 'thorough' and getattr(mod, 'LEANCHECKER', True):
        mods = ['NflowsModel.Properties.' + f[:-5] for f in sorted(os.listdir(os.path.join(LEAN_DIR, 'NflowsModel', 'Properties')))
                if f.startswith(prop) and f.endswith('.lean')]
        rc, lout = sh(['lake', 'env', 'leanchecker'] + mods, cwd=LEAN_DIR, timeout=3000)
        ctx.extra['leanchecker_rc'] = rc
        if rc != 0:
            ctx.proof_broken.append('leanchecker rejected NflowsModel.Properties.%s: %s' % (prop, lout[-500:]))

    ctx.known_entries = [f for f in load_findings() if f.get('property') == prop and f.get('status') == 'known']
    # 3. correspondence (corpus first, then generated cases)
    try:
        if hasattr(mod, 'setup'):
            mod.setup(ctx)
        mod.correspondence(ctx)
    except Infra:
        raise
    except Exception as e:
        tb = traceback.format_exc()
        ctx.disagree('harness-exception', {'exception': repr(e)}, None, None, tb[-3000:])

    findings = [f for f in load_findings() if f.get('property') == prop]
    known = [f for f in findings if f.get('status') == 'known']
    fixed = [f for f in findings if f.get('status') == 'fixed']
    violations = []
    known_lines = []

    # 4. replay listed findings on the implementation
    if hasattr(mod, 'replay_finding'):
        for f in findings:
            try:
                fails = mod.replay_finding(ctx, f)
            except Exception as e:
                fails = None
                ctx.notes.append('replay_finding %s raised %r' % (f.get('id'), e))
            if f.get('status') == 'known':
                if fails:
                    known_lines.append('KNOWN-FINDING: property=%s %s: %s' % (prop, f.get('id'), f.get('what')))
                elif fails is False:
                    ctx.infos.append('finding %s no longer reproduces (resolved?)' % f.get('id'))
            else:
                if fails:
                    ctx.fail('regression of fixed finding %s: %s' % (f.get('id'), f.get('what')), f.get('match'), match={'regression': f.get('id')})
        ctx.extra['known_findings_replayed'] = len(findings)

    # 5./6. decide
    broken = bool(ctx.proof_broken) or bool(ctx.disagreements)
    if broken:
        # search for a concrete failing input of the property itself
        if hasattr(mod, 'search'):
            try:
                mod.search(ctx)
            except Exception as e:
                ctx.notes.append('search raised %r\n%s' % (e, traceback.format_exc()[-1500:]))
    unlisted = []
    for f in ctx.failing:
        if any(match_finding(f, k) for k in known):
            line = 'KNOWN-FINDING: property=%s %s' % (prop, f['what'])
            if line not in known_lines:
                known_lines.append(line)
        else:
            unlisted.append(f)
    if unlisted:
        f = unlisted[0]
        path = write_replay(ctx, {'found_failing_input': True, 'failing': f, 'n_failing': len(unlisted),
                                  'others': unlisted[1:6],
                                  'broken': {'proof': ctx.proof_broken, 'correspondence': ctx.disagreements[:3]}})
        violations.append('VIOLATION property=%s replay=%s' % (prop, path))
    elif broken:
        # known-only failing inputs explain the break? only if every disagreement is attributable; be conservative:
        only_known = bool(ctx.failing) and not ctx.proof_broken and all(d.get('known') for d in ctx.disagreements)
        if not only_known:
            path = write_replay(ctx, {'found_failing_input': False,
                                      'broken': {'proof': ctx.proof_broken,
                                                 'correspondence': ctx.disagreements[:5],
                                                 'n_disagreements': len(ctx.disagreements)}})
            violations.append('VIOLATION property=%s replay=%s no-failing-input-found' % (prop, path))

    write_evidence(ctx, mod, len(violations), level, checker_cmd)
    for l in known_lines:
        print(l)
    for l in ctx.infos:
        print('INFO: ' + l)
    print('SUMMARY property=%s tier=%s seed=%d theorems=%d evaluations=%d distinct_nontrivial=%d disagreements=%d failing=%d wall=%.1fs'
          % (prop, ctx.tier, ctx.seed, len(ctx.obligations), ctx.evaluations, len(ctx.nontrivial), len(ctx.disagreements), len(ctx.failing), ctx.elapsed()))
    for v in violations:
        print(v)
    return 1 if violations else 0


if __name__ == '__main__':
    sys.exit(main())
